# -*- coding: utf-8 -*-
"""python -m hxsa check <id> [--tier quick|thorough] [--repo /repo]

exit 0  every obligation discharged (or matched a listed open known finding)
exit 1  VIOLATION property=<id> replay=<path>   (an obligation was refuted)
exit 2  ANALYSIS-ERROR (anchor vanished / instance floor / unsupported construct) - never a VIOLATION
"""
import argparse
import importlib
import os
import sys
import time
import traceback

from .model import Model, AnalysisError
from .absint import Unmodelled
from . import report

ALL = ['C%02d' % i for i in range(1, 21)]


def run_check(prop, tier, repo, seed):
    t0 = time.time()
    res = report.Result(prop)
    try:
        mod = importlib.import_module('hxsa.rules.%s' % prop.lower())
        model = Model(repo)
        mod.run(model, res, tier)
        if getattr(res, 'deferred_errors', None) and not res.findings:
            raise res.deferred_errors[0]
    except AnalysisError as e:
        print('ANALYSIS-ERROR property=%s %s' % (prop, e))
        return 2
    except Unmodelled as e:
        # a construct outside the interpreter's models stopped a rule group that does not guard itself: whatever was decided so far
        # stands, the rest is undecided - never a violation, and not an error of the analysed code either
        res.notes.append('undecided: rule evaluation stopped at an unmodelled construct (%s)' % e)
        res.ob('interpreter', 'package', 'remaining rule groups', True, 'undecided: unmodelled construct %s' % e)
        print('note: property=%s some rules undecided (unmodelled construct: %s)' % (prop, e))
    except Exception as e:      # a crash of the checker is not a violation of the property
        print('ANALYSIS-ERROR property=%s checker crashed: %r' % (prop, e))
        traceback.print_exc()
        return 2
    try:
        return report.finish(res, tier, seed, t0)
    except Exception as e:
        print('ANALYSIS-ERROR property=%s cannot write evidence: %r' % (prop, e))
        traceback.print_exc()
        return 2


def main(argv=None):
    ap = argparse.ArgumentParser(prog='hxsa')
    sub = ap.add_subparsers(dest='cmd')
    c = sub.add_parser('check')
    c.add_argument('prop')
    c.add_argument('--tier', default=os.environ.get('VERIF_TIER', 'quick'), choices=['quick', 'thorough'])
    c.add_argument('--repo', default=os.environ.get('HXSA_REPO', '/repo'))
    s = sub.add_parser('selftest')
    s.add_argument('props', nargs='*')
    s.add_argument('--smoke', action='store_true')
    s.add_argument('--repo', default=os.environ.get('HXSA_REPO', '/repo'))
    s.add_argument('--jobs', type=int, default=16)
    a = sub.add_parser('all')
    a.add_argument('--tier', default='quick')
    a.add_argument('--repo', default=os.environ.get('HXSA_REPO', '/repo'))
    args = ap.parse_args(argv)
    try:
        seed = int(os.environ.get('VERIF_SEED', '0'))
    except ValueError:
        seed = 0
    if args.cmd == 'check':
        prop = args.prop.upper()
        if prop not in ALL:
            print('ANALYSIS-ERROR unknown property %s' % prop)
            return 2
        rc = run_check(prop, args.tier, args.repo, seed)
        if rc == 0 and args.tier == 'thorough':
            # checker self-validation on scratch copies of the current tree (a failure is exit 2, never a VIOLATION)
            from . import variants
            import json
            vrc, stats = variants.run_stats([prop], args.repo, jobs=16, quiet=False)
            evp = os.path.join(report.EVIDENCE_DIR, prop + '.json')
            try:
                ev = json.load(open(evp))
                ev['coverage']['self_validation'] = stats
                json.dump(ev, open(evp, 'w'), indent=1, sort_keys=True, default=str)
            except Exception:
                pass
            rc = vrc
        return rc
    if args.cmd == 'all':
        worst = 0
        for p in ALL:
            if not os.path.exists(os.path.join(os.path.dirname(__file__), 'rules', p.lower() + '.py')):
                continue
            worst = max(worst, run_check(p, args.tier, args.repo, seed))
        return worst
    if args.cmd == 'selftest':
        from . import selftest
        if args.smoke:
            return selftest.smoke(args.repo)
        return selftest.run([p.upper() for p in args.props] or None, args.repo, jobs=args.jobs)
    ap.print_help()
    return 2


if __name__ == '__main__':
    sys.exit(main())
