# -*- coding: utf-8 -*-
"""Helpers shared by the rules that use the abstract interpreter (E4)."""
from .model import AnalysisError
from .absint import (Interp, Const, Sym, Err, Atom, Top, Func, ListV, Obj, Exc, Raised, Unmodelled, NUMERIC)

SCALAR_TAGS = ['int', 'float', 'bool', 'str', 'none', 'datetime']


def mk(tag, name):
    """Fresh abstract value of a tag (blank is the constant None)."""
    if tag == 'none':
        return Const(None)
    return Sym(tag, name)


def date_opaque(model):
    """Trusted summaries of the two date converters on non-text input (validated separately by C13.R2):
    serialize_date(datetime) = serial(x) : float ;  parse_date(datetime) = x."""
    out = {}
    for m in model.modules.values():
        if 'serialize_date' in m.functions and 'parse_date' in m.functions:
            def ser(interp, args, kwargs, _m=m):
                a = args[0]
                if a.tag == 'datetime':
                    return Atom('serial', [a], 'float')
                return NotImplemented

            def par(interp, args, kwargs, _m=m):
                a = args[0]
                if a.tag == 'datetime':
                    return a
                if a.tag == 'err':
                    return a
                return NotImplemented
            out[(m.name, 'serialize_date')] = ser
            out[(m.name, 'parse_date')] = par
    if not out:
        raise AnalysisError('date converters serialize_date/parse_date not found (anchor vanished)')
    return out


def run_function(model, fv, make_args, opaque=None, flags=None, kwargs_fn=None):
    """Outcomes of calling package function value ``fv`` with freshly made arguments."""
    it = Interp(model, opaque=opaque)
    for kk, vv in (flags or {}).items():
        setattr(it, kk, vv)

    def call(interp, st):
        args = make_args()
        kw = kwargs_fn() if kwargs_fn else {}
        return interp.call(fv, args, kw)
    return it.run(call)


def registry_func(model, name):
    m, f = model.registered(name)
    return Func(m, f)


def describe(outcomes):
    return [repr(o) for o in outcomes]


def precise(outcomes):
    """No outcome depends on an unmodelled construct."""
    return all(not o.imprecise for o in outcomes)


def strip_notes(outcomes):
    seen = {}
    for o in outcomes:
        key = (o.kind, repr(o.value))
        seen.setdefault(key, o)
    return list(seen.values())


def host_objects(interp, model, c):
    """Fresh abstract (public parser object, grammar parser object) obtained by abstractly running the public
    parser's constructor (so the wiring of callbacks and tables is whatever __init__ really does)."""
    from .absint import ClassV
    root = c.root
    pm, pcls = c.cg.cls_of[root]
    parser = interp.instantiate(ClassV(pm, pcls), [])
    gobj = None
    g = c.grammar
    for a, v in parser.attrs.items():
        if isinstance(v, Obj) and any(cc is g.gcls for _, cc in model.mro(v.cls.module, v.cls.node)):
            gobj = v
    if gobj is None:
        raise AnalysisError('the public parser constructor does not create a grammar parser object (anchor vanished)')
    return parser, gobj


def cell_opaque(model):
    """Summaries of the label<->index converters on symbolic input (their internals are C19's subject):
    an uninterpreted function of the argument."""
    out = {}
    for m in model.modules.values():
        if 'extract_label' in m.functions:
            for name in ('column_label_to_index', 'row_label_to_index', 'column_index_to_label', 'row_index_to_label'):
                if name in m.functions:
                    def summ(interp, args, kwargs, name=name):
                        if all(isinstance(a, Const) for a in args):
                            return NotImplemented
                        return Atom(name, args, 'int' if name.endswith('to_index') else 'str')
                    out[(m.name, name)] = summ
    return out
