# -*- coding: utf-8 -*-
"""Helpers shared by the rules that use the abstract interpreter (E4)."""
import ast

from .model import AnalysisError
from .absint import (Interp, Const, Sym, Err, Atom, Top, Func, ListV, Obj, Exc, Raised, Unmodelled, NUMERIC)

SCALAR_TAGS = ['int', 'float', 'bool', 'str', 'none', 'datetime']


def mk(tag, name):
    """Fresh abstract value of a tag (blank is the constant None)."""
    if tag == 'none':
        return Const(None)
    return Sym(tag, name)


def date_opaque(model):
    """Trusted summaries of the two date converters on non-text input (validated separately by C13.R2):
    serialize_date(datetime) = serial(x) : float ;  parse_date(datetime) = x."""
    out = {}
    for m in model.modules.values():
        if 'serialize_date' in m.functions and 'parse_date' in m.functions:
            def ser(interp, args, kwargs, _m=m):
                a = args[0]
                if a.tag == 'datetime':
                    return Atom('serial', [a], 'float')
                return NotImplemented

            def par(interp, args, kwargs, _m=m):
                a = args[0]
                if a.tag == 'datetime':
                    return a
                if a.tag == 'err':
                    return a
                return NotImplemented
            out[(m.name, m.functions.key_of('serialize_date'))] = ser
            out[(m.name, m.functions.key_of('parse_date'))] = par
            # the conversion proper split off into a helper the converter ends in (return serialize_datetime(date)): on a date-time it
            # is the same function
            sd = m.functions['serialize_date']
            ps = [a.arg for a in sd.args.args]
            for st in sd.body:
                if isinstance(st, ast.Return) and isinstance(st.value, ast.Call) and isinstance(st.value.func, ast.Name) and \
                        st.value.func.id in m.functions and st.value.func.id not in ('serialize_date', 'parse_date') and \
                        len(st.value.args) == 1 and isinstance(st.value.args[0], ast.Name) and st.value.args[0].id in ps and not st.value.keywords:
                    out[(m.name, m.functions.key_of(st.value.func.id))] = ser
    if not out:
        raise AnalysisError('date converters serialize_date/parse_date not found (anchor vanished)')
    return out


def run_function(model, fv, make_args, opaque=None, flags=None, kwargs_fn=None):
    """Outcomes of calling package function value ``fv`` with freshly made arguments."""
    it = Interp(model, opaque=opaque)
    for kk, vv in (flags or {}).items():
        setattr(it, kk, vv)

    def call(interp, st):
        args = make_args()
        kw = kwargs_fn() if kwargs_fn else {}
        return interp.call(fv, args, kw)
    return it.run(call)


def registry_func(model, name):
    m, f = model.registered(name)
    dyn = getattr(model, 'registry_values', {}).get(name)
    from .model import UNFOLLOWED
    if dyn is UNFOLLOWED or dyn == UNFOLLOWED:
        from .absint import Unmodelled
        raise Unmodelled('%s is registered through a wrapping decorator the interpreter cannot follow' % name)
    if dyn is not None:
        return dyn          # registered by a call at import time: the value (with its closure) as it was registered
    fv = Func(m, f)
    fv.attrs['<as-registered>'] = True
    return fv


def describe(outcomes):
    return [repr(o) for o in outcomes]


def precise(outcomes):
    """No outcome depends on an unmodelled construct."""
    return all(not o.imprecise for o in outcomes)


def strip_notes(outcomes):
    seen = {}
    for o in outcomes:
        key = (o.kind, repr(o.value))
        seen.setdefault(key, o)
    return list(seen.values())


def host_objects(interp, model, c):
    """Fresh abstract (public parser object, grammar parser object) obtained by abstractly running the public
    parser's constructor (so the wiring of callbacks and tables is whatever __init__ really does)."""
    from .absint import ClassV
    root = c.root
    pm, pcls = c.cg.cls_of[root]
    parser = interp.instantiate(ClassV(pm, pcls), [])
    gobj = None
    g = c.grammar
    for a, v in parser.attrs.items():
        if isinstance(v, Obj) and any(cc is g.gcls for _, cc in model.mro(v.cls.module, v.cls.node)):
            gobj = v
    if gobj is None:
        raise AnalysisError('the public parser constructor does not create a grammar parser object (anchor vanished)')
    return parser, gobj


def cell_opaque(model):
    """Summaries of the label<->index converters on symbolic input (their internals are C19's subject):
    an uninterpreted function of the argument."""
    out = {}
    for m in model.modules.values():
        if 'extract_label' in m.functions:
            for name in ('column_label_to_index', 'row_label_to_index', 'column_index_to_label', 'row_index_to_label'):
                if name in m.functions:
                    def summ(interp, args, kwargs, name=name):
                        if all(isinstance(a, Const) for a in args):
                            return NotImplemented
                        return Atom(name, args, 'int' if name.endswith('to_index') else 'str')
                    out[(m.name, m.functions.key_of(name))] = summ
    return out


# ---------------------------------------------------------------------------------------------------
# linear forms: bounds implied by the decisions of a trace

def box_of(notes):
    """{var: [lo, lo_strict, hi, hi_strict, excluded set]} from the single-variable affine decisions of a trace, and
    whether the trace also carries decisions in several variables (which the box ignores)."""
    from fractions import Fraction
    from .absint import AffCmp
    box = {}
    multi = False
    for (t, alt, s) in notes:
        if not isinstance(s, AffCmp):
            continue
        if len(s.coeffs) != 1:
            multi = True
            continue
        v = list(s.coeffs)[0]
        a, b = s.coeffs[v], s.const
        c = -b / a
        op = s.op
        if not alt:
            op = {'lt': 'ge', 'le': 'gt', 'gt': 'le', 'ge': 'lt', 'eq': 'ne', 'ne': 'eq'}[op]
        if a < 0:
            op = {'lt': 'gt', 'le': 'ge', 'gt': 'lt', 'ge': 'le', 'eq': 'eq', 'ne': 'ne'}[op]
        e = box.setdefault(v, [None, False, None, False, set()])
        if op in ('gt', 'ge', 'eq'):
            strict = op == 'gt'
            if e[0] is None or c > e[0] or (c == e[0] and strict):
                e[0], e[1] = c, strict
        if op in ('lt', 'le', 'eq'):
            strict = op == 'lt'
            if e[2] is None or c < e[2] or (c == e[2] and strict):
                e[2], e[3] = c, strict
        if op == 'ne':
            e[4].add(c)
    return box, multi


def int_min(aff, box, implicit_nonneg=('len(',)):
    """Smallest value the linear form can take over the *integer* points of the box (None = unbounded below)."""
    import math
    from fractions import Fraction
    total = aff.const
    for v, c in aff.coeffs.items():
        e = box.get(v, [None, False, None, False, set()])
        lo, los, hi, his, excl = e
        if v.startswith('trunc:'):
            # the integer part of a real variable: bounds follow from those of the variable (int() rounds towards zero)
            rlo, rlos, rhi, rhis, _x = box.get(v[6:], [None, False, None, False, set()])
            lo = los = hi = his = None
            excl = set()
            if rlo is not None:
                if rlo >= 0:
                    lo = Fraction(math.floor(rlo))
                else:
                    cl = math.ceil(rlo)
                    lo = Fraction(cl + 1 if (rlos and rlo == cl) else cl)
                los = False
            if rhi is not None:
                if rhi <= 0:
                    hi = Fraction(math.ceil(rhi))
                else:
                    fl = math.floor(rhi)
                    hi = Fraction(fl - 1 if (rhis and rhi == fl) else fl)
                his = False
        if lo is None and any(v.startswith(p) for p in implicit_nonneg):
            lo, los = Fraction(0), False
        if c > 0:
            if lo is None:
                return None
            m = math.floor(lo) + 1 if (los and lo == math.floor(lo)) else math.ceil(lo)
            while Fraction(m) in excl:
                m += 1
            total += c * m
        else:
            if hi is None:
                return None
            m = math.ceil(hi) - 1 if (his and hi == math.ceil(hi)) else math.floor(hi)
            while Fraction(m) in excl:
                m -= 1
            total += c * m
    return total


def int_max(aff, box):
    from .absint import Aff
    neg = Aff(dict((v, -c) for v, c in aff.coeffs.items()), -aff.const, aff.kind)
    m = int_min(neg, box, implicit_nonneg=())
    return None if m is None else -m


def safely(res, rule, site, fn, *args, **kwargs):
    """Run one group of obligations; a construct the interpreter does not model makes that group *undecided*
    (recorded, never a violation, never a crash)."""
    from .model import AnalysisError
    try:
        return fn(*args, **kwargs)
    except Unmodelled as e:
        res.ob(rule, site, 'undecided: construct not modelled', True, str(e))
        res.notes.append('%s %s: undecided - %s' % (rule, site, e))
        return None
    except AnalysisError as e:
        # an anchor of this rule group vanished: the other groups still run; the check ends as analysis-broken (exit 2) unless one
        # of them finds a violation, which is reported instead (run_check looks at res.deferred_errors)
        if not hasattr(res, 'deferred_errors'):
            res.deferred_errors = []
        res.deferred_errors.append(e)
        res.notes.append('%s %s: analysis error - %s' % (rule, site, e))
        return None


def borrow(res, rule, what, fn, *args, **kwargs):
    """Cross-property borrowing: run rule group ``fn`` of another property into a scratch Result and re-emit its obligations and
    findings under ``rule`` of this property.  An analysis problem inside the borrowed group leaves the rule undecided here
    (the owning property reports it)."""
    from .report import Result
    from .model import AnalysisError
    from .absint import Unmodelled
    tmp = Result(res.prop)
    try:
        fn(*args, res=tmp, **kwargs) if kwargs.pop('_kw', False) else fn(tmp, *args)
    except (AnalysisError, Unmodelled) as e:
        res.ob(rule, what, 'borrowed rule group', True, 'undecided: %s' % e)
        res.notes.append('%s.%s (%s): undecided: %s' % (res.prop, rule, what, e))
        return None
    res.absorb(rule, tmp)
    return tmp
