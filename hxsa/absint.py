# -*- coding: utf-8 -*-
"""E4 - abstract interpreter over the reduced product  type-tag x constant x origin x list-shape.

Entry states are case-split by type tag, which makes almost every branch of this code base determinate
(the code inspects operands only through isinstance / type() / ``is None`` / truthiness).  Values whose *magnitude*
matters stay symbolic: an unknown of a known tag (``Sym``) keeps its identity (origin), results of value computations
are uninterpreted atoms (``Atom('lt', a, b)``).  Undetermined conditions fork the trace (trace partitioning, capped).
Loops are executed over known shapes; package callees are inlined (depth-limited); generators are evaluated eagerly
into (items, optional raise at the end) so that consumers can be modelled as draining or short-circuiting.

The interpreter never imports or runs hotxlfp and never consults a solver.  A value that is unknown because a construct
is not modelled is ``Top`` with ``ignorance=True``; rules must not turn an outcome that depends on such a value into a
violation.
"""
import ast
import copy

from .model import AnalysisError, src
from . import sa

MAX_OUTCOMES = 600
MAX_DEPTH = 14
MAX_LOOP = 80


class Unmodelled(Exception):
    """A construct the interpreter does not cover was reached on a path an obligation depends on."""


# ---------------------------------------------------------------------------------------------------
# values

class V(object):
    tag = None

    def __deepcopy__(self, memo):
        return self


class Const(V):
    def __init__(self, value):
        self.value = value

    @property
    def tag(self):
        v = self.value
        if v is None:
            return 'none'
        if isinstance(v, bool):
            return 'bool'
        if isinstance(v, int):
            return 'int'
        if isinstance(v, float):
            return 'float'
        if isinstance(v, complex):
            return 'complex'
        if isinstance(v, str):
            return 'str'
        return 'other'

    def __repr__(self):
        return repr(self.value)

    def key(self):
        return ('c', type(self.value).__name__, self.value)


class Sym(V):
    """Unknown value of a known tag with an identity."""

    def __init__(self, tag, name, lang=None):
        self._tag = tag
        self.name = name
        self.lang = lang        # for text: a regex every possible value matches in full (e.g. a token lexeme)

    @property
    def tag(self):
        return self._tag

    def __repr__(self):
        return '%s:%s' % (self.name, self._tag)

    def key(self):
        return ('s', self._tag, self.name)


class Err(V):
    """One of the module-level XLError singletons."""
    tag = 'err'

    def __init__(self, name, message=None):
        self.name = name
        self.message = message

    def __repr__(self):
        return 'error.%s' % self.name

    def key(self):
        return ('e', self.name)


class TypeV(V):
    tag = 'type'

    def __init__(self, name):
        self.name = name

    def __repr__(self):
        return '<type %s>' % self.name

    def key(self):
        return ('t', self.name)


class Atom(V):
    """Uninterpreted result of a value computation."""

    def __init__(self, op, args, tag):
        self.op = op
        self.args = tuple(args)
        self._tag = tag

    @property
    def tag(self):
        return self._tag

    def __repr__(self):
        return '%s(%s)' % (self.op, ', '.join(repr(a) for a in self.args))

    def key(self):
        return ('a', self.op, tuple(k(a) for a in self.args))


class Top(V):
    def __init__(self, why='', ignorance=True):
        self.why = why
        self.ignorance = ignorance

    tag = None

    def __repr__(self):
        return 'T(%s)' % self.why

    def key(self):
        return ('top', self.why)


class Builtin(V):
    tag = 'func'

    def __init__(self, name):
        self.name = name

    def __repr__(self):
        return '<builtin %s>' % self.name

    def key(self):
        return ('b', self.name)


class ModuleV(V):
    tag = 'module'

    def __init__(self, name, internal):
        self.name = name
        self.internal = internal

    def key(self):
        return ('m', self.name)

    def __repr__(self):
        return '<module %s>' % self.name


class Func(V):
    tag = 'func'

    def __init__(self, module, node, closure=None, name=None):
        self.module = module
        self.node = node
        self.closure = closure        # Frame or None
        self.name = name or getattr(node, 'name', 'lambda')
        self.attrs = {}

    def __deepcopy__(self, memo):
        if self.closure is None and not self.attrs:
            return self
        n = Func(self.module, self.node, copy.deepcopy(self.closure, memo), self.name)
        n.attrs = copy.deepcopy(self.attrs, memo)
        memo[id(self)] = n
        return n

    def __repr__(self):
        return '<func %s>' % self.name

    def key(self):
        return ('f', self.module.name, self.name, getattr(self.node, 'lineno', 0))


class DispatchV(V):
    """functools.singledispatch function: default implementation plus (class, implementation) registrations."""
    tag = 'func'

    def __init__(self, default):
        self.default = default
        self.registry = []
        self.name = default.name
        self.attrs = {}

    def __deepcopy__(self, memo):
        return self

    def __repr__(self):
        return '<singledispatch %s>' % self.name

    def key(self):
        return ('sd',) + self.default.key()


class ClassV(V):
    tag = 'type'

    def __init__(self, module, node):
        self.module = module
        self.node = node
        self.name = node.name

    def __repr__(self):
        return '<class %s>' % self.name

    def key(self):
        return ('cls', self.module.name, self.name)


class Mutable(V):
    """Heap objects are deep-copied with the state on a fork."""

    def __deepcopy__(self, memo):
        cls = self.__class__
        n = cls.__new__(cls)
        memo[id(self)] = n
        for k, v in self.__dict__.items():
            setattr(n, k, copy.deepcopy(v, memo))
        return n


class Splice(object):
    """A run of unknown length inside a list shape (the value of a sequence nonterminal)."""

    def __init__(self, name):
        self.name = name

    def __repr__(self):
        return '*%s' % self.name

    def __deepcopy__(self, memo):
        return self

    def key(self):
        return ('splice', self.name)


class ListV(Mutable):
    def __init__(self, items, kind='list'):
        self.items = list(items)
        self.kind = kind        # 'list' | 'tuple' | 'deque'

    @property
    def tag(self):
        return 'tuple' if self.kind == 'tuple' else 'list'

    def has_splice(self):
        return any(isinstance(i, Splice) for i in self.items)

    def __repr__(self):
        b = '()' if self.kind == 'tuple' else '[]'
        return b[0] + ', '.join(repr(i) for i in self.items) + b[1]

    def key(self):
        return ('l', self.kind, tuple(k(i) for i in self.items))


class DictV(Mutable):
    tag = 'dict'

    def __init__(self, pairs, default=None):
        self.pairs = list(pairs)    # list of [key V, value V]
        self.default = default      # 'list' for defaultdict(list)

    def lookup(self, kv):
        kk = k(kv)
        for a, b in self.pairs:
            if k(a) == kk:
                return b
        return None

    def store(self, kv, v):
        kk = k(kv)
        for p in self.pairs:
            if k(p[0]) == kk:
                p[1] = v
                return
        self.pairs.append([kv, v])

    def __repr__(self):
        return '{' + ', '.join('%r: %r' % (a, b) for a, b in self.pairs) + '}'

    def key(self):
        return ('d', tuple((k(a), k(b)) for a, b in self.pairs))


_KEY_IN_PROGRESS = set()


class Obj(Mutable):
    def __init__(self, cls, attrs=None):
        self.cls = cls              # ClassV
        self.attrs = attrs or {}

    @property
    def tag(self):
        return 'obj'

    def __repr__(self):
        return '<%s %s>' % (self.cls.name, self.attrs)

    def key(self):
        # objects may refer to each other in a circle (a parser and the callbacks bound into its grammar parser)
        if id(self) in _KEY_IN_PROGRESS:
            return ('o', self.cls.name, '<itself>')
        _KEY_IN_PROGRESS.add(id(self))
        try:
            return ('o', self.cls.name, tuple(sorted((a, k(b)) for a, b in self.attrs.items())))
        finally:
            _KEY_IN_PROGRESS.discard(id(self))


class Bound(V):
    tag = 'func'

    def __init__(self, obj, func):
        self.obj = obj
        self.func = func

    def __deepcopy__(self, memo):
        return Bound(copy.deepcopy(self.obj, memo), self.func)

    def key(self):
        return ('bm', k(self.obj), self.func.key())

    def __repr__(self):
        return '<bound %s>' % self.func.name


class Aff(V):
    """Linear form  sum(coeff_v * v) + const  with exact rational coefficients.
    kind: 'num' (a number), 'int' (an integer), 'dt' (a date-time as seconds since 1970-01-01), 'td' (seconds)."""

    def __init__(self, coeff, const, kind='num', var='x'):
        from fractions import Fraction
        if isinstance(coeff, dict):
            self.coeffs = dict((v, Fraction(c)) for v, c in coeff.items() if c != 0)
        else:
            self.coeffs = {var: Fraction(coeff)} if coeff != 0 else {}
        self.const = Fraction(const)
        self.kind = kind

    @property
    def tag(self):
        return {'num': 'float', 'int': 'int', 'dt': 'datetime', 'td': 'timedelta'}[self.kind]

    @property
    def coeff(self):
        if not self.coeffs:
            return 0
        if len(self.coeffs) == 1:
            return list(self.coeffs.values())[0]
        raise Unmodelled('affine form in several variables where one is expected')

    @property
    def var(self):
        return sorted(self.coeffs)[0] if self.coeffs else 'x'

    def is_const(self):
        return not self.coeffs

    def key(self):
        return ('aff', self.kind, tuple(sorted(self.coeffs.items())), self.const)

    def __repr__(self):
        terms = ''.join('%+g*%s' % (float(c), v) for v, c in sorted(self.coeffs.items()))
        return '%s[%s%+g]' % (self.kind, terms, float(self.const)) if self.coeffs else '%s[%s]' % (self.kind, self.const)


class AffCmp(V):
    """Subject of a decision:  sum(coeff_v * v) + const  <op>  0."""
    tag = 'bool'

    def __init__(self, op, coeff, const):
        self.op = op
        self.coeffs = dict(coeff) if isinstance(coeff, dict) else {'x': coeff}
        self.const = const

    @property
    def coeff(self):
        if len(self.coeffs) == 1:
            return list(self.coeffs.values())[0]
        raise Unmodelled('comparison in several variables where one is expected')

    @property
    def var(self):
        return sorted(self.coeffs)[0]

    def key(self):
        return ('affcmp', self.op, tuple(sorted(self.coeffs.items())), self.const)

    def __repr__(self):
        return '%s%+g %s 0' % (''.join('%+g*%s' % (float(c), v) for v, c in sorted(self.coeffs.items())), float(self.const), self.op)


class RegexV(V):
    tag = 'regex'

    def __init__(self, pattern, flags=0):
        self.pattern = pattern
        self.flags = flags

    def key(self):
        return ('re', self.pattern, self.flags)

    def __repr__(self):
        return 're(%r)' % self.pattern


class MatchV(V):
    """A successful match: concrete groups (Const) or symbolic (Atom group(i) of the subject)."""
    tag = 'match'

    def __init__(self, regex, subject, groups, names=None):
        self.regex = regex
        self.subject = subject
        self.groups = groups        # list of V, index 0 = whole match
        self.names = names or {}    # group name -> index

    def key(self):
        return ('match', self.regex.key(), k(self.subject))

    def __repr__(self):
        return 'match(%r, %r)' % (self.regex.pattern, self.subject)


class SuperV(V):
    tag = 'super'

    def __init__(self, obj, after_cls):
        self.obj = obj
        self.after = after_cls      # ClassV: method lookup starts after this class in the MRO

    def __deepcopy__(self, memo):
        return SuperV(copy.deepcopy(self.obj, memo), self.after)

    def key(self):
        return ('super', k(self.obj))


class GenV(Mutable):
    """Eagerly evaluated generator / iterator: items then (optionally) an exception."""
    tag = 'gen'

    def __init__(self, items, tail=None):
        self.items = list(items)
        self.tail = tail            # exception value raised when the items are exhausted, or None
        self.pos = 0

    def __repr__(self):
        return 'gen(%s%s)' % (', '.join(repr(i) for i in self.items[self.pos:]), ' !%r' % (self.tail,) if self.tail is not None else '')

    def key(self):
        return ('g', tuple(k(i) for i in self.items[self.pos:]), k(self.tail) if self.tail is not None else None)


class Exc(V):
    """A builtin exception instance."""
    tag = 'exc'

    def __init__(self, cls, msg=''):
        self.cls = cls
        self.msg = msg

    def __repr__(self):
        return '%s(%s)' % (self.cls, self.msg)

    def key(self):
        return ('x', self.cls)


def k(v):
    """Hashable structural key of a value."""
    if v is None:
        return None
    if isinstance(v, (Splice,)):
        return v.key()
    return v.key()


EXC_BASES = {
    'ZeroDivisionError': ['ArithmeticError', 'Exception', 'BaseException'],
    'OverflowError': ['ArithmeticError', 'Exception', 'BaseException'],
    'ArithmeticError': ['Exception', 'BaseException'],
    'ValueError': ['Exception', 'BaseException'],
    'StatisticsError': ['ValueError', 'Exception', 'BaseException'],
    'TypeError': ['Exception', 'BaseException'],
    'IndexError': ['LookupError', 'Exception', 'BaseException'],
    'KeyError': ['LookupError', 'Exception', 'BaseException'],
    'LookupError': ['Exception', 'BaseException'],
    'AttributeError': ['Exception', 'BaseException'],
    'StopIteration': ['Exception', 'BaseException'],
    'RuntimeError': ['Exception', 'BaseException'],
    'NameError': ['Exception', 'BaseException'],
    'SyntaxError': ['Exception', 'BaseException'],
    'Exception': ['BaseException'],
    'BaseException': [],
    'XLError': ['RuntimeError', 'Exception', 'BaseException'],
}

# which builtin types does a tag belong to
TAG_TYPES = {
    'int': set(['int', 'object']),
    'bool': set(['bool', 'int', 'object']),
    'float': set(['float', 'object']),
    'complex': set(['complex', 'object']),
    'str': set(['str', 'object']),
    'none': set(['NoneType', 'object']),
    'err': set(['XLError', 'RuntimeError', 'Exception', 'BaseException', 'object']),
    'list': set(['list', 'object']),
    'tuple': set(['tuple', 'object']),
    'dict': set(['dict', 'object']),
    'datetime': set(['datetime.datetime', 'datetime.date', 'object']),
    'date': set(['datetime.date', 'object']),
    'func': set(['function', 'object']),
    'gen': set(['generator', 'object']),
    'exc': set(['object']),
}
TAG_EXACT = {'int': 'int', 'bool': 'bool', 'float': 'float', 'complex': 'complex', 'str': 'str', 'none': 'NoneType',
             'err': 'XLError', 'list': 'list', 'tuple': 'tuple', 'dict': 'dict', 'datetime': 'datetime.datetime',
             'date': 'datetime.date', 'func': 'function'}
NUMERIC = ('int', 'float', 'bool', 'complex')


class Frame(Mutable):
    def __init__(self, vars_, parent=None, module=None):
        self.vars = vars_
        self.parent = parent
        self.module = module

    def lookup(self, name):
        f = self
        while f is not None:
            if name in f.vars:
                return f.vars[name]
            f = f.parent
        return None

    def key(self):
        return ('frame',)


class State(object):
    def __init__(self):
        self.notes = []         # assumptions made on this trace: (text, truth)
        self.imprecise = []     # reasons why this trace depends on an unmodelled construct
        self.yields = None      # list collecting yielded values of the generator activation being run
        self.events = []        # rule-visible events (e.g. subscripts, emits)

    def fork(self, *roots):
        """Deep copy of the state together with the given root objects (aliasing preserved)."""
        memo = {}
        ns = State()
        ns.notes = list(self.notes)
        ns.imprecise = list(self.imprecise)
        ns.events = list(self.events)
        ns.yields = copy.deepcopy(self.yields, memo)
        return ns, [copy.deepcopy(r, memo) for r in roots]


class Outcome(object):
    def __init__(self, kind, value, state):
        self.kind = kind            # 'return' | 'raise'
        self.value = value
        self.notes = list(state.notes)
        self.imprecise = list(state.imprecise)
        self.events = list(state.events)

    def __repr__(self):
        return '%s %r%s%s' % (self.kind, self.value, (' if ' + ' & '.join('%s=%s' % (n[0], n[1]) for n in self.notes)) if self.notes else '',
                              ' [imprecise: %s]' % '; '.join(self.imprecise) if self.imprecise else '')


class _Signal(Exception):
    pass


class Raised(_Signal):
    def __init__(self, value):
        self.value = value


class Returned(_Signal):
    def __init__(self, value):
        self.value = value


class BreakSig(_Signal):
    pass


class ContinueSig(_Signal):
    pass


class Fork(_Signal):
    """Raised when a condition is undetermined: the driver re-runs the trace once per alternative with the decision
    recorded in the oracle (decision replay - keeps the interpreter a plain recursive evaluator)."""

    def __init__(self, text, alternatives):
        self.text = text
        self.alternatives = alternatives


# ---------------------------------------------------------------------------------------------------
# the interpreter

class Interp(object):
    """Decision-replay interpreter: a trace is a deterministic run given a list of decisions for the undetermined
    branch points; when a new undetermined point is met, the run aborts with ``Fork`` and the driver schedules one run
    per alternative.  Because every run starts from freshly built argument values, no state copying is needed."""

    def __init__(self, model, opaque=None, depth_limit=MAX_DEPTH):
        self.model = model
        self.opaque = opaque or {}
        self.depth_limit = depth_limit
        self._module_cache = {}
        self.extern = {'hx:noop': lambda interp, args, kwargs: Const(None)}
        self._err_names = None
        self.trace_count = 0

    # -- driver ---------------------------------------------------------------------------------
    def run(self, make_call, max_outcomes=MAX_OUTCOMES):
        """``make_call(interp, state)`` builds fresh arguments and performs the call, returning the value
        (or raising Raised).  Returns the list of Outcomes over all traces."""
        outcomes = []
        pending = [[]]
        while pending:
            decisions = pending.pop()
            self._decisions = decisions
            self._dpos = 0
            st = State()
            self.state = st
            self.depth = 0
            self.trace_count += 1
            if self.trace_count > 20000 or len(outcomes) > max_outcomes:
                raise Unmodelled('too many traces (a construct that forks on every step)')
            try:
                v = make_call(self, st)
                outcomes.append(Outcome('return', v, st))
            except Raised as r:
                outcomes.append(Outcome('raise', r.value, st))
            except Fork as f:
                for alt in reversed(f.alternatives):
                    pending.append(decisions + [(f.text, alt)])
            except RecursionError:
                raise AnalysisError('abstract interpretation: recursion too deep')
        return outcomes

    def decide(self, text, alternatives, subject=None):
        """An undetermined choice point (``subject``: the abstract value the decision is about, if any).
        A subject that was already decided on this trace keeps its decision (traces are consistent)."""
        if subject is not None and isinstance(subject, V):
            sk = k(subject)
            for (t0, alt0, s0) in self.state.notes:
                if isinstance(s0, V) and k(s0) == sk and t0.split('(')[0] == text.split('(')[0]:
                    return alt0
        if subject is None:
            for (t0, alt0, s0) in self.state.notes:
                if s0 is None and t0 == text:
                    return alt0
        if isinstance(subject, tuple) and subject and subject[0] == 'dict-key':
            for (t0, alt0, s0) in self.state.notes:
                if isinstance(s0, tuple) and s0 and s0[0] == 'dict-key' and t0 == text and alt0 in alternatives and k(s0[1]) == k(subject[1]):
                    return alt0
        if self._dpos < len(self._decisions):
            t, alt = self._decisions[self._dpos]
            self._dpos += 1
            self.state.notes.append((text, alt, subject))
            return alt
        raise Fork(text, alternatives)

    def imprecise(self, why):
        if why not in self.state.imprecise:
            self.state.imprecise.append(why)

    # -- module level values ------------------------------------------------------------------
    def error_names(self):
        if self._err_names is None:
            from .rules.c01 import error_singletons
            em, singles = error_singletons(self.model)
            self._err_mod = em
            self._err_names = singles
        return self._err_names

    def module_value(self, m, name, _depth=0):
        """Value of a module-level name of package module ``m``."""
        key = (m.name, name)
        if key in self._module_cache:
            return self._module_cache[key]
        # a module-level mutable object is one object for the whole run (aliasing through it must be visible), and a fresh one per run
        per_run = getattr(getattr(self, 'state', None), '__dict__', {}).setdefault('_module_mutables', {}) if getattr(self, 'state', None) is not None else None
        if per_run is not None and key in per_run:
            return per_run[key]
        v = self._module_value(m, name, _depth)
        if v is not None and not isinstance(v, Mutable):
            self._module_cache[key] = v
        elif v is not None and per_run is not None:
            per_run[key] = v
        return v

    def _module_value(self, m, name, _depth):
        model = self.model
        if _depth > 8:
            return Top('import cycle %s' % name)
        if name in m.functions.aliases and name in m.constants:
            return self.const_expr(m, m.constants[name])       # what the alias expression evaluates to (a bound class method ...)
        if name in m.functions and '.' not in name:
            f = m.functions[name]
            if isinstance(f, ast.FunctionDef) and f.decorator_list:
                return self.decorated(Func(m, f), f, Frame({}, None, m))
            return Func(m, f)
        if name in m.classes:
            return ClassV(m, m.classes[name])
        if name in m.constants:
            self.error_names()
            if m is self._err_mod and name in self._err_names:
                return Err(name, self._err_names[name])
            node = m.constants[name]
            v = self.const_expr(m, node)
            if isinstance(v, (DictV, ListV)):
                v = self._import_time_fill(m, name, v)
            return v
        imp = m.imports.get(name)
        if imp is None:
            return None
        if imp[0] == 'module':
            return ModuleV(imp[1], imp[1] in model.modules)
        _, target, attr = imp
        sub = target + '.' + attr
        if sub in model.modules:
            return ModuleV(sub, True)
        if target in model.modules:
            return self.module_value(model.modules[target], attr, _depth + 1)
        return self.external(target + '.' + attr)

    def _import_time_fill(self, m, name, v):
        """A module-level container that top-level statements after its definition fill or edit at import time
        (``TABLE = {}`` followed by ``for op in ...: TABLE[op] = build(op)``): those statements are executed once, abstractly, on the
        value.  Anything in them the interpreter cannot follow without a decision leaves the container unknown."""
        body = m.tree.body
        start = None
        for i, st in enumerate(body):
            if isinstance(st, ast.Assign) and any(isinstance(t, ast.Name) and t.id == name for t in st.targets):
                start = i
        if start is None:
            return v

        def edits(st):
            for x in ast.walk(st):
                if isinstance(x, (ast.FunctionDef, ast.AsyncFunctionDef, ast.ClassDef, ast.Lambda)):
                    continue
                if isinstance(x, ast.Subscript) and isinstance(x.ctx, (ast.Store, ast.Del)) and isinstance(x.value, ast.Name) and x.value.id == name:
                    return True
                if isinstance(x, ast.Call) and isinstance(x.func, ast.Attribute) and isinstance(x.func.value, ast.Name) and x.func.value.id == name \
                        and x.func.attr in ('update', 'append', 'extend', 'insert', 'setdefault', 'pop', 'clear', 'remove', 'add', 'sort', 'reverse'):
                    return True
            return False
        later = [st for st in body[start + 1:] if isinstance(st, (ast.For, ast.Expr, ast.Assign, ast.AugAssign, ast.Delete, ast.If, ast.While))
                 and edits(st)]
        if not later:
            return v
        saved = (getattr(self, 'state', None), getattr(self, 'depth', 0), getattr(self, '_decisions', []), getattr(self, '_dpos', 0))
        self.state = State()
        self.depth = 0
        self._decisions, self._dpos = [], 0
        try:
            fr = Frame({name: v}, None, m)
            self.block(later, fr)
            return fr.vars.get(name, v)
        except _Signal:
            return Top('module-level container %s filled at import time in a way not followed' % name)
        finally:
            self.state, self.depth, self._decisions, self._dpos = saved

    def external(self, full):
        if full in ('datetime.datetime', 'datetime.date', 'datetime.timedelta', 'datetime.time'):
            return TypeV(full)
        if full in ('math.pi', 'math.e', 'math.inf', 'math.nan', 'math.tau'):
            return Atom(full, [], 'float')
        if full.startswith('re.') and full[3:].isupper():
            import re as _re
            fl = getattr(_re, full[3:], None)
            if fl is not None:
                return Const(int(fl))
        return Builtin(full)

    def const_expr(self, m, node):
        """Evaluate a module-level constant expression (no state)."""
        saved = (getattr(self, 'state', None), getattr(self, 'depth', 0), getattr(self, '_decisions', []), getattr(self, '_dpos', 0))
        st = State()
        self.state = st
        self.depth = 0
        self._decisions, self._dpos = [], 0     # module-level code is evaluated outside the trace: an undetermined choice = not evaluable
        try:
            fr = Frame({}, None, m)
            return self.expr(node, fr)
        except _Signal:
            return Top('module constant not evaluable')
        finally:
            self.state, self.depth, self._decisions, self._dpos = saved

    def match_pattern(self, pat, subj, fr):
        """Does ``subj`` match the structural pattern (binding its capture names)?  Value, singleton, capture/wildcard, or-, and
        class patterns without or with one positional sub-pattern (``str()``, ``int() | float()``, ``str(text)``)."""
        from . import absmodels
        if isinstance(pat, ast.MatchValue):
            return self.truth(absmodels.rich_compare(self, 'eq', subj, self.expr(pat.value, fr), src(pat.value)), 'case %s' % src(pat.value))
        if isinstance(pat, ast.MatchSingleton):
            return absmodels.identical(self, subj, Const(pat.value), 'case %r' % (pat.value,))
        if isinstance(pat, ast.MatchAs):
            if pat.pattern is not None and not self.match_pattern(pat.pattern, subj, fr):
                return False
            if pat.name is not None:
                fr.vars[pat.name] = subj
            return True
        if isinstance(pat, ast.MatchOr):
            return any(self.match_pattern(p_, subj, fr) for p_ in pat.patterns)
        if isinstance(pat, ast.MatchClass):
            tv = self.expr(pat.cls, fr)
            if not absmodels.isinstance_(self, subj, tv, src(pat.cls)):
                return False
            if pat.patterns:
                if isinstance(tv, TypeV) and len(pat.patterns) == 1:
                    # builtin classes match their single positional sub-pattern against the subject itself
                    if not self.match_pattern(pat.patterns[0], subj, fr):
                        return False
                elif isinstance(subj, Obj) and getattr(subj, 'nt_fields', None) and len(pat.patterns) <= len(subj.nt_fields):
                    for sub, f in zip(pat.patterns, subj.nt_fields):
                        if not self.match_pattern(sub, subj.attrs[f], fr):
                            return False
                else:
                    raise Unmodelled('positional class pattern %s' % src(pat.cls))
            for attr, sub in zip(pat.kwd_attrs, pat.kwd_patterns):
                try:
                    av = self.getattr(subj, attr)
                except Raised:
                    return False
                if not self.match_pattern(sub, av, fr):
                    return False
            return True
        if isinstance(pat, ast.MatchSequence):
            if not isinstance(subj, ListV):
                if isinstance(subj, (Err, Obj, DictV)) or subj.tag in ('str', 'none', 'bool', 'int', 'float', 'num', 'complex', 'datetime'):
                    return False        # not a sequence for pattern matching (str/bytes are excluded by the language)
                raise Unmodelled('sequence pattern against %r' % (subj,))
            if subj.kind not in ('list', 'tuple', 'deque') or subj.has_splice():
                raise Unmodelled('sequence pattern against %r' % (subj,))
            stars = [i for i, p_ in enumerate(pat.patterns) if isinstance(p_, ast.MatchStar)]
            items = list(subj.items)
            if not stars:
                if len(items) != len(pat.patterns):
                    return False
                return all(self.match_pattern(p_, it, fr) for p_, it in zip(pat.patterns, items))
            k = stars[0]
            before, after = pat.patterns[:k], pat.patterns[k + 1:]
            if len(items) < len(before) + len(after):
                return False
            for p_, it in zip(before, items[:len(before)]):
                if not self.match_pattern(p_, it, fr):
                    return False
            for p_, it in zip(after, items[len(items) - len(after):]):
                if not self.match_pattern(p_, it, fr):
                    return False
            if pat.patterns[k].name is not None:
                fr.vars[pat.patterns[k].name] = ListV(items[len(before):len(items) - len(after)], 'list')
            return True
        if isinstance(pat, ast.MatchMapping) and isinstance(subj, DictV):
            for kk, sub in zip(pat.keys, pat.patterns):
                vv = subj.lookup(self.expr(kk, fr))
                if vv is None:
                    if subj.default is not None or any(not isinstance(k_, Const) for k_, _ in subj.pairs):
                        raise Unmodelled('mapping pattern over a symbolic mapping')
                    return False
                if not self.match_pattern(sub, vv, fr):
                    return False
            if pat.rest is not None:
                raise Unmodelled('mapping pattern with **rest')
            return True
        raise Unmodelled('match pattern %s' % type(pat).__name__)

    def _wrapped_by_package_decorator(self, fv):
        """A module-level function or a method whose decorator is a function of the package (not a registration, not a builtin
        descriptor): what the name is bound to is what that decorator returns."""
        for d in fv.node.decorator_list:
            text = src(d)
            if 'register' in text or text in ('staticmethod', 'classmethod', 'property') or 'singledispatch' in text:
                continue
            target = d.func if isinstance(d, ast.Call) else d
            r = self.model.resolve_attr_chain(fv.module, target) if isinstance(target, (ast.Name, ast.Attribute)) else None
            if r is not None and r[0] == 'func':
                return True
        return False

    def decorated(self, fv, node, fr):
        """Apply the decorators of ``node`` (innermost first) to the function value; registration decorators return it unchanged."""
        for d in reversed(node.decorator_list):
            text = src(d)
            if 'register_for' in text or text in ('staticmethod', 'classmethod', 'property'):
                continue
            saved = (getattr(self, 'state', None), getattr(self, 'depth', 0), getattr(self, '_decisions', []), getattr(self, '_dpos', 0))
            try:
                if saved[0] is None:
                    self.state, self.depth, self._decisions, self._dpos = State(), 0, [], 0
                dv = self.expr(d, fr)
                fv = self.call(dv, [fv])
            except _Signal:
                raise Unmodelled('decorator %s' % text)
            finally:
                if saved[0] is None:
                    self.state, self.depth, self._decisions, self._dpos = saved
        return fv

    # -- function calls -----------------------------------------------------------------------------
    def call(self, fv, args, kwargs=None):
        kwargs = kwargs or {}
        if isinstance(fv, Bound):
            return self.call(fv.func, [fv.obj] + list(args), kwargs)
        if isinstance(fv, Func):
            if isinstance(fv.node, ast.FunctionDef) and fv.node.decorator_list and fv.closure is None and not fv.attrs.get('<raw>') \
                    and any('singledispatch' in src(d_) for d_ in fv.node.decorator_list) and fv.node in fv.module.tree.body:
                # the generic function named by its definition: what the module binds to that name dispatches on the argument
                dv = self.module_value(fv.module, fv.node.name)
                if isinstance(dv, DispatchV):
                    return self.call_dispatch(dv, args, kwargs)
            if isinstance(fv.node, ast.FunctionDef) and fv.node.decorator_list and not fv.attrs.get('<raw>') and \
                    (fv.attrs.get('<as-registered>') or (fv.closure is None and self._wrapped_by_package_decorator(fv))):
                # the function as the registry / the class holds it: with its decorators applied
                cache = self.__dict__.setdefault('_decorated', {})
                kk = (fv.module.name, fv.node.lineno)
                if kk not in cache:
                    inner = Func(fv.module, fv.node, fv.closure, fv.name)
                    inner.attrs['<raw>'] = True
                    cache[kk] = self.decorated(inner, fv.node, Frame({}, None, fv.module))
                return self.call(cache[kk], args, kwargs)
            return self.call_func(fv, args, kwargs)
        if isinstance(fv, DispatchV):
            return self.call_dispatch(fv, args, kwargs)
        if isinstance(fv, ClassV):
            return self.instantiate(fv, args, kwargs)
        if isinstance(fv, Obj):
            cm = self.get_method(fv, '__call__')
            if cm is not None:
                return self.call(cm, args, kwargs)
        if isinstance(fv, Builtin):
            from . import absmodels
            if fv.name.startswith('hx:'):
                return self.extern[fv.name](self, args, kwargs)
            return absmodels.call_builtin(self, fv.name, args, kwargs)
        if isinstance(fv, TypeV):
            from . import absmodels
            return absmodels.call_type(self, fv.name, args, kwargs)
        if isinstance(fv, Top) or isinstance(fv, Sym):
            self.imprecise('call of unknown value %r' % (fv,))
            return Top('result of unknown callee')
        raise Raised(Exc('TypeError', 'not callable: %r' % (fv,)))

    def call_dispatch(self, dv, args, kwargs):
        from . import absmodels
        d = dv.default
        key = (d.module.name, d.module.qualname_of(d.node))
        if key in self.opaque:
            r = self.opaque[key](self, args, kwargs)       # a summary of the function stands for all its implementations
            if r is not NotImplemented:
                return r
        self._dispatch_registrations(dv)
        if not args:
            raise Raised(Exc('TypeError', '%s requires at least 1 positional argument' % dv.name))
        hits = []
        # classes registered with the same implementation are tested together, as isinstance(x, (int, float, complex))
        groups = []
        for tv, impl in dv.registry:
            for g_ in groups:
                if k(g_[1]) == k(impl):
                    if not any(k(t_) == k(tv) for t_ in g_[0]):
                        g_[0].append(tv)
                    break
            else:
                groups.append(([tv], impl))
        for tvs, impl in groups:
            tv = tvs[0] if len(tvs) == 1 else ListV(list(tvs), 'tuple')
            if absmodels.isinstance_(self, args[0], tv, 'dispatch of %s on %r' % (dv.name, tv)):
                hits.append((tvs[0], impl))
        if not hits:
            return self.call(d, args, kwargs)
        if len(hits) > 1:
            # the most specific registered class wins (bool before int ...)
            def py(tv):
                import datetime as _dt
                return {'int': int, 'float': float, 'complex': complex, 'bool': bool, 'str': str, 'list': list, 'tuple': tuple,
                        'dict': dict, 'NoneType': type(None), 'object': object, 'datetime.datetime': _dt.datetime,
                        'datetime.date': _dt.date}.get(getattr(tv, 'name', None)) if isinstance(tv, TypeV) else None
            best = None
            for tv, impl in hits:
                if all(tv is o or (py(tv) is not None and py(o) is not None and issubclass(py(tv), py(o))) for o, _ in hits):
                    best = impl
            if best is None:
                if len(set(k(i) for _, i in hits)) == 1:
                    best = hits[0][1]
                else:
                    raise Unmodelled('ambiguous singledispatch of %s' % dv.name)
            return self.call(best, args, kwargs)
        return self.call(hits[0][1], args, kwargs)

    def _dispatch_register(self, dv, args, kwargs):
        """dv.register(cls, func) | dv.register(cls) -> decorator | dv.register(func) (class from the first annotation)."""
        if len(args) == 2:
            dv.registry.append((args[0], args[1]))
            return args[1]
        if len(args) == 1 and isinstance(args[0], (TypeV, ClassV)):
            nm = 'hx:sdreg:%d' % len(self.extern)
            cls = args[0]

            def deco(it, a, kw):
                dv.registry.append((cls, a[0]))
                return a[0]
            self.extern[nm] = deco
            return Builtin(nm)
        if len(args) == 1 and isinstance(args[0], Func) and isinstance(args[0].node, ast.FunctionDef):
            f = args[0]
            ps = f.node.args.posonlyargs + f.node.args.args
            ann = getattr(ps[0], '_annotation', None) if ps else None
            if ann is None:
                raise Unmodelled('singledispatch register() without a class or annotation')
            if isinstance(ann, ast.Constant) and isinstance(ann.value, str):
                ann = ast.parse(ann.value, mode='eval').body
            if isinstance(ann, ast.Constant) and ann.value is None:
                tv = TypeV('NoneType')
            else:
                tv = self.const_expr(f.module, ann)
            if not isinstance(tv, (TypeV, ClassV)):
                raise Unmodelled('singledispatch annotation %s' % src(ann))
            dv.registry.append((tv, f))
            return f
        raise Unmodelled('singledispatch register(%r)' % (args,))

    def _dispatch_registrations(self, dv):
        """Run, once, the module-level statements that register implementations for ``dv`` (decorated definitions, plain
        ``f.register(cls, impl)`` calls, loops over a tuple of classes)."""
        if dv.attrs.get('<registered>'):
            return
        dv.attrs['<registered>'] = True
        m = dv.default.module
        name = dv.default.node.name
        self._module_cache[(m.name, name)] = dv     # the module-level name denotes this very object
        saved = (getattr(self, 'state', None), getattr(self, 'depth', 0), getattr(self, '_decisions', []), getattr(self, '_dpos', 0))
        try:
            for st in m.tree.body:
                if st is dv.default.node:
                    continue
                mentions = any(isinstance(x, ast.Attribute) and x.attr == 'register' and isinstance(x.value, ast.Name) and x.value.id == name
                               for x in ast.walk(st if not isinstance(st, ast.FunctionDef) else ast.Module(body=list(st.decorator_list), type_ignores=[])))
                if not mentions:
                    continue
                self.state, self.depth, self._decisions, self._dpos = State(), 0, [], 0
                try:
                    if isinstance(st, ast.FunctionDef):
                        self.decorated(Func(m, st), st, Frame({}, None, m))
                    else:
                        self.block([st], Frame({}, None, m))
                except _Signal:
                    raise Unmodelled('module-level registration for %s not evaluable' % name)
        finally:
            self.state, self.depth, self._decisions, self._dpos = saved

    def call_func(self, fv, args, kwargs):
        node = fv.node
        m = fv.module
        key = (m.name, m.qualname_of(node)) if not isinstance(node, ast.Lambda) else None
        if key in self.opaque:
            # a summary speaks about the arguments of the call as written: the class a class method is bound to is not one of them
            sargs = args
            if isinstance(node, ast.FunctionDef) and args and isinstance(args[0], ClassV) and \
                    any(src(d_) == 'classmethod' for d_ in node.decorator_list):
                sargs = args[1:]
            r = self.opaque[key](self, sargs, kwargs)
            if r is not NotImplemented:
                return r
        self.depth += 1
        if self.depth > self.depth_limit:
            self.depth -= 1
            self.imprecise('inlining depth limit at %s' % fv.name)
            return Top('depth limit')
        try:
            frame = self.bind(fv, args, kwargs)
            if isinstance(node, ast.Lambda):
                return self.expr(node.body, frame)
            is_gen = any(isinstance(n, (ast.Yield, ast.YieldFrom)) for n in _walk_no_defs(node))
            if is_gen:
                saved = self.state.yields
                self.state.yields = []
                tail = None
                try:
                    self.block(node.body, frame)
                except Returned:
                    pass
                except Raised as r:
                    tail = r.value
                items = self.state.yields
                self.state.yields = saved
                return GenV(items, tail)
            try:
                self.block(node.body, frame)
            except Returned as r:
                return r.value
            return Const(None)
        finally:
            self.depth -= 1

    def bind(self, fv, args, kwargs):
        node = fv.node
        a = node.args
        names = [x.arg for x in getattr(a, 'posonlyargs', [])] + [x.arg for x in a.args]
        vars_ = {}
        args = list(args)
        n = len(names)
        defaults = list(a.defaults)
        for i, nm in enumerate(names):
            if i < len(args):
                vars_[nm] = args[i]
            elif nm in kwargs:
                vars_[nm] = kwargs[nm]
            else:
                d = i - (n - len(defaults))
                if 0 <= d < len(defaults):
                    vars_[nm] = self.expr(defaults[d], Frame({}, fv.closure, fv.module))
                else:
                    raise Raised(Exc('TypeError', 'missing argument %s of %s' % (nm, fv.name)))
        extra = args[n:]
        if a.vararg:
            vars_[a.vararg.arg] = ListV(extra, 'tuple')
        elif extra:
            raise Raised(Exc('TypeError', 'too many arguments for %s' % fv.name))
        kwonly = {}
        for i, x in enumerate(a.kwonlyargs):
            if x.arg in kwargs:
                vars_[x.arg] = kwargs[x.arg]
            elif a.kw_defaults[i] is not None:
                vars_[x.arg] = self.expr(a.kw_defaults[i], Frame({}, fv.closure, fv.module))
        unknown = [kk for kk in kwargs if kk not in names and kk not in [x.arg for x in a.kwonlyargs]]
        if a.kwarg:
            vars_[a.kwarg.arg] = DictV([[Const(kk), kwargs[kk]] for kk in unknown])
        elif unknown:
            raise Raised(Exc('TypeError', 'unexpected keyword %s' % unknown))
        fr_ = Frame(vars_, fv.closure, fv.module)
        fr_.func_node = fv.node         # for zero-argument super()
        return fr_

    def instantiate(self, cv, args, kwargs=None):
        kwargs = kwargs or {}
        if cv.module is not None and isinstance(cv.node, ast.ClassDef):
            lm_new = self.model.lookup_method(cv.module, cv.node, '__new__')
            if lm_new is not None:
                # the class builds its instances itself (defaults for a namedtuple subclass, a singleton, ...)
                try:
                    made = self.call_func(Func(lm_new[0], lm_new[2]), [cv] + list(args), dict(kwargs))
                except Unmodelled:
                    made = None         # a __new__ the interpreter cannot follow: the plain object, as before
                if made is None:
                    pass
                elif isinstance(made, Obj) and made.cls is cv:
                    lm_i = self.model.lookup_method(cv.module, cv.node, '__init__')
                    if lm_i:
                        self.call_func(Func(lm_i[0], lm_i[2]), [made] + list(args), dict(kwargs))
                    return made
                else:
                    return made
        obj = Obj(cv, {})
        rec = self._record_class(cv)
        if rec:
            # typing.NamedTuple / @dataclass record: the annotated names of the class body are the fields, in order
            kind, fields = rec
            attrs = {}
            for (f, dflt), a in zip(fields, args):
                attrs[f] = a
            if len(args) > len(fields):
                raise Raised(Exc('TypeError', 'too many positional arguments'))
            for k, v in kwargs.items():
                if k in attrs or k not in [f for f, _ in fields]:
                    raise Raised(Exc('TypeError', 'unexpected keyword argument %s' % k))
                attrs[k] = v
            for f, dflt in fields:
                if f not in attrs:
                    if dflt is None:
                        raise Raised(Exc('TypeError', 'missing required argument %s' % f))
                    if isinstance(dflt, ast.Call) and (isinstance(dflt.func, ast.Name) and dflt.func.id == 'field' or
                                                       isinstance(dflt.func, ast.Attribute) and dflt.func.attr == 'field'):
                        # dataclasses.field(default=..., default_factory=..., compare=...)
                        kws = dict((kw_.arg, kw_.value) for kw_ in dflt.keywords)
                        if 'default' in kws:
                            attrs[f] = self.const_expr(cv.module, kws['default'])
                        elif 'default_factory' in kws:
                            attrs[f] = self.call(self.const_expr(cv.module, kws['default_factory']), [])
                        else:
                            raise Raised(Exc('TypeError', 'missing required argument %s' % f))
                        continue
                    attrs[f] = self.const_expr(cv.module, dflt)
            obj.attrs = dict((f, attrs[f]) for f, _ in fields)
            if kind == 'namedtuple':
                obj.nt_fields = [f for f, _ in fields]
            if kind == 'namedtuple' or not self.model.lookup_method(cv.module, cv.node, '__post_init__'):
                return obj
            lm = self.model.lookup_method(cv.module, cv.node, '__post_init__')
            self.call_func(Func(lm[0], lm[2]), [obj], {})
            return obj
        lm = self.model.lookup_method(cv.module, cv.node, '__init__')
        if lm:
            self.call_func(Func(lm[0], lm[2]), [obj] + list(args), kwargs)
        return obj

    def class_dynamic(self, cv, run=True):
        """Attributes put on a package class by module-level code after the class statement (``setattr(Cls, name, fn)`` in a loop over a
        table, ``Cls.name = fn``): the statements that do so are executed once, abstractly; returns {name: value}."""
        store = self.__dict__.setdefault('_class_dyn', {})
        key = (cv.module.name, cv.node.name, cv.node.lineno)
        done = self.__dict__.setdefault('_class_dyn_done', set())
        store.setdefault(key, {})
        if not run or key in done:
            return store[key]
        done.add(key)
        m, cname = cv.module, cv.node.name
        saved = (getattr(self, 'state', None), getattr(self, 'depth', 0), getattr(self, '_decisions', []), getattr(self, '_dpos', 0))
        try:
            for st in m.tree.body:
                if isinstance(st, (ast.FunctionDef, ast.ClassDef, ast.Import, ast.ImportFrom)):
                    continue
                hit = False
                for x in ast.walk(st):
                    if isinstance(x, ast.Call) and isinstance(x.func, ast.Name) and x.func.id == 'setattr' and x.args \
                            and isinstance(x.args[0], ast.Name) and x.args[0].id == cname:
                        hit = True
                    if isinstance(x, ast.Attribute) and isinstance(x.ctx, ast.Store) and isinstance(x.value, ast.Name) and x.value.id == cname:
                        hit = True
                if not hit:
                    continue
                self.state, self.depth, self._decisions, self._dpos = State(), 0, [], 0
                try:
                    self.block([st], Frame({}, None, m))
                except _Signal:
                    raise Unmodelled('module-level code that extends class %s is not evaluable' % cname)
        finally:
            self.state, self.depth, self._decisions, self._dpos = saved
        return store[key]

    def enum_members(self, cv):
        """Members of an enum class (name -> one object per member, structurally distinct), or None for other classes."""
        if cv.module is None or not isinstance(cv.node, ast.ClassDef):
            return None
        if not any((isinstance(b, ast.Name) and b.id in ('Enum', 'IntEnum', 'Flag', 'IntFlag', 'StrEnum')) or
                   (isinstance(b, ast.Attribute) and b.attr in ('Enum', 'IntEnum', 'Flag', 'IntFlag', 'StrEnum')) for b in cv.node.bases):
            return None
        cache = self.__dict__.setdefault('_enum_cache', {})
        kk = (cv.module.name, cv.node.lineno)
        if kk not in cache:
            out, last = {}, 0
            for n in cv.node.body:
                if isinstance(n, ast.Assign) and len(n.targets) == 1 and isinstance(n.targets[0], ast.Name) \
                        and not n.targets[0].id.startswith('_'):
                    if isinstance(n.value, ast.Call) and src(n.value.func) in ('enum.auto', 'auto') and not n.value.args:
                        val = Const(last + 1)
                    else:
                        val = self.const_expr(cv.module, n.value)
                    if isinstance(val, Const) and isinstance(val.value, int) and not isinstance(val.value, bool):
                        last = val.value
                    dup = [o for o in out.values() if k(o.attrs['value']) == k(val)]
                    out[n.targets[0].id] = dup[0] if dup else Obj(cv, {'name': Const(n.targets[0].id), 'value': val, '_name_': Const(n.targets[0].id), '_value_': val})
            cache[kk] = out
        return cache[kk]

    def _record_class(self, cv, allow_new=False):
        node = cv.node
        if cv.module is None or not isinstance(node, ast.ClassDef):
            return None
        kind = None
        for b in node.bases:
            d = self.model.dotted_name(cv.module, b) if hasattr(self.model, 'dotted_name') else None
            if d in ('typing.NamedTuple', 'NamedTuple') or (isinstance(b, ast.Name) and b.id == 'NamedTuple') \
                    or (isinstance(b, ast.Attribute) and b.attr == 'NamedTuple'):
                kind = 'namedtuple'
            # class Listener(namedtuple('Listener', ['fn', 'ctx'])): a documented subclass of the plain record
            if isinstance(b, ast.Call) and (src(b.func).split('.')[-1] == 'namedtuple') and len(b.args) >= 2 and not node.decorator_list:
                try:
                    names = ast.literal_eval(b.args[1])
                except (ValueError, SyntaxError):
                    names = None
                if isinstance(names, str):
                    names = names.replace(',', ' ').split()
                if names and all(isinstance(x, str) for x in names) and \
                        (allow_new or not any(isinstance(n_, ast.FunctionDef) and n_.name in ('__new__', '__init__') for n_ in node.body)):
                    dflts = {}
                    for kw_ in b.keywords:
                        if kw_.arg == 'defaults':
                            try:
                                dv = list(kw_.value.elts)
                            except AttributeError:
                                return None
                            for nm_, d_ in zip(names[len(names) - len(dv):], dv):
                                dflts[nm_] = d_
                    return ('namedtuple', [(nm_, dflts.get(nm_)) for nm_ in names])
        for dec in node.decorator_list:
            f = dec.func if isinstance(dec, ast.Call) else dec
            if (isinstance(f, ast.Name) and f.id == 'dataclass') or (isinstance(f, ast.Attribute) and f.attr == 'dataclass'):
                kind = kind or 'dataclass'
        if kind is None:
            return None
        fields = []
        for n in node.body:
            if isinstance(n, ast.AnnAssign) and isinstance(n.target, ast.Name):
                fields.append((n.target.id, n.value))
            elif isinstance(n, ast.Assign) and getattr(n, '_annotation', None) is not None and isinstance(n.targets[0], ast.Name):
                fields.append((n.targets[0].id, n.value))
        return (kind, fields) if fields else None

    def get_method(self, obj, name, _depth=0):
        if isinstance(obj, Obj):
            lm = self.model.lookup_method(obj.cls.module, obj.cls.node, name)
            if lm:
                decos = [src(d_) for d_ in getattr(lm[2], 'decorator_list', [])]
                if 'staticmethod' in decos:
                    return Func(lm[0], lm[2])
                if 'classmethod' in decos:
                    return Bound(obj.cls, Func(lm[0], lm[2]))
                return Bound(obj, Func(lm[0], lm[2]))
            if obj.cls.module is not None:
                for mm_, cc_ in self.model.mro(obj.cls.module, obj.cls.node):
                    dv = self.class_dynamic(ClassV(mm_, cc_)).get(name)
                    if isinstance(dv, Func):
                        return Bound(obj, dv)
            if obj.cls.module is not None and _depth < 4:
                # a method produced by an expression in the class body:  __sub__ = make_op('-') ;  __rmul__ = __mul__
                ca = self.model.class_attr(obj.cls.module, obj.cls.node, name)
                if ca:
                    m, c, val = ca
                    if isinstance(val, ast.Name) and (self.model.lookup_method(m, c, val.id) or self.model.class_attr(m, c, val.id)):
                        return self.get_method(obj, val.id, _depth + 1)
                    if isinstance(val, (ast.Call, ast.Lambda)):
                        v = self.const_expr(m, val)
                        if isinstance(v, Func):
                            return Bound(obj, v)
        return None

    # -- statements ---------------------------------------------------------------------------------
    def block(self, stmts, fr):
        for s in stmts:
            self.stmt(s, fr)

    def stmt(self, s, fr):
        if isinstance(s, ast.Expr):
            self.expr(s.value, fr)
        elif isinstance(s, ast.Assign):
            v = self.expr(s.value, fr)
            for t in s.targets:
                self.assign(t, v, fr)
        elif isinstance(s, ast.AnnAssign):
            if s.value is not None:
                self.assign(s.target, self.expr(s.value, fr), fr)
        elif isinstance(s, ast.AugAssign):
            cur = self.expr(_as_load(s.target), fr)
            v = self.expr(s.value, fr)
            from . import absmodels
            if isinstance(cur, ListV) and isinstance(s.op, ast.Add):
                new = absmodels.iter_items(self, v)
                cur.items.extend(new)       # in place
                return
            self.assign(s.target, absmodels.binop(self, s.op, cur, v), fr)
        elif isinstance(s, (ast.While, ast.For)) and getattr(self, 'loop_cut', None) is not None and self._in_function(fr, self.loop_cut):
            # reachability probe: everything from the first loop of the probed function on counts as reachable, the trace ends here
            for n_ in ast.walk(self.loop_cut):
                if isinstance(n_, ast.Return) and n_.lineno >= s.lineno and self.trace_returns is not None:
                    self.trace_returns.add(id(n_))
            raise Returned(Top('cut at a loop'))
        elif isinstance(s, ast.Return):
            if getattr(self, 'trace_returns', None) is not None:
                self.trace_returns.add(id(s))
            raise Returned(self.expr(s.value, fr) if s.value is not None else Const(None))
        elif isinstance(s, ast.Raise):
            if s.exc is None:
                cur = fr.lookup('<exc>')
                raise Raised(cur if cur is not None else Exc('RuntimeError'))
            v = self.expr(s.exc, fr)
            if isinstance(v, (TypeV, ClassV)):
                v = self.call(v, [])
            if isinstance(v, Builtin):
                v = Exc(v.name.split('.')[-1])
            raise Raised(v)
        elif isinstance(s, ast.If):
            if self.truth(self.expr(s.test, fr), src(s.test)):
                self.block(s.body, fr)
            else:
                self.block(s.orelse, fr)
        elif isinstance(s, ast.For):
            from . import absmodels
            it = self.expr(s.iter, fr)
            if isinstance(it, GenV):
                # an iterator is consumed item by item: what a `break` leaves behind is still there for whoever holds the iterator
                def _drawn(g=it):
                    while g.pos < len(g.items):
                        g.pos += 1
                        yield g.items[g.pos - 1]
                items, tail = _drawn(), None
            else:
                items, tail = absmodels.iter_items_tail(self, it)
            broke = False
            n = 0
            for item in items:
                n += 1
                if n > MAX_LOOP:
                    self.imprecise('loop bound')
                    break
                if isinstance(item, Splice):
                    # unknown run of elements: the loop body runs an unknown number of times on unknown elements
                    self.imprecise('iteration over a run of unknown length')
                    continue
                self.assign(s.target, item, fr)
                try:
                    self.block(s.body, fr)
                except BreakSig:
                    broke = True
                    break
                except ContinueSig:
                    continue
            if not broke:
                if isinstance(it, GenV) and it.pos >= len(it.items):
                    tail, it.tail = it.tail, None
                if tail is not None:
                    raise Raised(tail)
                self.block(s.orelse, fr)
        elif isinstance(s, ast.While):
            n = 0
            symbolic = 0
            while True:
                n += 1
                if n > MAX_LOOP:
                    self.imprecise('while loop bound')
                    break
                notes_before = len(self.state.notes)
                # a loop whose complete local state recurs without any undetermined choice in between never ends
                try:
                    frames_, f_ = [], fr
                    while f_ is not None:
                        frames_.append(tuple(sorted((nm_, k(v_)) for nm_, v_ in f_.vars.items() if isinstance(v_, V))))
                        f_ = f_.parent
                    snap = (len(self.state.notes), len(self.state.events), tuple(frames_))
                except Exception:
                    snap = None
                if n == 1:
                    seen_states = set()         # per execution of the loop statement
                if snap is not None and n > 1:
                    if snap in seen_states:
                        raise Raised(Exc('hx:NonTermination', 'the state of the loop `while %s` repeats' % src(s.test)))
                    seen_states.add(snap)
                tv = self.expr(s.test, fr)
                before = len(self.state.notes) + self._dpos
                if len(self.state.notes) > notes_before:
                    # the test itself took a decision on unknown values (e.g. a comparison of linear forms)
                    decided_iters = getattr(self.state, '_loop_decisions', {})
                    decided_iters[id(s)] = decided_iters.get(id(s), 0) + 1
                    self.state._loop_decisions = decided_iters
                    if decided_iters[id(s)] > 3:
                        self.imprecise('loop on a symbolic condition (%s)' % src(s.test))
                        break
                try:
                    cont = self.truth(tv, src(s.test))
                except Fork:
                    symbolic += 1
                    if symbolic > 3 or sum(1 for nt in self.state.notes if nt[0] == 'truth(%s)' % src(s.test)) >= 3:
                        # a loop steered by unknown values: do not enumerate its iterations
                        self.imprecise('loop on a symbolic condition (%s)' % src(s.test))
                        break
                    raise
                if sum(1 for nt in self.state.notes if nt[0].startswith('truth(%s' % src(s.test)[:30])) > 3:
                    self.imprecise('loop on a symbolic condition (%s)' % src(s.test))
                    break
                if not cont:
                    self.block(s.orelse, fr)
                    break
                try:
                    self.block(s.body, fr)
                except BreakSig:
                    break
                except ContinueSig:
                    continue
        elif isinstance(s, ast.Try):
            try:
                try:
                    self.block(s.body, fr)
                except Raised as r:
                    h = self.select_handler(s.handlers, r.value, fr)
                    if h is None:
                        raise
                    if h.name:
                        fr.vars[h.name] = r.value
                    saved = fr.vars.get('<exc>')
                    fr.vars['<exc>'] = r.value
                    try:
                        self.block(h.body, fr)
                    finally:
                        if saved is None:
                            fr.vars.pop('<exc>', None)
                        else:
                            fr.vars['<exc>'] = saved
                else:
                    self.block(s.orelse, fr)
            finally:
                if s.finalbody:
                    self.block(s.finalbody, fr)
        elif isinstance(s, (ast.FunctionDef,)):
            fr.vars[s.name] = self.decorated(Func(fr.module, s, fr), s, fr)
        elif isinstance(s, ast.Pass):
            pass
        elif isinstance(s, ast.Break):
            raise BreakSig()
        elif isinstance(s, ast.Continue):
            raise ContinueSig()
        elif isinstance(s, ast.Delete):
            for t in s.targets:
                if isinstance(t, ast.Name):
                    fr.vars.pop(t.id, None)
                elif isinstance(t, ast.Subscript):
                    base = self.expr(t.value, fr)
                    idx = self.expr(t.slice, fr)
                    if isinstance(base, DictV):
                        kept = [p for p in base.pairs if k(p[0]) != k(idx)]
                        if len(kept) == len(base.pairs):
                            from .absmodels import is_concrete
                            if is_concrete(idx) and all(is_concrete(p[0]) for p in base.pairs):
                                raise Raised(Exc('KeyError', repr(idx)))       # no such key (a defaultdict does not help a del)
                            self.imprecise('del of a key that may or may not be present')
                        base.pairs = kept
                    else:
                        self.imprecise('del on %r' % (base,))
        elif isinstance(s, ast.Assert):
            if not self.truth(self.expr(s.test, fr), src(s.test)):
                raise Raised(Exc('AssertionError'))
        elif isinstance(s, ast.Nonlocal):
            # the names are bound in an enclosing function's frame
            f_ = fr
            while f_ is not None and getattr(f_, 'func_node', None) is None:
                f_ = f_.parent
            holder = f_ if f_ is not None else fr
            holder.__dict__.setdefault('nonlocals', set()).update(s.names)
        elif isinstance(s, (ast.Global, ast.Import, ast.ImportFrom)):
            pass
        elif hasattr(ast, 'Match') and isinstance(s, ast.Match):
            subj = self.expr(s.subject, fr)
            for case in s.cases:
                if self.match_pattern(case.pattern, subj, fr) and (case.guard is None or self.truth(self.expr(case.guard, fr), src(case.guard))):
                    self.block(case.body, fr)
                    break
        elif isinstance(s, ast.With):
            # locks guard nothing the interpreter can see (one thread); an object with __enter__/__exit__ runs them around the body
            mgrs = []
            for item in s.items:
                v = self.expr(item.context_expr, fr)
                if isinstance(v, Builtin) and v.name == 'lock':
                    if item.optional_vars is not None:
                        self.assign(item.optional_vars, Const(True), fr)
                    continue
                ent = self.get_method(v, '__enter__') if isinstance(v, Obj) else None
                ext = self.get_method(v, '__exit__') if isinstance(v, Obj) else None
                if ent is not None and ext is not None:
                    r_ = self.call(ent, [])
                    if item.optional_vars is not None:
                        self.assign(item.optional_vars, r_, fr)
                    mgrs.append(ext)
                    continue
                self.imprecise('with statement')
                if item.optional_vars is not None:
                    self.assign(item.optional_vars, v, fr)
            try:
                self.block(s.body, fr)
            except Raised as r:
                swallowed = False
                for ext in reversed(mgrs):
                    out_ = self.call(ext, [Const(None), r.value, Const(None)])
                    if self.truth(out_, '__exit__ swallows the exception'):
                        swallowed = True
                        break
                if not swallowed:
                    raise
            except BaseException:
                for ext in reversed(mgrs):
                    self.call(ext, [Const(None), Const(None), Const(None)])
                raise
            else:
                for ext in reversed(mgrs):
                    self.call(ext, [Const(None), Const(None), Const(None)])
        else:
            raise Unmodelled('statement %s' % type(s).__name__)

    def _in_function(self, fr, node):
        f_ = fr
        while f_ is not None and getattr(f_, 'func_node', None) is None:
            f_ = f_.parent
        return f_ is not None and getattr(f_, 'func_node', None) is node

    def select_handler(self, handlers, exc, fr):
        for h in handlers:
            if h.type is None:
                return h
            types = h.type.elts if isinstance(h.type, ast.Tuple) else [h.type]
            for t in types:
                tv = self.expr(t, fr)
                if self.exc_isinstance(exc, tv):
                    return h
        return None

    def exc_class_names(self, exc):
        if isinstance(exc, Exc):
            return [exc.cls] + EXC_BASES.get(exc.cls, ['Exception', 'BaseException'])
        if exc.tag == 'err':
            return ['XLError'] + EXC_BASES['XLError']
        if isinstance(exc, Obj):
            names = [c.name for _, c in self.model.mro(exc.cls.module, exc.cls.node)]
            return names + ['Exception', 'BaseException']
        return ['Exception', 'BaseException']

    def exc_isinstance(self, exc, tv):
        names = self.exc_class_names(exc)
        if isinstance(tv, ClassV):
            return tv.name in names
        if isinstance(tv, (Builtin, TypeV)):
            return tv.name.split('.')[-1] in names
        if isinstance(tv, ListV):
            return any(self.exc_isinstance(exc, t) for t in tv.items)
        return False

    def assign(self, t, v, fr):
        if isinstance(t, ast.Name):
            f_ = fr
            while f_ is not None and getattr(f_, 'func_node', None) is None:
                f_ = f_.parent
            if f_ is not None and t.id in getattr(f_, 'nonlocals', ()):
                p_ = f_.parent
                while p_ is not None and t.id not in p_.vars:
                    p_ = p_.parent
                if p_ is not None:
                    p_.vars[t.id] = v
                    return
            fr.vars[t.id] = v
        elif isinstance(t, (ast.Tuple, ast.List)):
            from . import absmodels
            items = absmodels.iter_items(self, v)
            if any(isinstance(i, Splice) for i in items):
                self.imprecise('unpacking a run of unknown length')
                for e in t.elts:
                    self.assign(e, Top('unpacked'), fr)
                return
            if len(items) != len(t.elts) and not any(isinstance(e, ast.Starred) for e in t.elts):
                if isinstance(v, (Top, Sym, Atom)):
                    self.imprecise('unpacking unknown value')
                    for e in t.elts:
                        self.assign(e, Top('unpacked'), fr)
                    return
                raise Raised(Exc('ValueError', 'unpack %d into %d' % (len(items), len(t.elts))))
            for e, item in zip(t.elts, items):
                self.assign(e, item, fr)
        elif isinstance(t, ast.Subscript) and isinstance(t.slice, ast.Slice):
            # base[lo:hi] = iterable  on a list of known shape with constant bounds
            from . import absmodels
            base = self.expr(t.value, fr)
            sl = t.slice
            lo = self.expr(sl.lower, fr) if sl.lower is not None else Const(None)
            hi = self.expr(sl.upper, fr) if sl.upper is not None else Const(None)
            if sl.step is not None or not isinstance(base, ListV) or base.has_splice() or base.kind != 'list' \
                    or not all(isinstance(b_, Const) and (b_.value is None or isinstance(b_.value, int)) for b_ in (lo, hi)):
                raise Unmodelled('slice assignment on %r' % (base,))
            new = absmodels.iter_items(self, v)
            if any(isinstance(i_, Splice) for i_ in new):
                self.imprecise('slice assignment of a run of unknown length')
            base.items[slice(lo.value, hi.value)] = new
        elif isinstance(t, ast.Subscript):
            base = self.expr(t.value, fr)
            idx = self.expr(t.slice, fr)
            if isinstance(base, DictV):
                base.store(idx, v)
            elif isinstance(base, ListV) and isinstance(idx, Const) and isinstance(idx.value, int) and not base.has_splice():
                i = idx.value
                if -len(base.items) <= i < len(base.items):
                    base.items[i] = v
                else:
                    raise Raised(Exc('IndexError', 'assignment index'))
            elif isinstance(base, Obj):
                m = self.get_method(base, '__setitem__')
                if m:
                    self.call(m, [idx, v])
                else:
                    raise Raised(Exc('TypeError'))
            else:
                self.imprecise('store into %r' % (base,))
        elif isinstance(t, ast.Attribute):
            base = self.expr(t.value, fr)
            if isinstance(base, Obj):
                base.attrs[t.attr] = v
            elif isinstance(base, Func):
                base.attrs[t.attr] = v
            elif isinstance(base, ClassV) and base.module is not None:
                self.class_dynamic(base, run=False)[t.attr] = v
            elif isinstance(base, (Err, Exc)) or getattr(base, 'tag', None) == 'err':
                pass        # e.__traceback__ = None
            else:
                self.imprecise('attribute store on %r' % (base,))
        elif isinstance(t, ast.Starred):
            self.assign(t.value, v, fr)
        else:
            raise Unmodelled('assignment target %s' % type(t).__name__)

    # -- truthiness ---------------------------------------------------------------------------------
    def truth(self, v, text=''):
        if isinstance(v, Const):
            return bool(v.value)
        if isinstance(v, Builtin) and v.name.startswith('hx:falsy-callable'):
            return False        # a host callable whose truth value is False (a callable container that is empty, a memo with __len__ 0)
        if isinstance(v, (Err, Exc, Obj, Func, Bound, Builtin, TypeV, ClassV, ModuleV)):
            if isinstance(v, Obj):
                # __bool__ / __len__ are not defined by the package classes
                pass
            return True
        if isinstance(v, ListV):
            if not v.has_splice():
                return bool(v.items)
            if any(not isinstance(i, Splice) for i in v.items):
                return True
            return self.decide('%s is non-empty' % (text or repr(v)), [True, False])
        if isinstance(v, DictV):
            return bool(v.pairs)
        if isinstance(v, GenV):
            return True
        tag = v.tag
        if tag == 'none':
            return False
        if tag in ('err', 'func', 'datetime', 'date', 'obj'):
            return True
        if tag == 'match' and not isinstance(v, Top):
            return True         # a match object (the failed match is None and never gets here)
        if isinstance(v, Top):
            if v.ignorance:
                self.imprecise('branch on unmodelled value (%s) at %s' % (v.why, text))
            return self.decide('truth(%s)' % (text or repr(v)), [True, False], v)
        known = self._order_known(v)
        if known is not None:
            return known
        return self.decide('truth(%s)' % (text if text else repr(v)), [True, False], v)

    _ORDER_SAT = {'lt': frozenset('<'), 'le': frozenset('<='), 'gt': frozenset('>'), 'ge': frozenset('>='), 'eq': frozenset('='), 'ne': frozenset('<>')}

    def _order_known(self, v):
        """Trichotomy: the comparisons of one pair of orderable values already decided on this trace may settle this one
        (not a < b and not a > b leaves a = b; a < b excludes a > b)."""
        SAT = self._ORDER_SAT
        if not (isinstance(v, Atom) and v.op in SAT and len(v.args) == 2):
            return None
        if not all(a.tag in ('int', 'float', 'str', 'datetime', 'date') for a in v.args):
            return None
        ka, kb = k(v.args[0]), k(v.args[1])
        flip = {'<': '>', '>': '<', '=': '='}
        feas = set('<=>')
        seen = False
        for (t0, alt0, s0) in self.state.notes:
            if isinstance(s0, Atom) and s0.op in SAT and len(s0.args) == 2 and isinstance(alt0, bool) and t0.startswith('truth('):
                k0 = (k(s0.args[0]), k(s0.args[1]))
                if k0 == (ka, kb):
                    sat = set(SAT[s0.op])
                elif k0 == (kb, ka):
                    sat = set(flip[x] for x in SAT[s0.op])
                else:
                    continue
                seen = True
                feas &= sat if alt0 else (set('<=>') - sat)
        if not seen:
            return None
        mine = set(SAT[v.op])
        if feas and feas <= mine:
            return True
        if not (feas & mine):
            return False
        return None

    # -- expressions --------------------------------------------------------------------------------
    def expr(self, e, fr):
        meth = getattr(self, 'x_' + type(e).__name__, None)
        if meth is None:
            raise Unmodelled('expression %s' % type(e).__name__)
        return meth(e, fr)

    def x_Constant(self, e, fr):
        return Const(e.value)

    def x_Name(self, e, fr):
        v = fr.lookup(e.id)
        if v is not None:
            return v
        m = fr.module
        f = fr
        while m is None and f is not None:
            m = f.module
            f = f.parent
        if m is not None:
            v = self.module_value(m, e.id)
            if v is not None:
                return v
        from . import absmodels
        if e.id in absmodels.BUILTIN_NAMES:
            return Builtin(e.id)
        if e.id in absmodels.TYPE_NAMES:
            return TypeV(e.id)
        if e.id in EXC_BASES:
            return Builtin(e.id)
        if e.id in ('True', 'False', 'None'):
            return Const({'True': True, 'False': False, 'None': None}[e.id])
        if e.id in ('__name__', '__package__', '__file__') and m is not None:
            return Const({'__name__': m.name, '__package__': m.package(), '__file__': m.path}[e.id])
        raise Raised(Exc('NameError', e.id))

    def x_Attribute(self, e, fr):
        base = self.expr(e.value, fr)
        return self.getattr(base, e.attr, e)

    def getattr(self, base, attr, node=None):
        from . import absmodels
        if isinstance(base, ModuleV):
            if base.internal:
                m = self.model.modules[base.name]
                v = self.module_value(m, attr)
                if v is None:
                    sub = base.name + '.' + attr
                    if sub in self.model.modules:
                        return ModuleV(sub, True)
                    raise Raised(Exc('AttributeError', '%s.%s' % (base.name, attr)))
                return v
            return self.external(base.name + '.' + attr)
        if isinstance(base, Obj):
            if attr in base.attrs:
                return base.attrs[attr]
            if base.cls.module is None and base.cls.name == 'relativedelta':
                raise Unmodelled('relativedelta.%s' % attr)         # only .years and .months are modelled
            if attr == '__class__':
                return base.cls
            bm = self.get_method(base, attr)
            if bm:
                fn_ = bm.func if isinstance(bm, Bound) else bm
                if isinstance(fn_, Func) and isinstance(fn_.node, ast.FunctionDef) and \
                        any(src(d_) in ('property', 'functools.cached_property', 'cached_property') for d_ in fn_.node.decorator_list):
                    return self.call(bm, [])        # reading a property runs its getter
                return bm
            ca = self.model.class_attr(base.cls.module, base.cls.node, attr)
            if ca:
                node_ = ca[2]
                if isinstance(node_, ast.Call) and (sa.call_name(node_) or '').split('.')[-1] == 'partialmethod' and node_.args and \
                        isinstance(node_.args[0], ast.Name):
                    # once = partialmethod(on, once=True): the named method of this object with the preset arguments
                    target = self.get_method(base, node_.args[0].id)
                    if target:
                        pre = [self.const_expr(ca[0], a_) for a_ in node_.args[1:]]
                        prekw = dict((kw_.arg, self.const_expr(ca[0], kw_.value)) for kw_ in node_.keywords if kw_.arg)
                        nm = 'hx:partialmethod:%d' % len(self.extern)
                        self.extern[nm] = lambda it, a_, kw_, target=target, pre=pre, prekw=prekw: it.call(target, pre + list(a_), dict(prekw, **kw_))
                        return Builtin(nm)
                return self.const_expr(ca[0], ca[2])
            if base.cls.name == 'YaccProduction' and attr == 'slice':
                return base.attrs.get('slice', Top('slice'))
            raise Raised(Exc('AttributeError', attr))
        if isinstance(base, DispatchV):
            if attr == 'register':
                nm = 'hx:sdregister:%s' % base.name
                if nm not in self.extern:
                    self.extern[nm] = lambda it, a, kw, dv=base: it._dispatch_register(dv, a, kw)
                return Builtin(nm)
            if attr in ('__name__', '__qualname__'):
                return Const(base.name)
            if attr == '__wrapped__':
                return base.default
            raise Unmodelled('singledispatch attribute %s' % attr)
        if isinstance(base, Func):
            if attr in base.attrs:
                return base.attrs[attr]
            raise Raised(Exc('AttributeError', attr))
        if isinstance(base, SuperV):
            mro = self.model.mro(base.obj.cls.module, base.obj.cls.node)
            seen = False
            for mm, cc in mro:
                if seen:
                    for n in cc.body:
                        if isinstance(n, ast.FunctionDef) and n.name == attr:
                            return Bound(base.obj, Func(mm, n))
                if cc is base.after.node:
                    seen = True
            if attr == '__init__':
                return Builtin('hx:noop')
            raise Raised(Exc('AttributeError', attr))
        if isinstance(base, ClassV):
            if attr == '__name__':
                return Const(base.name)
            members = self.enum_members(base)
            if members is not None and attr in members:
                return members[attr]
            if base.module is not None:
                dv = self.class_dynamic(base).get(attr)
                if dv is not None:
                    return dv
            lm = self.model.lookup_method(base.module, base.node, attr)
            if lm:
                decos = [src(d_) for d_ in getattr(lm[2], 'decorator_list', [])]
                if 'classmethod' in decos:
                    return Bound(base, Func(lm[0], lm[2]))
                return Func(lm[0], lm[2])
            ca = self.model.class_attr(base.module, base.node, attr)
            if ca:
                return self.const_expr(ca[0], ca[2])
        if isinstance(base, TypeV):
            if base.name in ('datetime.datetime', 'datetime.date') and attr in ('max', 'min'):
                # the extreme date-times the type can hold: constants (seconds since 1970-01-01)
                import datetime as _dt
                from fractions import Fraction
                d = getattr(_dt.datetime, attr) if base.name == 'datetime.datetime' else _dt.datetime.combine(getattr(_dt.date, attr), _dt.time())
                delta = d - _dt.datetime(1970, 1, 1)
                return Aff(0, Fraction(delta.days * 86400 + delta.seconds) + Fraction(delta.microseconds, 10 ** 6), 'dt')
            return Builtin(base.name + '.' + attr)
        if isinstance(base, Builtin):
            if base.name.startswith('hx:') and not attr.startswith('__'):
                # an opaque host callable of a scripted run: a plain function object, it carries no attributes of its own
                raise Raised(Exc('AttributeError', "'function' object has no attribute '%s'" % attr))
            return Builtin(base.name + '.' + attr)
        return absmodels.value_attr(self, base, attr)

    def x_Subscript(self, e, fr):
        from . import absmodels
        base = self.expr(e.value, fr)
        if isinstance(e.slice, ast.Slice):
            lo = self.expr(e.slice.lower, fr) if e.slice.lower is not None else None
            hi = self.expr(e.slice.upper, fr) if e.slice.upper is not None else None
            st = self.expr(e.slice.step, fr) if e.slice.step is not None else None
            return absmodels.slice_value(self, base, lo, hi, st)
        idx = self.expr(e.slice, fr)
        return absmodels.index_value(self, base, idx)

    def x_BinOp(self, e, fr):
        from . import absmodels
        a = self.expr(e.left, fr)
        b = self.expr(e.right, fr)
        return absmodels.binop(self, e.op, a, b)

    def x_UnaryOp(self, e, fr):
        from . import absmodels
        v = self.expr(e.operand, fr)
        if isinstance(e.op, ast.Not):
            return Const(not self.truth(v, src(e.operand)))
        return absmodels.unaryop(self, e.op, v)

    def x_BoolOp(self, e, fr):
        last = None
        for i, sub in enumerate(e.values):
            last = self.expr(sub, fr)
            if i == len(e.values) - 1:
                return last
            t = self.truth(last, src(sub))
            if isinstance(e.op, ast.And) and not t:
                return last
            if isinstance(e.op, ast.Or) and t:
                return last
        return last

    def x_Compare(self, e, fr):
        from . import absmodels
        left = self.expr(e.left, fr)
        result = None
        for op, comp in zip(e.ops, e.comparators):
            right = self.expr(comp, fr)
            result = absmodels.compare(self, op, left, right, src(e))
            if len(e.ops) > 1:
                if not self.truth(result, src(e)):
                    return Const(False) if isinstance(result, Const) else result
            left = right
        return result

    def x_IfExp(self, e, fr):
        if self.truth(self.expr(e.test, fr), src(e.test)):
            return self.expr(e.body, fr)
        return self.expr(e.orelse, fr)

    def x_List(self, e, fr):
        return ListV(self._elts(e.elts, fr), 'list')

    def x_Tuple(self, e, fr):
        return ListV(self._elts(e.elts, fr), 'tuple')

    def x_Set(self, e, fr):
        return ListV(self._elts(e.elts, fr), 'set')

    def _elts(self, elts, fr):
        from . import absmodels
        out = []
        for x in elts:
            if isinstance(x, ast.Starred):
                out.extend(absmodels.iter_items(self, self.expr(x.value, fr)))
            else:
                out.append(self.expr(x, fr))
        return out

    def x_Dict(self, e, fr):
        pairs = []
        for kk, vv in zip(e.keys, e.values):
            if kk is None:
                d = self.expr(vv, fr)
                if isinstance(d, DictV):
                    pairs.extend([list(p) for p in d.pairs])
                continue
            pairs.append([self.expr(kk, fr), self.expr(vv, fr)])
        return DictV(pairs)

    def x_Lambda(self, e, fr):
        return Func(self._module_of(fr), e, fr, 'lambda')

    def _module_of(self, fr):
        f = fr
        while f is not None:
            if f.module is not None:
                return f.module
            f = f.parent
        return None

    def x_JoinedStr(self, e, fr):
        from . import absmodels
        parts = []
        plain = True
        for v in e.values:
            if isinstance(v, ast.Constant):
                parts.append(Const(v.value))
            else:
                val = self.expr(v.value, fr)
                if v.format_spec is None and v.conversion in (-1, 115):
                    # {x} / {x!s} is str(x): the f-string means the same as the concatenation of the converted pieces
                    val = absmodels.to_str(self, val)
                else:
                    plain = False
                parts.append(val)
        if all(isinstance(p, Const) for p in parts):
            return Const(''.join(str(p.value) for p in parts))
        if plain:
            parts = [p for p in parts if not (isinstance(p, Const) and p.value == '')]
            out = parts[0]
            for p in parts[1:]:
                out = absmodels.binop(self, ast.Add(), out, p)
            return out
        return Atom('fstring', parts, 'str')

    def _comprehension(self, e, fr, elt_fn):
        from . import absmodels
        out = []
        tails = []

        def go(i, frame):
            if i == len(e.generators):
                out.append(elt_fn(frame))
                return
            g = e.generators[i]
            it = self.expr(g.iter, frame)
            items, tail = absmodels.iter_items_tail(self, it)
            for item in items:
                if isinstance(item, Splice):
                    out.append(Splice(item.name + "'"))
                    self.imprecise('comprehension over a run of unknown length')
                    continue
                self.assign(g.target, item, frame)
                if all(self.truth(self.expr(c, frame), src(c)) for c in g.ifs):
                    go(i + 1, frame)
            if tail is not None:
                raise Raised(tail)
        sub = Frame({}, fr, None)
        go(0, sub)
        return out

    def x_ListComp(self, e, fr):
        return ListV(self._comprehension(e, fr, lambda f: self.expr(e.elt, f)), 'list')

    def x_SetComp(self, e, fr):
        return ListV(self._comprehension(e, fr, lambda f: self.expr(e.elt, f)), 'set')

    def x_GeneratorExp(self, e, fr):
        # evaluated eagerly; an exception raised while producing becomes the generator's tail
        items = []

        def elt(f):
            return self.expr(e.elt, f)
        out = []
        try:
            from . import absmodels
            out = self._gen_items(e, fr)
            return GenV(out[0], out[1])
        except Raised:
            raise

    def _gen_items(self, e, fr):
        from . import absmodels
        out = []
        tail = [None]

        def go(i, frame):
            if tail[0] is not None:
                return
            if i == len(e.generators):
                try:
                    out.append(self.expr(e.elt, frame))
                except Raised as r:
                    tail[0] = r.value
                return
            g = e.generators[i]
            it = self.expr(g.iter, frame)
            items, t2 = absmodels.iter_items_tail(self, it)
            for item in items:
                if tail[0] is not None:
                    return
                if isinstance(item, Splice):
                    out.append(Splice(item.name + "'"))
                    continue
                self.assign(g.target, item, frame)
                try:
                    ok = all(self.truth(self.expr(c, frame), src(c)) for c in g.ifs)
                except Raised as r:
                    tail[0] = r.value
                    return
                if ok:
                    go(i + 1, frame)
            if t2 is not None and tail[0] is None:
                tail[0] = t2
        go(0, Frame({}, fr, None))
        return out, tail[0]

    def x_DictComp(self, e, fr):
        pairs = self._comprehension(e, fr, lambda f: [self.expr(e.key, f), self.expr(e.value, f)])
        return DictV([p for p in pairs if not isinstance(p, Splice)])

    def x_Yield(self, e, fr):
        v = self.expr(e.value, fr) if e.value is not None else Const(None)
        if self.state.yields is None:
            raise Unmodelled('yield outside generator activation')
        self.state.yields.append(v)
        return Const(None)

    def x_YieldFrom(self, e, fr):
        from . import absmodels
        items, tail = absmodels.iter_items_tail(self, self.expr(e.value, fr))
        self.state.yields.extend(items)
        if tail is not None:
            raise Raised(tail)
        return Const(None)

    def x_Starred(self, e, fr):
        return self.expr(e.value, fr)

    def x_NamedExpr(self, e, fr):
        v = self.expr(e.value, fr)
        fr.vars[e.target.id] = v
        return v

    def x_Call(self, e, fr):
        from . import absmodels
        # method call on an abstract value?
        if isinstance(e.func, ast.Attribute):
            base = self.expr(e.func.value, fr)
            args, kwargs = self._args(e, fr)
            if absmodels.is_dt_record(base) and e.func.attr == 'replace' and not args:
                return absmodels.dt_record_replace(self, base, kwargs)
            if e.func.attr == '__new__' and args and isinstance(args[0], ClassV) and args[0].module is not None and \
                    (isinstance(base, (ClassV, SuperV)) or (isinstance(base, Builtin) and base.name == 'object')) and \
                    (isinstance(base, SuperV) or self.model.lookup_method(args[0].module, args[0].node, '__new__') is None):
                rec_ = self._record_class(args[0], allow_new=True) if isinstance(base, SuperV) else None
                if rec_ and rec_[0] == 'namedtuple':
                    # super().__new__(cls, *values) of a namedtuple subclass: the record with these values
                    names_ = [f_ for f_, _ in rec_[1]]
                    vals_ = list(args[1:])
                    if len(vals_) + len(kwargs) == len(names_) and all(k_ in names_[len(vals_):] for k_ in kwargs):
                        o_ = Obj(args[0], dict(zip(names_, vals_)))
                        for k_, v_ in kwargs.items():
                            o_.attrs[k_] = v_
                        o_.attrs = dict((f_, o_.attrs[f_]) for f_ in names_)
                        o_.nt_fields = names_
                        return o_
                    raise Unmodelled('namedtuple __new__ with defaults left to the base class')
                return Obj(args[0], {})     # an instance on which no __init__ has run
            if isinstance(base, (ModuleV, Obj, ClassV, TypeV, Builtin, SuperV, DispatchV)) or (isinstance(base, Func) and e.func.attr in base.attrs):
                fv = self.getattr(base, e.func.attr, e.func)
                return self.call(fv, args, kwargs)
            return absmodels.call_method(self, base, e.func.attr, args, kwargs, src(e))
        if isinstance(e.func, ast.Name) and e.func.id == 'super' and fr.lookup('super') is None:
            args, kwargs = self._args(e, fr)
            if len(args) == 2 and isinstance(args[0], ClassV) and isinstance(args[1], (Obj, ClassV)):
                return SuperV(args[1], args[0])     # super(C, self) / super(C, cls) inside __new__ or a classmethod
            if not args:
                # zero-argument form: the class that lexically owns the running method, and its first parameter
                f_ = fr
                while f_ is not None and getattr(f_, 'func_node', None) is None:
                    f_ = f_.parent
                node_ = getattr(f_, 'func_node', None) if f_ is not None else None
                if node_ is not None and not isinstance(node_, ast.Lambda) and node_.args.args:
                    owner = f_.module.enclosing_class(node_)
                    selfv = f_.vars.get(node_.args.args[0].arg)
                    if owner is not None and isinstance(selfv, Obj):
                        return SuperV(selfv, ClassV(f_.module, owner))
            raise Unmodelled('super() without arguments')
        fv = self.expr(e.func, fr)
        args, kwargs = self._args(e, fr)
        return self.call(fv, args, kwargs)

    def _args(self, e, fr):
        from . import absmodels
        args = []
        for a in e.args:
            if isinstance(a, ast.Starred):
                v = self.expr(a.value, fr)
                items = absmodels.iter_items(self, v)
                if any(isinstance(i, Splice) for i in items):
                    self.imprecise('call with a run of unknown length')
                    items = [i for i in items if not isinstance(i, Splice)]
                args.extend(items)
            else:
                args.append(self.expr(a, fr))
        kwargs = {}
        for kw in e.keywords:
            if kw.arg is None:
                d = self.expr(kw.value, fr)
                if isinstance(d, DictV):
                    for a, b in d.pairs:
                        if isinstance(a, Const):
                            kwargs[a.value] = b
                else:
                    self.imprecise('**kwargs of unknown shape')
            else:
                kwargs[kw.arg] = self.expr(kw.value, fr)
        return args, kwargs


def _walk_no_defs(node):
    from .paths import walk_no_defs
    return walk_no_defs(node)


def _as_load(t):
    n = copy.copy(t)
    n.ctx = ast.Load()
    return n


def func_value(model, dotted_module, qualname):
    m = model.module(dotted_module)
    f = m.functions.get(qualname)
    if f is None:
        raise AnalysisError('function %s.%s not found (anchor vanished)' % (dotted_module, qualname))
    return Func(m, f)
