# -*- coding: utf-8 -*-
"""Models of the builtins / stdlib functions / value operations the package uses, for the abstract interpreter
(hand-written from the Python documentation; listed in every evidence file's trusted base)."""
import ast
import operator as _op

from .absint import (Aff, AffCmp, RegexV, MatchV, V, Const, Sym, Err, TypeV, Atom, Top, Builtin, ModuleV, Func, ClassV, ListV, DictV, Obj, Bound,
                     GenV, Exc, Splice, Raised, Unmodelled, TAG_TYPES, TAG_EXACT, NUMERIC, EXC_BASES, k)

BUILTIN_NAMES = set(['map', 'filter', 'globals', 'locals', 'vars', 'isinstance', 'len', 'abs', 'all', 'any', 'sum', 'min', 'max', 'sorted', 'range', 'zip', 'enumerate',
                     'getattr', 'hasattr', 'setattr', 'iter', 'next', 'print', 'round', 'ord', 'chr', 'repr', 'reversed',
                     'map', 'filter', 'divmod', 'pow', 'callable', 'id', 'hash', 'hex', 'bin', 'oct', 'issubclass', 'super',
                     'format'])
TYPE_NAMES = set(['int', 'float', 'complex', 'str', 'bool', 'list', 'tuple', 'dict', 'set', 'frozenset', 'object', 'type',
                  'bytes'])

CMP_NAMES = {ast.Lt: 'lt', ast.LtE: 'le', ast.Gt: 'gt', ast.GtE: 'ge', ast.Eq: 'eq', ast.NotEq: 'ne'}
CMP_DUNDER = {'lt': '__lt__', 'le': '__le__', 'gt': '__gt__', 'ge': '__ge__', 'eq': '__eq__', 'ne': '__ne__'}
CMP_REFLECT = {'lt': 'gt', 'le': 'ge', 'gt': 'lt', 'ge': 'le', 'eq': 'eq', 'ne': 'ne'}
CMP_PY = {'lt': _op.lt, 'le': _op.le, 'gt': _op.gt, 'ge': _op.ge, 'eq': _op.eq, 'ne': _op.ne}
BIN_NAMES = {ast.Add: 'add', ast.Sub: 'sub', ast.Mult: 'mul', ast.Div: 'truediv', ast.FloorDiv: 'floordiv', ast.Mod: 'mod',
             ast.Pow: 'pow', ast.BitAnd: 'and', ast.BitOr: 'or', ast.BitXor: 'xor', ast.LShift: 'lshift', ast.RShift: 'rshift'}
BIN_DUNDER = {'add': ('__add__', '__radd__'), 'sub': ('__sub__', '__rsub__'), 'mul': ('__mul__', '__rmul__'),
              'truediv': ('__truediv__', '__rtruediv__'), 'floordiv': ('__floordiv__', '__rfloordiv__'),
              'mod': ('__mod__', '__rmod__'), 'pow': ('__pow__', '__rpow__')}
BIN_PY = {'add': _op.add, 'sub': _op.sub, 'mul': _op.mul, 'truediv': _op.truediv, 'floordiv': _op.floordiv, 'mod': _op.mod,
          'pow': _op.pow, 'and': _op.and_, 'or': _op.or_, 'xor': _op.xor, 'lshift': _op.lshift, 'rshift': _op.rshift}


def error_dunder(interp, dunder):
    """A comparison dunder defined by the package's error class (identity semantics are assumed otherwise)."""
    cache = getattr(interp, '_err_dunders', None)
    if cache is None:
        cache = interp._err_dunders = {}
    if dunder not in cache:
        found = None
        for m, c in interp.model.find_class('XLError'):
            lm = interp.model.lookup_method(m, c, dunder)
            if lm:
                found = Func(lm[0], lm[2])
        cache[dunder] = found
    return cache[dunder]


def kind_of(v):
    """Comparison/arithmetic kind of a value: 'num' | 'str' | 'none' | 'err' | 'list' | 'tuple' | 'datetime' | ... | None"""
    t = v.tag
    if t in NUMERIC:
        return 'num'
    return t


def is_unknown(v):
    return isinstance(v, Top) or v.tag is None


# ---------------------------------------------------------------------------------------------------
# isinstance / type

ABSTRACT_CLASSES = {
    'Sequence': ['list', 'tuple', 'str', 'range', 'bytes'],
    'MutableSequence': ['list'],
    'Iterable': ['list', 'tuple', 'str', 'range', 'bytes', 'dict', 'set', 'frozenset', 'generator'],
    'Collection': ['list', 'tuple', 'str', 'range', 'bytes', 'dict', 'set', 'frozenset'],
    'Sized': ['list', 'tuple', 'str', 'range', 'bytes', 'dict', 'set', 'frozenset'],
    'Container': ['list', 'tuple', 'str', 'range', 'bytes', 'dict', 'set', 'frozenset'],
    'Reversible': ['list', 'tuple', 'str', 'range', 'bytes', 'dict'],
    'Iterator': ['generator'],
    'Generator': ['generator'],
    'Mapping': ['dict'],
    'MutableMapping': ['dict'],
    'Set': ['set', 'frozenset'],
    'MutableSet': ['set'],
    'Callable': ['function'],
    'Number': ['int', 'float', 'complex', 'bool'],
    'Complex': ['int', 'float', 'complex', 'bool'],
    'Real': ['int', 'float', 'bool'],
    'Rational': ['int', 'bool'],
    'Integral': ['int', 'bool'],
}


def type_names_of(interp, tv):
    """Set of type names denoted by a type expression value (TypeV / ClassV / tuple of them)."""
    if isinstance(tv, TypeV):
        return set([tv.name])
    if isinstance(tv, ClassV):
        return set([tv.name])
    if isinstance(tv, Builtin):
        short = tv.name.split('.')[-1]
        if tv.name.split('.')[0] in ('collections', 'typing', 'numbers') and short in ABSTRACT_CLASSES:
            return set(ABSTRACT_CLASSES[short])       # the concrete classes (among the modelled ones) the abstract class accepts
        return set([short if short in EXC_BASES else tv.name])
    if isinstance(tv, ListV):
        out = set()
        for i in tv.items:
            out |= type_names_of(interp, i)
        return out
    raise Unmodelled('type expression %r' % (tv,))


def isinstance_(interp, v, tv, text=''):
    names = type_names_of(interp, tv)
    if isinstance(v, Obj):
        mine = set(c.name for _, c in interp.model.mro(v.cls.module, v.cls.node)) | set(['object'])
        return bool(mine & names)
    if isinstance(v, (Func, Bound, Builtin)):
        return 'object' in names or 'function' in names
    if isinstance(v, Exc):
        return bool(set([v.cls] + EXC_BASES.get(v.cls, [])) & names)
    tag = v.tag
    if tag is None:
        if isinstance(v, Top) and v.ignorance:
            interp.imprecise('isinstance on unmodelled value (%s)' % v.why)
        return interp.decide('isinstance(%s, %s)' % (text or repr(v), '/'.join(sorted(names))), [True, False])
    mine = TAG_TYPES.get(tag)
    if mine is None:
        raise Unmodelled('isinstance for tag %s' % tag)
    return bool(mine & names)


def copy_value(interp, v, deep, memo):
    """copy.copy / copy.deepcopy of an abstract value: containers and objects get a new identity (their contents too when ``deep``),
    the class's own __copy__ / __deepcopy__ is honoured, immutable values are themselves."""
    if id(v) in memo:
        return memo[id(v)]
    if isinstance(v, ListV):
        n = ListV([], v.kind)
        memo[id(v)] = n
        n.items = [copy_value(interp, i, deep, memo) if deep else i for i in v.items]
        return n
    if isinstance(v, DictV):
        n = DictV([], default=v.default)
        memo[id(v)] = n
        n.pairs = [[copy_value(interp, a, deep, memo) if deep else a, copy_value(interp, b, deep, memo) if deep else b] for a, b in v.pairs]
        return n
    if isinstance(v, Obj):
        hook = interp.get_method(v, '__deepcopy__' if deep else '__copy__') if v.cls.module is not None else None
        if hook is not None:
            return interp.call(hook, [DictV([])] if deep else [])
        if v.cls.module is not None and (interp.get_method(v, '__reduce__') or interp.get_method(v, '__reduce_ex__') or
                                         interp.get_method(v, '__getstate__') or interp.get_method(v, '__setstate__')):
            raise Unmodelled('copy of an object with pickling hooks (%s)' % v.cls.name)
        n = Obj(v.cls, {})
        memo[id(v)] = n
        for a, b in v.attrs.items():
            n.attrs[a] = copy_value(interp, b, deep, memo) if deep else b
        if hasattr(v, 'nt_fields'):
            n.nt_fields = v.nt_fields
        return n
    if isinstance(v, Top):
        interp.imprecise('copy of an unknown value')
    return v


def type_of(interp, v):
    if isinstance(v, Obj):
        return v.cls
    tag = v.tag
    if tag == 'err':
        for m, c in interp.model.find_class('XLError'):
            return ClassV(m, c)
    if tag in TAG_EXACT:
        return TypeV(TAG_EXACT[tag])
    if isinstance(v, Top):
        interp.imprecise('type() of unknown value')
        return Top('type')
    raise Unmodelled('type() for %r' % (v,))


# ---------------------------------------------------------------------------------------------------
# comparison

def compare(interp, op, a, b, text=''):
    if isinstance(op, (ast.Is, ast.IsNot)):
        for x, y in ((a, b), (b, a)):
            if isinstance(x, Atom) and x.op == 'group' and getattr(x, 'optional', False) and y.tag == 'none':
                # an optional group is None exactly when it did not take part in the match
                return Atom('took-part' if isinstance(op, ast.IsNot) else 'absent', [x], 'bool')
        r = identical(interp, a, b, text)
        return Const(r if isinstance(op, ast.Is) else (not r))
    if isinstance(op, (ast.In, ast.NotIn)):
        r = contains(interp, b, a, text)
        return Const(r if isinstance(op, ast.In) else (not r))
    name = CMP_NAMES[type(op)]
    return rich_compare(interp, name, a, b, text)


def identical(interp, a, b, text=''):
    ka, kb = k(a), k(b)
    if isinstance(a, Const) and isinstance(b, Const):
        if a.value is None or b.value is None or isinstance(a.value, bool) or isinstance(b.value, bool):
            return a.value is b.value
        return ka == kb
    if a.tag == 'none' or b.tag == 'none':
        if a.tag == 'none' and b.tag == 'none':
            return True
        if a.tag is not None and b.tag is not None:
            return False
    if ka == kb:
        return True
    # two different named singletons / functions / objects are different objects
    if isinstance(a, (Err, Func, TypeV, ClassV, Builtin)) and isinstance(b, (Err, Func, TypeV, ClassV, Builtin)):
        return False
    if a.tag is not None and b.tag is not None and a.tag != b.tag and not (a.tag in NUMERIC and b.tag in NUMERIC and False):
        return False
    if isinstance(a, Sym) and a.tag == 'err' and isinstance(b, Err) or isinstance(b, Sym) and b.tag == 'err' and isinstance(a, Err):
        return interp.decide('%r is %r' % (a, b), [True, False])
    if isinstance(a, (ListV, DictV, Obj)) or isinstance(b, (ListV, DictV, Obj)):
        return a is b
    if isinstance(a, (Func,)) or isinstance(b, (Func,)):
        return False
    return interp.decide('%r is %r' % (a, b), [True, False])


def contains(interp, container, item, text=''):
    if isinstance(container, DictV):
        for kk, _ in container.pairs:
            if k(kk) == k(item):
                return True
        if is_unknown(item) or isinstance(item, (Sym, Atom)):
            if container.pairs and all(isinstance(kk, Const) for kk, _ in container.pairs) and item.tag in ('str', None) and isinstance(item, (Sym, Atom)):
                # the same decision a subscript with this key makes: `k in d` followed by `d[k]` is one lookup, not two
                alts = ['<missing>'] + [repr(kk) for kk, _ in container.pairs]
                return interp.decide('%r is key' % (item,), alts, ('dict-key', item)) != '<missing>'
            if any(isinstance(kk, Const) for kk, _ in container.pairs) and item.tag in ('str', None):
                return interp.decide('%r in dict' % (item,), [True, False])
        return False
    if isinstance(container, ListV) and not container.has_splice():
        undecided = False
        for i in container.items:
            r = rich_compare(interp, 'eq', item, i, text, pure=True)
            if isinstance(r, Const):
                if r.value:
                    return True
            else:
                undecided = True
        if undecided:
            return interp.decide('%s' % (text or '%r in %r' % (item, container)), [True, False])
        return False
    if container.tag == 'str' and item.tag == 'str':
        if isinstance(container, Const) and isinstance(item, Const):
            return item.value in container.value
        return interp.decide(text or '%r in %r' % (item, container), [True, False])
    if container.tag == 'str':
        raise Raised(Exc('TypeError', 'in <string> requires string'))
    interp.imprecise('membership test on %r' % (container,))
    return interp.decide(text or 'in', [True, False])


def is_dt_record(v):
    return isinstance(v, Obj) and v.cls.module is None and v.cls.name == 'datetime' and 'year' in v.attrs


def dt_record_replace(interp, rec, kwargs):
    """datetime.replace(year=.., month=.., day=..) on a component record: a new record; 29 February of a common year raises."""
    attrs = dict((kk, vv) for kk, vv in rec.attrs.items() if kk != '<sym>')
    for kk, vv in kwargs.items():
        if kk not in ('year', 'month', 'day'):
            raise Unmodelled('datetime.replace(%s=...)' % kk)
        attrs[kk] = vv
    mo, day = attrs.get('month'), attrs.get('day')
    feb = isinstance(mo, Const) and mo.value == 2
    small = isinstance(day, Const) and isinstance(day.value, int) and day.value <= 28
    if (feb or not isinstance(mo, Const)) and not small:
        if interp.decide('replace(): 29 February in a common year (%r-%r-%r)' % (attrs.get('year'), mo, day), [False, True], ('feb29', None)):
            raise Raised(Exc('ValueError', 'day is out of range for month'))
    return Obj(rec.cls, attrs)


def dt_record_compare(interp, name, a, b, text):
    """Lexicographic order on (year, month, day) of two component records."""
    strict = {'lt': 'lt', 'le': 'lt', 'gt': 'gt', 'ge': 'gt'}.get(name)
    for comp in ('year', 'month', 'day'):
        x, y = a.attrs.get(comp), b.attrs.get(comp)
        if x is None or y is None:
            raise Unmodelled('date record without %s' % comp)
        same = interp.truth(rich_compare(interp, 'eq', x, y, '%s.%s == %s.%s' % (text, comp, text, comp)), '%s equal' % comp)
        if not same:
            if name in ('eq', 'ne'):
                return Const(name == 'ne')
            return Const(interp.truth(rich_compare(interp, strict, x, y, text), '%s %s' % (comp, strict)))
    return Const(name in ('eq', 'le', 'ge'))


def _field_compares(dflt):
    """Does a dataclass field declared with this default expression take part in the generated __eq__?  (field(compare=False) does not.)"""
    if isinstance(dflt, ast.Call) and (isinstance(dflt.func, ast.Name) and dflt.func.id == 'field' or isinstance(dflt.func, ast.Attribute) and dflt.func.attr == 'field'):
        for kw in dflt.keywords:
            if kw.arg == 'compare' and isinstance(kw.value, ast.Constant):
                return bool(kw.value.value)
    return True


def rich_compare(interp, name, a, b, text='', pure=False):
    # abstract date-time records (component-wise objects used by the calendar rules): compared through their symbol
    if isinstance(a, Obj) and isinstance(b, Obj) and '<sym>' in a.attrs and '<sym>' in b.attrs:
        return rich_compare(interp, name, a.attrs['<sym>'], b.attrs['<sym>'], text, pure)
    if is_dt_record(a) and is_dt_record(b):
        return dt_record_compare(interp, name, a, b, text)
    # namedtuple records compare like the tuples they are
    if isinstance(a, Obj) and isinstance(b, Obj) and getattr(a, 'nt_fields', None) and getattr(b, 'nt_fields', None) and \
            not interp.get_method(a, CMP_DUNDER[name]):
        return rich_compare(interp, name, ListV([a.attrs[f_] for f_ in a.nt_fields], 'tuple'), ListV([b.attrs[f_] for f_ in b.nt_fields], 'tuple'),
                            text, pure)
    # tuples / lists of known items: lexicographic, item by item (each comparison may be a decision)
    if isinstance(a, ListV) and isinstance(b, ListV) and a.kind == b.kind and a.kind in ('tuple', 'list') and name in ('lt', 'le', 'gt', 'ge') \
            and not a.has_splice() and not b.has_splice() and a.items and len(a.items) == len(b.items) \
            and all(not isinstance(x, (ListV, DictV, Obj)) for x in a.items + b.items):
        strict = {'lt': 'lt', 'le': 'lt', 'gt': 'gt', 'ge': 'gt'}[name]
        for x, y in zip(a.items, b.items):
            same = interp.truth(rich_compare(interp, 'eq', x, y, text, pure), '%r == %r' % (x, y))
            if not same:
                return Const(interp.truth(rich_compare(interp, strict, x, y, text, pure), '%r %s %r' % (x, strict, y)))
        return Const(name in ('le', 'ge'))
    # @dataclass records of one class without an __eq__ of their own: the generated one compares the fields that take part in comparisons
    if isinstance(a, Obj) and isinstance(b, Obj) and name in ('eq', 'ne') and a.cls.module is not None and a.cls.node is b.cls.node \
            and not interp.get_method(a, '__eq__'):
        rec = interp._record_class(a.cls)
        if rec and rec[0] == 'dataclass':
            same = True
            for fname, dflt in rec[1]:
                if not _field_compares(dflt):
                    continue
                r = rich_compare(interp, 'eq', a.attrs.get(fname), b.attrs.get(fname), text, pure)
                if not interp.truth(r, '%r == %r' % (a.attrs.get(fname), b.attrs.get(fname))):
                    same = False
                    break
            return Const(same == (name == 'eq'))
    # dunder dispatch on package objects
    if isinstance(a, Obj):
        m = interp.get_method(a, CMP_DUNDER[name])
        if m is not None:
            return interp.call(m, [b])
        if name == 'ne':
            m = interp.get_method(a, '__eq__')
            if m is not None:
                r = interp.call(m, [b])
                return Const(not interp.truth(r, text))
        if name in ('eq', 'ne'):
            same = a is b
            return Const(same if name == 'eq' else not same)
    if isinstance(b, Obj):
        m = interp.get_method(b, CMP_DUNDER[CMP_REFLECT[name]])
        if m is not None:
            return interp.call(m, [a])
        if name in ('eq', 'ne'):
            return Const(name == 'ne')
    r = aff_compare(interp, name, a, b, text)
    if r is not None:
        return r
    for x, y, nm in ((a, b, name), (b, a, CMP_REFLECT[name])):
        if x.tag == 'err' and not pure:
            meth = error_dunder(interp, CMP_DUNDER[nm])
            if meth is None and nm == 'ne':
                eqm = error_dunder(interp, '__eq__')
                if eqm is not None:
                    r = interp.call(eqm, [x, y])
                    return Const(not interp.truth(r, text))
            if meth is not None:
                return interp.call(meth, [x, y])
    ka, kb = kind_of(a), kind_of(b)
    if isinstance(a, Const) and isinstance(b, Const):
        try:
            return Const(CMP_PY[name](a.value, b.value))
        except TypeError:
            raise Raised(Exc('TypeError', 'unorderable'))
    if name in ('eq', 'ne'):
        # identity-based equality for errors / functions / types; different kinds are unequal
        if isinstance(a, (Err, Func, TypeV, ClassV, Builtin, Exc)) or isinstance(b, (Err, Func, TypeV, ClassV, Builtin, Exc)) \
                or ka == 'err' or kb == 'err':
            r = identical(interp, a, b, text)
            return Const(r if name == 'eq' else not r)
        if isinstance(a, ListV) and isinstance(b, ListV) and not a.has_splice() and not b.has_splice():
            if a.kind != b.kind and 'set' not in (a.kind, b.kind):
                return Const(name == 'ne')
            if len(a.items) != len(b.items):
                return Const(name == 'ne')
            alleq = True
            for x, y in zip(a.items, b.items):
                r = rich_compare(interp, 'eq', x, y, text, pure)
                if isinstance(r, Const):
                    if not r.value:
                        return Const(name == 'ne')
                else:
                    alleq = None
            if alleq:
                return Const(name == 'eq')
            return Atom(name, [a, b], 'bool')
        if ka is not None and kb is not None and ka != kb:
            return Const(name == 'ne')
        for x, y in ((a, b), (b, a)):
            if isinstance(x, Sym) and getattr(x, 'lang', None) and isinstance(y, Const) and isinstance(y.value, str):
                import re as _re
                if _re.fullmatch(x.lang, y.value) is None:
                    return Const(name == 'ne')      # the constant is outside the language of the symbolic text
        if k(a) == k(b) and ka not in ('num',):     # same symbolic value (NaN aside for numbers handled below)
            return Const(name == 'eq')
        if k(a) == k(b):
            return Const(name == 'eq')
        return Atom(name, [a, b], 'bool')
    # ordering
    if ka is None or kb is None:
        if (isinstance(a, Top) and a.ignorance) or (isinstance(b, Top) and b.ignorance):
            interp.imprecise('ordering comparison on unmodelled value')
        return Atom(name, [a, b], 'bool')
    orderable = (ka == kb and ka in ('num', 'str', 'datetime', 'date', 'list', 'tuple'))
    if not orderable:
        raise Raised(Exc('TypeError', "'%s' not supported between %s and %s" % (name, a.tag, b.tag)))
    if k(a) == k(b):
        return Const(name in ('le', 'ge'))
    return Atom(name, [a, b], 'bool')


# ---------------------------------------------------------------------------------------------------
# arithmetic

def binop(interp, op, a, b):
    name = BIN_NAMES.get(type(op))
    if name is None:
        raise Unmodelled('operator %s' % type(op).__name__)
    return arith(interp, name, a, b)


def _aff_of(v):
    from fractions import Fraction
    if isinstance(v, Aff):
        return v
    if isinstance(v, Const) and isinstance(v.value, (int, float)) and not isinstance(v.value, bool):
        if isinstance(v.value, float) and (v.value != v.value or v.value in (float('inf'), float('-inf'))):
            return None         # nan / infinities are not rational constants
        return Aff(0, Fraction(v.value), 'num')
    return None


def _lin(cs1, k1, cs2, k2):
    out = {}
    for v in set(cs1) | set(cs2):
        c = k1 * cs1.get(v, 0) + k2 * cs2.get(v, 0)
        if c != 0:
            out[v] = c
    return out


def aff_arith(interp, name, a, b):
    """Arithmetic when at least one operand is a linear form; None if not applicable."""
    x, y = _aff_of(a), _aff_of(b)
    if x is None or y is None or not (isinstance(a, Aff) or isinstance(b, Aff)):
        return None
    both_int = (isinstance(a, Aff) and a.kind == 'int' or isinstance(a, Const) and isinstance(a.value, int)) and \
               (isinstance(b, Aff) and b.kind == 'int' or isinstance(b, Const) and isinstance(b.value, int))
    kinds = tuple('num' if kk == 'int' else kk for kk in (x.kind, y.kind))
    if name in ('add', 'sub'):
        sign = 1 if name == 'add' else -1
        if kinds == ('num', 'num'):
            kind = 'int' if both_int else 'num'
        elif kinds == ('dt', 'td') or (kinds == ('td', 'dt') and name == 'add'):
            kind = 'dt'
        elif kinds == ('dt', 'dt') and name == 'sub':
            kind = 'td'
        elif kinds == ('td', 'td'):
            kind = 'td'
        else:
            raise Raised(Exc('TypeError', 'unsupported operand kinds %s %s' % kinds))
        return Aff(_lin(x.coeffs, 1, y.coeffs, sign), x.const + sign * y.const, kind)
    if name == 'mul':
        if kinds == ('num', 'num') or 'td' in kinds and 'num' in kinds:
            kind = 'td' if 'td' in kinds else ('int' if both_int else 'num')
            if x.is_const():
                return Aff(_lin(y.coeffs, x.const, {}, 0), y.const * x.const, kind)
            if y.is_const():
                return Aff(_lin(x.coeffs, y.const, {}, 0), x.const * y.const, kind)
            return None
        raise Raised(Exc('TypeError', 'unsupported operand kinds %s %s' % kinds))
    if name == 'truediv':
        if kinds[1] == 'num' and y.is_const() and kinds[0] in ('num', 'td'):
            if y.const == 0:
                raise Raised(Exc('ZeroDivisionError'))
            return Aff(_lin(x.coeffs, 1 / y.const, {}, 0), x.const / y.const, 'num' if kinds[0] == 'num' else 'td')
        return None
    if name in ('floordiv', 'mod') and y.is_const() and kinds == ('num', 'num') and y.const > 0 and y.const.denominator == 1 and \
            all((cf / y.const).denominator == 1 for cf in x.coeffs.values()) and x.const.denominator == 1 and both_int:
        kq = int(y.const)
        r0 = int(x.const)
        if name == 'floordiv':
            return Aff(dict((v, cf / kq) for v, cf in x.coeffs.items()), r0 // kq, 'int')
        return Aff({}, r0 % kq, 'int')
    return None     # not expressible as a linear form: the caller falls back to an uninterpreted atom


def aff_compare(interp, name, a, b, text):
    x, y = _aff_of(a), _aff_of(b)
    if x is None or y is None or not (isinstance(a, Aff) or isinstance(b, Aff)):
        return None
    kx = 'num' if x.kind == 'int' else x.kind
    ky = 'num' if y.kind == 'int' else y.kind
    if kx != ky:
        if name in ('eq', 'ne'):
            return Const(name == 'ne')
        raise Raised(Exc('TypeError', 'cannot order %s and %s' % (x.kind, y.kind)))
    dc, d0 = _lin(x.coeffs, 1, y.coeffs, -1), x.const - y.const
    if not dc:
        return Const(CMP_PY[name](d0, 0))
    if len(dc) == 1 and list(dc)[0].startswith('trunc:') and d0.denominator == 1 and abs(list(dc.values())[0]) == 1:
        # trunc(v) <op> c  with integer c, restated on the real variable v:  trunc(v) < c  <=>  v < c (c > 0) | v <= c - 1 (c <= 0)
        var = list(dc)[0][6:]
        sgn = list(dc.values())[0]
        cst = -d0 * sgn                     # trunc(v) <op'> cst
        op = name if sgn == 1 else CMP_REFLECT[name]
        if op in ('le',):
            op, cst = 'lt', cst + 1
        if op in ('gt',):
            op, cst = 'ge', cst + 1
        if op == 'lt':
            real_op, bound = ('lt', cst) if cst > 0 else ('le', cst - 1)
            sub = AffCmp(real_op, {var: 1}, -bound)
            return Const(interp.decide('%r' % (sub,), [True, False], sub))
        if op == 'ge':
            real_op, bound = ('ge', cst) if cst > 0 else ('gt', cst - 1)
            sub = AffCmp(real_op, {var: 1}, -bound)
            return Const(interp.decide('%r' % (sub,), [True, False], sub))
    sub = AffCmp(name, dc, d0)
    return Const(interp.decide('%r' % (sub,), [True, False], sub))


def _aff_norm(r):
    if isinstance(r, Aff) and not r.coeffs and r.kind in ('int', 'num'):
        if r.kind == 'int' and r.const.denominator == 1:
            return Const(int(r.const))
        if r.kind == 'num':
            return Const(int(r.const) if r.const.denominator == 1 else float(r.const))
    return r


def arith(interp, name, a, b):
    # a python bool in arithmetic with a number is the integer 0 / 1
    if isinstance(a, Const) and isinstance(a.value, bool) and (isinstance(b, Aff) or b.tag in ('int', 'float')) and name in BIN_DUNDER:
        a = Const(int(a.value))
    if isinstance(b, Const) and isinstance(b.value, bool) and (isinstance(a, Aff) or a.tag in ('int', 'float')) and name in BIN_DUNDER:
        b = Const(int(b.value))
    r = aff_arith(interp, name, a, b)
    if r is not None:
        return _aff_norm(r)
    # dunder dispatch on package objects (forward, then reflected)
    if name in BIN_DUNDER:
        fwd, ref = BIN_DUNDER[name]
        if isinstance(a, Obj):
            m = interp.get_method(a, fwd)
            if m is not None:
                return interp.call(m, [b])
        if isinstance(b, Obj):
            m = interp.get_method(b, ref)
            if m is not None:
                return interp.call(m, [a])
        if isinstance(a, Obj) or isinstance(b, Obj):
            raise Raised(Exc('TypeError', 'unsupported operand'))
    if isinstance(a, Const) and isinstance(b, Const):
        try:
            r = BIN_PY[name](a.value, b.value)
            if isinstance(r, (int, float, str, bool, complex)) and not (isinstance(r, int) and abs(r) > 10 ** 40):
                return Const(r)
        except ZeroDivisionError:
            raise Raised(Exc('ZeroDivisionError'))
        except TypeError:
            raise Raised(Exc('TypeError', 'unsupported operand'))
        except (OverflowError, ValueError):
            raise Raised(Exc('OverflowError'))
    ka, kb = kind_of(a), kind_of(b)
    # sets of fully known members
    if isinstance(a, ListV) and isinstance(b, ListV) and a.kind == 'set' and b.kind == 'set' and name in ('sub', 'or', 'and', 'xor', 'bitor', 'bitand', 'bitxor') \
            and not a.has_splice() and not b.has_splice() and all(is_concrete(i) for i in a.items + b.items):
        ka_, kb_ = [k(i) for i in a.items], [k(i) for i in b.items]
        if name == 'sub':
            return ListV([i for i in a.items if k(i) not in kb_], 'set')
        if name in ('and', 'bitand'):
            return ListV([i for i in a.items if k(i) in kb_], 'set')
        if name in ('or', 'bitor'):
            return ListV(list(a.items) + [i for i in b.items if k(i) not in ka_], 'set')
        return ListV([i for i in a.items if k(i) not in kb_] + [i for i in b.items if k(i) not in ka_], 'set')
    # sequences
    if name == 'add' and isinstance(a, ListV) and isinstance(b, ListV) and a.kind == b.kind:
        return ListV(a.items + b.items, a.kind)
    if name == 'mul' and isinstance(a, ListV) and isinstance(b, Const) and isinstance(b.value, int):
        return ListV(a.items * b.value, a.kind)
    if name == 'add' and ka == 'str' and kb == 'str':
        return Atom('concat', [a, b], 'str')
    if name == 'mul' and ka == 'str' and kb == 'num':
        return Atom('repeat', [a, b], 'str')
    if name == 'mod' and ka == 'str':
        if isinstance(a, Const) and (isinstance(b, Const) or (isinstance(b, ListV) and b.kind == 'tuple' and all(isinstance(i, Const) for i in b.items))):
            try:        # constant folding of %-formatting on constants
                return Const(a.value % (b.value if isinstance(b, Const) else tuple(i.value for i in b.items)))
            except (TypeError, ValueError) as e_:
                raise Raised(Exc(type(e_).__name__, str(e_)))
        return Atom('format', [a, b], 'str')
    if name == 'add' and ka in ('list', 'tuple') and kb == ka:
        return Sym(ka, 'concat(%r,%r)' % (a, b))
    if ka == 'num' and kb == 'num':
        if name in ('truediv', 'floordiv', 'mod'):
            if isinstance(b, Const) and b.value == 0:
                raise Raised(Exc('ZeroDivisionError'))
            if not isinstance(b, Const) and getattr(interp, 'zero_division_forks', False):
                if interp.decide('%r == 0' % (b,), [False, True]):
                    raise Raised(Exc('ZeroDivisionError'))
        tag = 'float' if (name == 'truediv' or 'float' in (a.tag, b.tag)) else ('complex' if 'complex' in (a.tag, b.tag) else 'int')
        if 'complex' in (a.tag, b.tag):
            tag = 'complex'
        if name == 'pow' and tag == 'float' and b.tag == 'float' and not isinstance(a, Const) and getattr(interp, 'pow_complex_forks', False):
            # python 3: a negative base with a non-integral exponent gives a complex number, not an exception
            if interp.decide('%r ** %r is complex (negative base, fractional exponent)' % (a, b), [False, True]):
                return Atom(name, [a, b], 'complex')
        return Atom(name, [a, b], tag)
    if ka in ('datetime',) and kb in ('datetime',) and name == 'sub':
        return Atom('timedelta', [a, b], 'timedelta')
    if ka is None or kb is None:
        if (isinstance(a, Top) and a.ignorance) or (isinstance(b, Top) and b.ignorance):
            interp.imprecise('arithmetic on unmodelled value')
        # the operation may succeed or raise TypeError depending on the unknown operand
        if interp.decide('%s(%r, %r) is defined' % (name, a, b), [True, False]):
            return Atom(name, [a, b], None)
        raise Raised(Exc('TypeError', 'unsupported operand'))
    if a.tag == 'timedelta' or b.tag == 'timedelta' or (ka == 'datetime' and b.tag == 'timedelta'):
        return Atom(name, [a, b], 'datetime' if ka == 'datetime' else 'timedelta')
    raise Raised(Exc('TypeError', 'unsupported operand type(s) for %s: %s and %s' % (name, a.tag, b.tag)))


def unaryop(interp, op, v):
    if isinstance(op, ast.USub):
        if isinstance(v, Obj):
            m = interp.get_method(v, '__neg__')
            if m is not None:
                return interp.call(m, [])
            raise Raised(Exc('TypeError', 'bad operand type for unary -'))
        if isinstance(v, Const) and isinstance(v.value, (int, float, complex)):
            return Const(-v.value)
        if isinstance(v, Aff) and v.kind in ('num', 'int', 'td'):
            return Aff(dict((a, -b) for a, b in v.coeffs.items()), -v.const, v.kind)
        if v.tag in NUMERIC:
            return Atom('neg', [v], 'int' if v.tag == 'bool' else v.tag)
        if v.tag is None:
            if isinstance(v, Top) and v.ignorance:
                interp.imprecise('negation of unmodelled value')
            if interp.decide('neg(%r) is defined' % (v,), [True, False]):
                return Atom('neg', [v], None)
            raise Raised(Exc('TypeError', 'bad operand type for unary -'))
        raise Raised(Exc('TypeError', 'bad operand type for unary -: %s' % v.tag))
    if isinstance(op, ast.UAdd):
        return v
    if isinstance(op, ast.Invert):
        return Atom('invert', [v], 'int')
    raise Unmodelled('unary operator')


# ---------------------------------------------------------------------------------------------------
# iteration / indexing

def iter_items_tail(interp, v):
    """(items, tail exception or None) of iterating ``v`` completely."""
    if isinstance(v, ListV):
        return list(v.items), None
    if isinstance(v, GenV):
        items = v.items[v.pos:]
        v.pos = len(v.items)
        tail = v.tail
        v.tail = None
        return items, tail
    if isinstance(v, DictV):
        return [a for a, b in v.pairs], None
    if isinstance(v, Obj) and getattr(v, 'nt_fields', None):
        return [v.attrs[f] for f in v.nt_fields], None
    if isinstance(v, Const) and isinstance(v.value, str):
        return [Const(c) for c in v.value], None
    if isinstance(v, Const) and isinstance(v.value, (tuple, list)):
        return [Const(c) for c in v.value], None
    if v.tag in ('list', 'tuple', 'str', 'gen', None, 'dict'):
        name = getattr(v, 'name', None) or repr(v)
        if v.tag is None:
            if isinstance(v, Top) and v.ignorance:
                interp.imprecise('iteration over unmodelled value')
        return [Splice('items(%s)' % name)], None
    raise Raised(Exc('TypeError', '%s object is not iterable' % v.tag))


def iter_items(interp, v):
    items, tail = iter_items_tail(interp, v)
    if tail is not None:
        raise Raised(tail)
    return items


def min_len(v):
    """A lower bound on the length of a text value: hex()/bin()/oct() give a two-character prefix and at least one digit."""
    if isinstance(v, Const) and isinstance(v.value, str):
        return len(v.value)
    if isinstance(v, Atom):
        if v.op in ('hex', 'bin', 'oct') and len(v.args) == 1:
            return 3 + (1 if False else 0)
        if v.op == 'format' and len(v.args) == 2 and isinstance(v.args[0], Const) and v.args[0].value in ('%X', '%x', '%o', '%d', '%i'):
            return 1
        if v.op == 'slice' and len(v.args) == 4:
            base, lo, hi, st = v.args
            none = lambda x: x is None or (isinstance(x, Const) and x.value is None)
            if none(hi) and none(st) and isinstance(lo, Const) and isinstance(lo.value, int) and lo.value >= 0:
                return max(0, min_len(base) - lo.value)
            return 0
        if v.op in ('upper', 'lower', 'swapcase') and v.args:
            return min_len(v.args[0])
        if v.op == 'concat':
            return sum(min_len(a) for a in v.args)
    return 0


def index_value(interp, base, idx):
    if isinstance(idx, Aff):
        interp.state.events.append(('subscript', base, idx, list(interp.state.notes)))
    if isinstance(base, DictV):
        r = base.lookup(idx)
        if r is not None:
            return r
        if base.default == 'list':
            r = ListV([])
            base.store(idx, r)
            return r
        if isinstance(idx, (Sym, Atom)) and idx.tag in ('str', None) and base.pairs and all(isinstance(p[0], Const) for p in base.pairs):
            alts = ['<missing>'] + [repr(p[0]) for p in base.pairs]
            c = interp.decide('%r is key' % (idx,), alts, ('dict-key', idx))
            if c == '<missing>':
                raise Raised(Exc('KeyError', repr(idx)))
            for p in base.pairs:
                if repr(p[0]) == c:
                    return p[1]
        if isinstance(idx, (Sym, Atom, Top)):
            interp.imprecise('dict lookup with unknown key')
            return Top('dict item')
        raise Raised(Exc('KeyError', repr(idx)))
    if isinstance(base, Obj) and getattr(base, 'nt_fields', None) and isinstance(idx, Const) and isinstance(idx.value, int):
        if -len(base.nt_fields) <= idx.value < len(base.nt_fields):
            return base.attrs[base.nt_fields[idx.value]]
        raise Raised(Exc('IndexError', 'tuple index out of range'))
    if isinstance(base, ListV):
        if isinstance(idx, Const) and isinstance(idx.value, int) and not isinstance(idx.value, bool):
            i = idx.value
            if base.has_splice():
                # positions before the first splice (from the left) / after the last (from the right) are known
                if i >= 0:
                    head = []
                    for it in base.items:
                        if isinstance(it, Splice):
                            break
                        head.append(it)
                    if i < len(head):
                        return head[i]
                else:
                    tailp = []
                    for it in reversed(base.items):
                        if isinstance(it, Splice):
                            break
                        tailp.append(it)
                    if -i <= len(tailp):
                        return tailp[-i - 1]
                return Top('element of a run of unknown length', ignorance=False)
            if -len(base.items) <= i < len(base.items):
                return base.items[i]
            raise Raised(Exc('IndexError', 'list index out of range'))
        if idx.tag in NUMERIC or idx.tag is None:
            # unknown position: may be any element or out of range
            if interp.decide('index %r within %r' % (idx, base), [True, False]):
                return Atom('item', [base, idx], None)
            raise Raised(Exc('IndexError', 'list index out of range'))
        raise Raised(Exc('TypeError', 'list indices must be integers'))
    if isinstance(base, Obj):
        m = interp.get_method(base, '__getitem__')
        if m is not None:
            return interp.call(m, [idx])
        raise Raised(Exc('TypeError', 'not subscriptable'))
    if isinstance(base, Const) and isinstance(base.value, str) and isinstance(idx, Const) and isinstance(idx.value, int):
        try:
            return Const(base.value[idx.value])
        except IndexError:
            raise Raised(Exc('IndexError'))
    if base.tag in ('str',):
        ml = min_len(base)
        if isinstance(idx, Const) and isinstance(idx.value, int) and not isinstance(idx.value, bool) and -ml <= idx.value < ml:
            return Atom('char', [base, idx], 'str')     # inside the part of the text that is known to exist
        if interp.decide('index %r within %r' % (idx, base), [True, False]):
            return Atom('char', [base, idx], 'str')
        raise Raised(Exc('IndexError'))
    if base.tag in ('list', 'tuple'):
        if (idx.tag not in NUMERIC and idx.tag is not None) or idx.tag in ('float', 'complex'):
            raise Raised(Exc('TypeError', 'indices must be integers'))
        if interp.decide('index %r within %r' % (idx, base), [True, False]):
            return Atom('item', [base, idx], None)
        raise Raised(Exc('IndexError'))
    if base.tag is None:
        if isinstance(base, Top) and base.ignorance:
            interp.imprecise('subscript of unmodelled value')
        if interp.decide('%r[%r] is defined' % (base, idx), [True, False]):
            return Atom('item', [base, idx], None)
        raise Raised(Exc('TypeError', 'not subscriptable'))
    raise Raised(Exc('TypeError', '%s is not subscriptable' % base.tag))


def slice_value(interp, base, lo, hi, st):
    if isinstance(lo, Aff) or isinstance(hi, Aff):
        interp.state.events.append(('slice', base, lo, hi, list(interp.state.notes)))
    def cint(x):
        return x.value if isinstance(x, Const) and (x.value is None or isinstance(x.value, int)) else 'sym'
    for x in (lo, hi, st):
        # a float, a text ... is no slice index (2.0 is not 2 here)
        if x is not None and ((isinstance(x, Const) and x.value is not None and not isinstance(x.value, int)) or
                              (not isinstance(x, Const) and x.tag in ('float', 'str', 'list', 'tuple'))):
            if base.tag in ('str', 'list', 'tuple') or isinstance(base, ListV):
                raise Raised(Exc('TypeError', 'slice indices must be integers or None or have an __index__ method'))
    l, h, s = (None if lo is None else cint(lo)), (None if hi is None else cint(hi)), (None if st is None else cint(st))
    if isinstance(base, ListV) and 'sym' not in (l, h, s) and not base.has_splice():
        return ListV(base.items[l:h:s], base.kind)
    if isinstance(base, Const) and isinstance(base.value, str) and 'sym' not in (l, h, s):
        return Const(base.value[l:h:s])
    if isinstance(base, ListV) and base.has_splice() and s in (None, 1) and h is None and isinstance(l, int) and l >= 0:
        head = []
        for it in base.items:
            if isinstance(it, Splice):
                break
            head.append(it)
        if l <= len(head):
            return ListV(base.items[l:], base.kind)
    if base.tag in ('str',):
        return Atom('slice', [base, lo or Const(None), hi or Const(None), st or Const(None)], 'str')
    if base.tag in ('list', 'tuple'):
        return Sym(base.tag, 'slice(%r,%r,%r,%r)' % (base, lo, hi, st))
    if base.tag is None:
        if isinstance(base, Top) and base.ignorance:
            interp.imprecise('slice of unmodelled value')
        return Top('slice', ignorance=False)
    raise Raised(Exc('TypeError', '%s is not subscriptable' % base.tag))


def value_attr(interp, base, attr):
    """Attribute of a non-package value."""
    tag = base.tag
    if tag in ('datetime', 'date') and attr in ('year', 'month', 'day', 'hour', 'minute', 'second', 'microsecond'):
        if isinstance(base, Aff) and base.kind == 'dt' and not base.coeffs:
            # a constant date-time (seconds since 1970-01-01): its fields are constants
            import datetime as _dtm
            try:
                whole = base.const.numerator // base.const.denominator
                micro = int((base.const - whole) * 10 ** 6)
                return Const(getattr(_dtm.datetime(1970, 1, 1) + _dtm.timedelta(seconds=whole, microseconds=micro), attr))
            except (OverflowError, ValueError):
                pass
        return Atom(attr, [base], 'int')
    if tag == 'complex' and attr in ('real', 'imag'):
        return Atom(attr, [base], 'float')
    if tag == 'err' and attr == 'args' and isinstance(base, Err) and base.message is not None:
        return ListV([Const(base.message)], 'tuple')
    if attr == '__class__':
        return type_of(interp, base)
    if isinstance(base, (RegexV,)) or (isinstance(base, Atom) and base.op == 're.compile'):
        if attr in ('match', 'search', 'fullmatch'):
            # the bound method as a value (returned or stored, called later)
            nm = 'hx:regex.%s:%d' % (attr, len(interp.extern))
            interp.extern[nm] = lambda it, args, kwargs, base=base, attr=attr: call_method(it, base, attr, args, kwargs)
            return Builtin(nm)
    if isinstance(base, (ListV, DictV)) and attr in ('append', 'extend', 'insert', 'pop', 'remove', 'clear', 'get', 'setdefault', 'update',
                                                     'appendleft', 'popleft', 'add', 'discard', '__setitem__', '__getitem__', 'index', 'count',
                                                     'items', 'keys', 'values', 'sort', 'reverse', 'copy'):
        # the bound method as a value (handed to a listener as the answer callback, kept in a local): calling it acts on this very object
        nm = 'hx:bound.%s:%d' % (attr, len(interp.extern))
        interp.extern[nm] = lambda it, args, kwargs, base=base, attr=attr: call_method(it, base, attr, args, kwargs)
        return Builtin(nm)
    if tag == 'err' and attr == 'args':
        # an error value stands for one of the module-level singletons, each built from exactly one message
        return ListV([Atom('message', [base], 'str')], 'tuple')
    if tag == 'err' and attr in ('message',):
        return Top('exception attribute', ignorance=False)
    if tag == 'err':
        # what the error class itself defines: a read-only property, a method, a class constant
        for m_, c_ in interp.model.find_class('XLError'):
            lp = interp.model.lookup_property(m_, c_, attr)
            if lp:
                return interp.call(Func(lp[0], lp[2]), [base])
            lm = interp.model.lookup_method(m_, c_, attr)
            if lm:
                return Bound(base, Func(lm[0], lm[2]))
            ca = interp.model.class_attr(m_, c_, attr)
            if ca is not None and isinstance(ca[2], ast.Constant):
                return Const(ca[2].value)
    if isinstance(base, Exc):
        return Top('exception attribute', ignorance=False)
    if tag == 'timedelta' and attr in ('days', 'seconds', 'microseconds') and isinstance(base, Aff) and base.kind == 'td' and not base.coeffs:
        import datetime as _dtm     # a constant duration: its normalised fields are constants
        whole = base.const.numerator // base.const.denominator
        td = _dtm.timedelta(seconds=whole, microseconds=int((base.const - whole) * 10 ** 6))
        return Const(getattr(td, attr))
    if tag == 'timedelta' and attr in ('days', 'seconds'):
        return Atom(attr, [base], 'int')
    if tag in ('datetime', 'date') and attr in ('tzinfo', 'fold'):
        return Atom(attr, [base], None)         # None or a tzinfo object: undetermined for a parsed text
    if tag in ('datetime', 'date', 'str', 'int', 'float', 'complex', 'num', 'bool', 'list', 'tuple', 'dict'):
        import datetime as _dt
        host = {'datetime': (_dt.datetime,), 'date': (_dt.date,), 'str': (str,), 'int': (int,), 'float': (float,), 'complex': (complex,),
                'num': (int, float), 'bool': (bool,), 'list': (list,), 'tuple': (tuple,), 'dict': (dict,)}[tag]
        if any(hasattr(h_, attr) for h_ in host):
            raise Unmodelled('%s attribute %s' % (tag, attr))
    if tag is None:
        if isinstance(base, Top) and base.ignorance:
            interp.imprecise('attribute %s of unmodelled value' % attr)
        return Top('attribute %s' % attr, ignorance=isinstance(base, Top) and base.ignorance)
    raise Raised(Exc('AttributeError', "'%s' object has no attribute '%s'" % (tag, attr)))


# ---------------------------------------------------------------------------------------------------
# str()

def to_str(interp, v):
    if isinstance(v, Const):
        return Const(str(v.value))
    if isinstance(v, Err):
        return Const(v.message) if v.message is not None else Atom('str', [v], 'str')
    if v.tag == 'str':
        return v
    if v.tag == 'none':
        return Const('None')
    if isinstance(v, ListV):
        return Atom('str', [v], 'str')
    if isinstance(v, Obj):
        m = interp.get_method(v, '__str__') or interp.get_method(v, '__repr__')
        if m is not None:
            return interp.call(m, [])
    return Atom('str', [v], 'str')


# ---------------------------------------------------------------------------------------------------
# builtin functions

def call_type(interp, name, args, kwargs):
    if name == 'str':
        return to_str(interp, args[0]) if args else Const('')
    if name == 'bool':
        return Const(interp.truth(args[0], 'bool(%r)' % (args[0],))) if args else Const(False)
    if name in ('int', 'float') and args and isinstance(args[0], Aff) and args[0].kind in ('int', 'num'):
        a = args[0]
        if name == 'int' and a.kind != 'int':
            if len(a.coeffs) == 1 and list(a.coeffs.values())[0] == 1 and a.const == 0:
                # int(x) of a real variable x: a new integer variable trunc:x; comparisons with integer constants are
                # translated back to x (aff_compare), bounds are derived from those of x (abshelp.int_min)
                return Aff(1, 0, 'int', 'trunc:' + list(a.coeffs)[0])
            raise Unmodelled('int() of a non-integral affine form')
        return Aff(dict(a.coeffs), a.const, 'int' if name == 'int' else 'num')
    if name in ('int', 'float', 'complex'):
        if not args:
            return Const({'int': 0, 'float': 0.0, 'complex': 0j}[name])
        a = args[0]
        if isinstance(a, Const):
            try:
                if name == 'int' and len(args) == 2 and isinstance(args[1], Const):
                    return Const(int(a.value, args[1].value))
                return Const({'int': int, 'float': float, 'complex': complex}[name](a.value))
            except (ValueError, OverflowError):
                raise Raised(Exc('ValueError'))
            except TypeError:
                raise Raised(Exc('TypeError'))
        if a.tag in NUMERIC and a.tag != 'complex':
            return Atom(name, [a], name)
        if a.tag == 'str':
            if interp.decide('%s(%r) parses' % (name, a), [True, False]):
                if name == 'int' and len(args) == 2 and getattr(interp, 'radix_parse_symbol', None):
                    return Aff(1, 0, 'int', interp.radix_parse_symbol)      # the parsed integer as a symbolic variable
                if name == 'int' and len(args) == 1 and getattr(interp, 'int_parse_symbol', False) and isinstance(a, Sym):
                    return Aff(1, 0, 'int', a.name)     # the integer a text spells, as a symbolic variable named after the text
                return Atom(name, [a] + list(args[1:]), name)
            raise Raised(Exc('ValueError', 'invalid literal'))
        if a.tag is None:
            if isinstance(a, Top) and a.ignorance:
                interp.imprecise('%s() of unmodelled value' % name)
            alt = interp.decide('%s(%r)' % (name, a), ['ok', 'ValueError', 'TypeError'])
            if alt == 'ok':
                return Atom(name, [a], name)
            raise Raised(Exc(alt))
        raise Raised(Exc('TypeError', '%s() argument must be a string or a number, not %s' % (name, a.tag)))
    if name in ('list', 'tuple', 'set', 'frozenset'):
        kind = {'list': 'list', 'tuple': 'tuple', 'set': 'set', 'frozenset': 'set'}[name]
        if not args:
            return ListV([], kind)
        return ListV(iter_items(interp, args[0]), kind)
    if name == 'dict':
        if not args:
            return DictV([[Const(kk), vv] for kk, vv in kwargs.items()])
        if isinstance(args[0], DictV):
            return DictV([list(p) for p in args[0].pairs])
        items = iter_items(interp, args[0])
        d = DictV([])
        for i in items:
            if isinstance(i, ListV) and len(i.items) == 2:
                d.store(i.items[0], i.items[1])     # a repeated key keeps its first position and its last value
            else:
                interp.imprecise('dict() from items of unknown shape')
        return d
    if name == 'type':
        return type_of(interp, args[0])
    if name == 'object':
        return Obj(ClassV(None, ast.ClassDef(name='object', bases=[], keywords=[], body=[], decorator_list=[])), {})
    if name == 'datetime.datetime' and args and all(isinstance(a, Const) and isinstance(a.value, int) for a in args):
        import datetime as _dt
        try:
            d = _dt.datetime(*[a.value for a in args])
        except (ValueError, OverflowError):
            raise Raised(Exc('ValueError', 'date out of range'))
        from fractions import Fraction
        delta = d - _dt.datetime(1970, 1, 1)
        return Aff(0, Fraction(delta.days * 86400 + delta.seconds) + Fraction(delta.microseconds, 10 ** 6), 'dt')
    if name == 'datetime.timedelta' and not args and set(kwargs) <= set(['seconds', 'days', 'milliseconds', 'minutes', 'hours']) and \
            all(_aff_of(v) is not None for v in kwargs.values()):
        from fractions import Fraction
        scale = {'seconds': 1, 'days': 86400, 'milliseconds': Fraction(1, 1000), 'minutes': 60, 'hours': 3600}
        tot = Aff(0, 0, 'td')
        for kk, vv in kwargs.items():
            a = _aff_of(vv)
            tot = Aff(_lin(tot.coeffs, 1, a.coeffs, scale[kk]), tot.const + a.const * scale[kk], 'td')
        return tot
    if name == 'datetime.datetime':
        if not kwargs and len(args) in (6, 7):
            whole = _fields_of_one_datetime(ListV(list(args[:6]), 'tuple'), 6)
            if whole is not None:
                if len(args) == 7 and isinstance(args[6], Atom) and args[6].op == 'microsecond' and k(args[6].args[0]) == k(whole):
                    return whole            # rebuilt from all its own fields
                if len(args) == 6:
                    if isinstance(whole, Aff) and whole.kind == 'dt' and len(whole.coeffs) == 1 and list(whole.coeffs.values())[0] == 1 \
                            and whole.const.denominator == 1:
                        return Aff({'floor:' + list(whole.coeffs)[0]: 1}, whole.const, 'dt')
                    return Atom('whole-seconds', [whole], 'datetime')      # the same instant with the sub-second part dropped
        if all(a.tag in NUMERIC or a.tag is None for a in args):
            # constructor validates ranges
            interp.state.events.append(('datetime-ctor', list(args), list(interp.state.notes)))
            if interp.decide('datetime(%s) is a valid date' % ', '.join(repr(a) for a in args), [True, False]):
                return Atom('datetime', args, 'datetime')
            raise Raised(Exc('ValueError', 'date out of range'))
        raise Raised(Exc('TypeError', 'datetime() needs integers'))
    if name == 'datetime.timedelta':
        return Atom('timedelta', list(args) + list(kwargs.values()), 'timedelta')
    if name == 'datetime.date':
        return Atom('date', args, 'date')
    if name == 'datetime.time':
        return Atom('time', list(args) + list(kwargs.values()), 'time')
    raise Unmodelled('constructor %s' % name)


def _fields_of_one_datetime(v, n):
    """``v`` = (year(X), month(X), day(X), hour(X), minute(X), second(X), ...) for one date-time X: returns X, else None."""
    if not isinstance(v, ListV) or v.has_splice() or len(v.items) < n:
        return None
    names = ('year', 'month', 'day', 'hour', 'minute', 'second')[:n]
    x = None
    for f_, it in zip(names, v.items):
        if not (isinstance(it, Atom) and it.op == f_ and len(it.args) == 1):
            return None
        if x is None:
            x = it.args[0]
        elif k(x) != k(it.args[0]):
            return None
    return x


def small_sort(interp, items, kwargs):
    """Stable sort of at most three items whose order is decided by comparisons of their (key) values - each comparison a decision of
    the trace; None when the list is longer or of unknown shape."""
    if len(items) > 3 or any(isinstance(i, Splice) for i in items):
        return None
    if set(kwargs) - set(['key', 'reverse']):
        return None
    keyf = kwargs.get('key')
    rev = kwargs.get('reverse', Const(False))
    if not isinstance(rev, Const):
        return None
    keys = [interp.call(keyf, [i]) if keyf is not None and not (isinstance(keyf, Const) and keyf.value is None) else i for i in items]
    out = []        # insertion sort: stable
    for it_, k_ in zip(items, keys):
        pos = len(out)
        for j, (o_, ok_) in enumerate(out):
            before = interp.truth(rich_compare(interp, 'lt' if not rev.value else 'gt', k_, ok_, 'sort'), 'sort: %r before %r' % (k_, ok_))
            if before:
                pos = j
                break
        out.insert(pos, (it_, k_))
    return [o_ for o_, _ in out]


def _drain(interp, v):
    """Consume an iterable completely (raising its tail)."""
    return iter_items(interp, v)


def call_builtin(interp, name, args, kwargs):
    short = name.split('.')[-1]
    if name == 'isinstance':
        return Const(isinstance_(interp, args[0], args[1], repr(args[0])))
    if name == 'len':
        a = args[0]
        if isinstance(a, ListV) and not a.has_splice():
            return Const(len(a.items))
        if isinstance(a, DictV):
            return Const(len(a.pairs))
        if isinstance(a, Const) and isinstance(a.value, str):
            return Const(len(a.value))
        if isinstance(a, Sym) and a.tag in ('str', 'list', 'tuple') and getattr(interp, 'len_as_variable', False):
            return Aff({'len(%s)' % a.name: 1}, 0, 'int')
        if a.tag in ('str', 'list', 'tuple', 'dict') or isinstance(a, ListV):
            return Atom('len', [a], 'int')
        if a.tag is None:
            if isinstance(a, Top) and a.ignorance:
                interp.imprecise('len of unmodelled value')
            if interp.decide('len(%r) is defined' % (a,), [True, False]):
                return Atom('len', [a], 'int')
            raise Raised(Exc('TypeError', 'object has no len()'))
        raise Raised(Exc('TypeError', 'object of type %s has no len()' % a.tag))
    if name in ('str', 'repr'):
        return to_str(interp, args[0])
    if name == 'abs':
        a = args[0]
        if isinstance(a, Const):
            return Const(abs(a.value))
        if a.tag in NUMERIC:
            return Atom('abs', [a], a.tag if a.tag != 'bool' else 'int')
        raise Raised(Exc('TypeError', 'bad operand type for abs()'))
    if name in ('all', 'any'):
        items, tail = iter_items_tail(interp, args[0])
        for it in items:
            if isinstance(it, Splice):
                interp.imprecise('%s() over a run of unknown length' % name)
                continue
            t = interp.truth(it, repr(it))
            if name == 'all' and not t:
                return Const(False)
            if name == 'any' and t:
                return Const(True)
        if tail is not None:
            raise Raised(tail)
        return Const(name == 'all')
    if name == 'sum':
        items = _drain(interp, args[0])
        acc = args[1] if len(args) > 1 else Const(0)
        for it in items:
            if isinstance(it, Splice):
                acc = Atom('sum', [acc, Sym('list', it.name)], None)
                continue
            acc = arith(interp, 'add', acc, it)
        return acc
    if name in ('min', 'max') and len(args) == 2 and (isinstance(args[0], Aff) or isinstance(args[1], Aff)) and \
            _aff_of(args[0]) is not None and _aff_of(args[1]) is not None:
        r = aff_compare(interp, 'ge', args[0], args[1], '%s(%r, %r)' % (name, args[0], args[1]))
        first_is_max = interp.truth(r)
        return args[0] if (first_is_max == (name == 'max')) else args[1]
    if name in ('min', 'max') and kwargs.get('key') is not None and not (isinstance(kwargs['key'], Const) and kwargs['key'].value is None) \
            and not (set(kwargs) - set(['key', 'default'])):
        # python's scan: the first item whose key is strictly smaller (larger) than every earlier one wins - ties keep the earlier item
        items = _drain(interp, args[0]) if len(args) == 1 else list(args)
        if items and len(items) <= 3 and not any(isinstance(i, Splice) for i in items):
            keys = [interp.call(kwargs['key'], [i]) for i in items]
            best, bkey = items[0], keys[0]
            for it_, k_ in zip(items[1:], keys[1:]):
                if interp.truth(rich_compare(interp, 'lt' if name == 'min' else 'gt', k_, bkey, name), '%s: %r beats %r' % (name, k_, bkey)):
                    best, bkey = it_, k_
            return best
    if name in ('min', 'max'):
        if len(args) == 1:
            items = _drain(interp, args[0])
            if not items:
                if 'default' in kwargs:
                    return kwargs['default']
                raise Raised(Exc('ValueError', '%s() arg is an empty sequence' % name))
        else:
            items = list(args)
        if len(items) == 1 and not isinstance(items[0], Splice):
            return items[0]
        if items and 'key' not in kwargs and all(isinstance(i, Const) and isinstance(i.value, (int, float)) and not isinstance(i.value, bool)
                                                 and i.value == i.value for i in items):
            return Const((min if name == 'min' else max)(i.value for i in items))      # constant folding
        return Atom(name, [i if not isinstance(i, Splice) else Sym('list', i.name) for i in items], None)
    if name == 'sorted':
        items = _drain(interp, args[0])
        if len(items) <= 1 and not any(isinstance(i, Splice) for i in items):
            return ListV(items)
        small = small_sort(interp, items, kwargs)
        if small is not None:
            return ListV(small)
        return Sym('list', 'sorted(%s)' % ', '.join(repr(i) for i in items))
    if name == 'reversed':
        items = _drain(interp, args[0])
        return GenV(list(reversed(items)))
    if name == 'range':
        for a in args:
            if (isinstance(a, Const) and not isinstance(a.value, int)) or (not isinstance(a, Const) and a.tag in ('float', 'str', 'none', 'list', 'tuple')):
                raise Raised(Exc('TypeError', "'%s' object cannot be interpreted as an integer" % (a.tag or type(getattr(a, 'value', None)).__name__)))
        if all(isinstance(a, Const) and isinstance(a.value, int) for a in args):
            r = range(*[a.value for a in args])
            if len(r) <= 1000:
                return ListV([Const(i) for i in r])
        return Sym('list', 'range(%s)' % ', '.join(repr(a) for a in args))
    if name == 'zip' and len(set(id(a) for a in args if isinstance(a, GenV))) < len([a for a in args if isinstance(a, GenV)]):
        # the same iterator given more than once (zip(it, it): consecutive pairs): the sources share their position
        sources = [a if isinstance(a, GenV) else GenV(iter_items(interp, a)) for a in args]
        if any(isinstance(i, Splice) for s_ in sources for i in s_.items[s_.pos:]):
            interp.imprecise('zip over a run of unknown length')
            return GenV([Splice('zip')])
        rows, tail = [], None
        while tail is None:
            row = []
            for s_ in sources:
                if s_.pos >= len(s_.items):
                    tail, s_.tail = s_.tail, None
                    row = None
                    break
                row.append(s_.items[s_.pos])
                s_.pos += 1
            if row is None:
                break
            rows.append(ListV(row, 'tuple'))
        return GenV(rows, tail)
    if name == 'zip':
        lists = [iter_items(interp, a) for a in args]
        if any(any(isinstance(i, Splice) for i in l) for l in lists):
            interp.imprecise('zip over a run of unknown length')
            return GenV([Splice('zip')])
        return GenV([ListV(list(t), 'tuple') for t in zip(*lists)])
    if name == 'map' and len(args) >= 2:
        lists = [iter_items(interp, a) for a in args[1:]]
        if any(any(isinstance(i, Splice) for i in l) for l in lists):
            if len(lists) == 1:
                # element-wise image of a run of unknown length: the same run, primed (as a comprehension over it)
                out = []
                for it_ in lists[0]:
                    out.append(Splice(it_.name + "'") if isinstance(it_, Splice) else interp.call(args[0], [it_]))
                interp.imprecise('map over a run of unknown length')
                return GenV(out)
            raise Unmodelled('map over several runs of unknown length')
        return GenV([interp.call(args[0], list(t)) for t in zip(*lists)])
    if name == 'filter' and len(args) == 2:
        items = iter_items(interp, args[1])
        if any(isinstance(i, Splice) for i in items):
            raise Unmodelled('filter over a run of unknown length')
        out = []
        for it_ in items:
            keep = interp.truth(it_, 'filter: %r' % (it_,)) if (isinstance(args[0], Const) and args[0].value is None) else \
                interp.truth(interp.call(args[0], [it_]), 'filter: %r' % (it_,))
            if keep:
                out.append(it_)
        return GenV(out)
    if name == 'enumerate':
        items = iter_items(interp, args[0])
        sv = args[1] if len(args) > 1 else kwargs.get('start', Const(0))
        if not (isinstance(sv, Const) and isinstance(sv.value, int)):
            raise Unmodelled('enumerate(start=%r)' % (sv,))
        start = sv.value
        out = []
        for i, it in enumerate(items):
            if isinstance(it, Splice):
                out.append(Splice('enum(%s)' % it.name))
                continue
            out.append(ListV([Const(i + start), it], 'tuple'))
        return GenV(out)
    if name == 'iter':
        items, tail = iter_items_tail(interp, args[0])
        return GenV(items, tail)
    if name == 'next':
        g = args[0]
        if isinstance(g, GenV):
            if g.pos < len(g.items):
                it = g.items[g.pos]
                if isinstance(it, Splice):
                    interp.imprecise('next() on a run of unknown length')
                    if interp.decide('run %s is exhausted' % it.name, [False, True]):
                        g.pos += 1
                        return call_builtin(interp, 'next', args, kwargs)
                    return Top('element of %s' % it.name, ignorance=False)
                g.pos += 1
                return it
            if g.tail is not None:
                t = g.tail
                g.tail = None
                raise Raised(t)
            if len(args) > 1:
                return args[1]
            raise Raised(Exc('StopIteration'))
        raise Unmodelled('next() on %r' % (g,))
    if name == 'itertools.groupby' and len(args) == 1 and not kwargs:
        # runs of consecutive equal items: (key, group) pairs; whether neighbours are equal is a decision per pair
        items, tail = iter_items_tail(interp, args[0])
        if any(isinstance(i, Splice) for i in items):
            raise Unmodelled('groupby over a run of unknown length')
        groups = []
        for it_ in items:
            if groups and interp.truth(rich_compare(interp, 'eq', groups[-1][0], it_, 'groupby'), 'groupby: %r == %r' % (groups[-1][0], it_)):
                groups[-1][1].append(it_)
            else:
                groups.append((it_, [it_]))
        return GenV([ListV([kk, GenV(list(gg), None)], 'tuple') for kk, gg in groups], tail)
    if name in ('itertools.product', 'itertools.permutations', 'itertools.combinations', 'itertools.combinations_with_replacement'):
        import itertools as _it
        pools = []
        for a in args:
            if name != 'itertools.product' and a is not args[0]:
                break
            items = iter_items(interp, a)
            if any(isinstance(i, Splice) for i in items):
                raise Unmodelled('%s over a run of unknown length' % name)
            pools.append(items)
        if name == 'itertools.product':
            rep = kwargs.get('repeat', Const(1))
            if not (isinstance(rep, Const) and isinstance(rep.value, int)):
                raise Unmodelled('product(repeat=?)')
            combos = _it.product(*pools, repeat=rep.value)
        else:
            r = args[1] if len(args) > 1 else kwargs.get('r', Const(len(pools[0])))
            if not (isinstance(r, Const) and isinstance(r.value, int)):
                raise Unmodelled('%s(r=?)' % name)
            combos = getattr(_it, name.split('.')[1])(pools[0], r.value)
        return GenV([ListV(list(c_), 'tuple') for c_ in combos], None)
    if name in ('itertools.chain',):
        out = []
        tail = None
        for a in args:
            items, t = iter_items_tail(interp, a)
            out.extend(items)
            if t is not None:
                tail = t
                break
        return GenV(out, tail)
    if name == 'getattr':
        if isinstance(args[1], Const):
            try:
                return interp.getattr(args[0], args[1].value)
            except Raised as r:
                if len(args) > 2 and isinstance(r.value, Exc) and r.value.cls == 'AttributeError':
                    return args[2]
                raise
        raise Unmodelled('getattr with non-constant name')
    if name == 'setattr' and len(args) == 3:
        if not (isinstance(args[1], Const) and isinstance(args[1].value, str)):
            raise Unmodelled('setattr with a non-constant name')
        tgt = args[0]
        if isinstance(tgt, (Obj, Func)):
            tgt.attrs[args[1].value] = args[2]
        elif isinstance(tgt, ClassV) and tgt.module is not None:
            interp.class_dynamic(tgt, run=False)[args[1].value] = args[2]
        else:
            raise Unmodelled('setattr on %r' % (tgt,))
        return Const(None)
    if name == 'hasattr':
        if isinstance(args[1], Const):
            try:
                interp.getattr(args[0], args[1].value)
                return Const(True)
            except Raised:
                return Const(False)
        raise Unmodelled('hasattr with non-constant name')
    if name in ('logging.getLogger', 'logging.Logger.getChild'):
        return Builtin('logging.Logger')        # its methods are logging.Logger.<name>: value-wise no-ops
    if name in ('logging.Logger.isEnabledFor', 'logging.Logger.getEffectiveLevel', 'logging.Logger.hasHandlers'):
        return Const(bool(interp.decide('logging is configured to emit this', [False, True])))
    if name == 'print' or name.startswith('traceback.') or name.startswith('logging.'):
        return Const(None)
    if name == 'callable':
        return Const(isinstance(args[0], (Func, Bound, Builtin, ClassV, TypeV)))
    if name == 'round':
        a = args[0]
        if a.tag in NUMERIC or a.tag is None:
            return Atom('round', args, 'int' if len(args) == 1 else a.tag)
        raise Raised(Exc('TypeError'))
    if name == 'ord' and isinstance(args[0], Const) and isinstance(args[0].value, str) and len(args[0].value) == 1:
        return Const(ord(args[0].value))
    if name == 'chr' and isinstance(args[0], Const) and isinstance(args[0].value, int) and 0 <= args[0].value < 0x110000:
        return Const(chr(args[0].value))
    if name in ('ord',):
        if args[0].tag in ('str', None):
            return Atom('ord', args, 'int')
        raise Raised(Exc('TypeError'))
    if name in ('chr',):
        if args[0].tag in NUMERIC or args[0].tag is None:
            return Atom('chr', args, 'str')
        raise Raised(Exc('TypeError'))
    if name in ('hex', 'bin', 'oct'):
        if len(args) == 1 and isinstance(args[0], Const):
            if isinstance(args[0].value, int):
                return Const({'hex': hex, 'bin': bin, 'oct': oct}[name](args[0].value))
            raise Raised(Exc('TypeError', '%s object cannot be interpreted as an integer' % type(args[0].value).__name__))
        return Atom(name, args, 'str')
    if name in ('divmod',):
        return ListV([binop(interp, ast.FloorDiv(), args[0], args[1]), binop(interp, ast.Mod(), args[0], args[1])], 'tuple')
    if name in ('functools.lru_cache', 'functools.cache', 'lru_cache', 'cache', 'functools.cached_property'):
        # value-wise the memoised function is the function (what a memo does to *outcomes over time* is the purity rules' business)
        if args and isinstance(args[0], (Func, Bound)):
            return args[0]
        interp.extern['hx:identity'] = lambda it, a, kw: a[0]
        return Builtin('hx:identity')
    if name == 'str.maketrans' and args and all(isinstance(a, Const) and isinstance(a.value, str) for a in args):
        tbl = str.maketrans(*[a.value for a in args])
        return DictV([[Const(kk), Const(vv)] for kk, vv in tbl.items()])
    if name in ('functools.partial', 'partial') and args:
        # a callable that prepends the frozen positional arguments and merges the frozen keywords
        nm = 'hx:partial:%d' % len(interp.extern)
        f0, a0, k0 = args[0], list(args[1:]), dict(kwargs)
        interp.extern[nm] = lambda it, a, kw: it.call(f0, a0 + list(a), dict(k0, **kw))
        return Builtin(nm)
    if name in ('functools.singledispatch', 'singledispatch') and len(args) == 1 and isinstance(args[0], Func):
        from .absint import DispatchV
        raw = Func(args[0].module, args[0].node, args[0].closure, args[0].name)
        raw.attrs['<raw>'] = True
        return DispatchV(raw)
    if name in ('functools.wraps', 'wraps', 'functools.update_wrapper'):
        # copies metadata only: the decorated function itself is what comes back
        if name == 'functools.update_wrapper':
            return args[0]
        interp.extern['hx:identity'] = lambda it, a, kw: a[0]
        return Builtin('hx:identity')
    if name in ('functools.reduce', 'reduce'):
        fn = args[0]
        items = _drain(interp, args[1])
        if any(isinstance(i, Splice) for i in items):
            interp.imprecise('reduce over a run of unknown length')
            return Top('reduce', ignorance=False)
        if len(args) > 2:
            acc = args[2]
        elif items:
            acc = items[0]
            items = items[1:]
        else:
            raise Raised(Exc('TypeError', 'reduce() of empty sequence with no initial value'))
        for it in items:
            acc = interp.call(fn, [acc, it])
        return acc
    if name.startswith('operator.'):
        o = name.split('.', 1)[1]
        if o in CMP_DUNDER:
            return rich_compare(interp, o, args[0], args[1], '%s(%r, %r)' % (o, args[0], args[1]))
        if o in ('add', 'sub', 'mul', 'truediv', 'floordiv', 'mod', 'pow'):
            return arith(interp, o, args[0], args[1])
        if o in ('neg',):
            return unaryop(interp, ast.USub(), args[0])
        if o in ('not_',):
            return Const(not interp.truth(args[0]))
        if o in ('attrgetter', 'itemgetter') and args and all(isinstance(a, Const) for a in args):
            names = [a.value for a in args]

            def getter(it, a2, kw, names=names, o=o):
                def one(nm):
                    if o == 'itemgetter':
                        return index_value(it, a2[0], Const(nm))
                    v = a2[0]
                    for part in nm.split('.'):
                        v = it.getattr(v, part)
                    return v
                vals = [one(nm) for nm in names]
                return vals[0] if len(vals) == 1 else ListV(vals, 'tuple')
            nm_ = 'hx:operator.%s:%d' % (o, len(interp.extern))
            interp.extern[nm_] = getter
            return Builtin(nm_)
        raise Unmodelled(name)
    if name in ('unicodedata.normalize', 'locale.strxfrm', 'str.casefold', 'str.lower', 'str.upper') and args:
        # a pure text transformation: an uninterpreted function of its arguments (folded on constants)
        if all(isinstance(a, Const) and isinstance(a.value, str) for a in args):
            import unicodedata as _ud
            if name == 'unicodedata.normalize':
                try:
                    return Const(_ud.normalize(args[0].value, args[1].value))
                except ValueError as e_:
                    raise Raised(Exc('ValueError', str(e_)))
            if name.startswith('str.'):
                return Const(getattr(str, short)(args[0].value))
        if args[-1].tag not in ('str', None):
            raise Raised(Exc('TypeError', 'argument must be str, not %s' % args[-1].tag))
        return Atom(name, list(args), 'str')
    if name == 'math.isclose' and len(args) == 2:
        for a in args:
            if a.tag is not None and (a.tag not in NUMERIC or a.tag == 'complex'):
                raise Raised(Exc('TypeError', 'must be real number, not %s' % a.tag))
        if all(isinstance(a, Const) for a in args) and not kwargs:
            import math as _math
            return Const(_math.isclose(args[0].value, args[1].value))
        # a comparison with a tolerance: an opaque decision, named so that the rules can tell it from an exact comparison
        return Atom('isclose', [args[0], args[1], kwargs.get('rel_tol', Const(1e-09)), kwargs.get('abs_tol', Const(0.0))], 'bool')
    if name in ('math.prod', 'math.fsum') and args:
        items = iter_items(interp, args[0])
        if any(isinstance(i, Splice) for i in items):
            raise Unmodelled('%s over a run of unknown length' % name)
        for i in items:
            if i.tag is not None and i.tag not in NUMERIC:
                raise Raised(Exc('TypeError', 'must be real number, not %s' % i.tag))
        if name == 'math.prod':
            acc = kwargs.get('start', args[1] if len(args) > 1 else Const(1))
            for i in items:
                acc = arith(interp, 'mul', acc, i)
            return acc
        acc = Const(0.0)
        for i in items:
            acc = arith(interp, 'add', acc, i)
        return acc if not isinstance(acc, Const) else Const(float(acc.value))
    if name == 'math.sumprod' and len(args) == 2:
        xs, ys = iter_items(interp, args[0]), iter_items(interp, args[1])
        if any(isinstance(i, Splice) for i in xs + ys):
            raise Unmodelled('math.sumprod over a run of unknown length')
        if len(xs) != len(ys):
            raise Raised(Exc('ValueError', 'Inputs are not the same length'))
        acc = Const(0)
        for x_, y_ in zip(xs, ys):
            acc = arith(interp, 'add', acc, arith(interp, 'mul', x_, y_))
        return acc
    if name.startswith('math.'):
        fn = name.split('.', 1)[1]
        for a in args:
            if a.tag is not None and (a.tag not in NUMERIC or a.tag == 'complex'):
                raise Raised(Exc('TypeError', 'must be real number, not %s' % a.tag))
        if fn in ('pi', 'e', 'inf', 'nan'):
            return Atom(fn, [], 'float')
        if args and all(isinstance(a, Const) and isinstance(a.value, (int, float)) for a in args):
            import math as _math
            try:
                return Const(getattr(_math, fn)(*[a.value for a in args]))     # constant folding of a pure stdlib function
            except (ValueError, OverflowError):
                raise Raised(Exc('ValueError', 'math domain error'))
            except (TypeError, AttributeError):
                pass
        if getattr(interp, 'math_domain_forks', False):
            if interp.decide('math.%s(%s) in domain' % (fn, ', '.join(repr(a) for a in args)), [True, False]) is False:
                raise Raised(Exc('ValueError', 'math domain error'))
        tag = 'int' if fn in ('floor', 'ceil', 'factorial', 'trunc', 'gcd') else ('bool' if fn in ('isnan', 'isinf', 'isfinite') else 'float')
        return Atom('math.' + fn, args, tag)
    if name.startswith('statistics.'):
        items = _drain(interp, args[0])
        return Atom(name, [i if not isinstance(i, Splice) else Sym('list', i.name) for i in items] + list(args[1:]), 'float')
    if name in ('random.SystemRandom', 'secrets.SystemRandom', 'random.Random') and not args:
        return Builtin('random')        # a generator object: its methods are the module's functions
    if name == 'secrets.randbelow' and len(args) == 1:
        return Atom('random.randrange', [Const(0), args[0]], 'int')      # an integer in [0, n)
    if name == 'secrets.choice' and len(args) == 1:
        return Atom('random.choice', args, None)
    if name.startswith('random.'):
        if short == 'randrange' and len(args) == 1:
            args = [Const(0), args[0]]
        return Atom(name, args, 'float' if short in ('random', 'uniform') else 'int')
    if name in ('calendar.timegm', 'time.mktime') and len(args) == 1 and _fields_of_one_datetime(args[0], 6) is not None:
        # whole seconds since 1970 of the (naive, UTC) date-time: the floor of its epoch seconds
        import math
        b = _fields_of_one_datetime(args[0], 6)
        if name == 'time.mktime':
            interp.imprecise('time.mktime depends on the local time zone')
        if isinstance(b, Aff) and b.kind == 'dt':
            if not b.coeffs:
                r_ = Const(math.floor(b.const))
                return r_ if name == 'calendar.timegm' else Const(float(r_.value))
            if len(b.coeffs) == 1 and list(b.coeffs.values())[0] == 1 and b.const.denominator == 1:
                return Aff({'floor:' + list(b.coeffs)[0]: 1}, b.const, 'int')
        return Atom('timegm', [b], 'int')
    if short == 'relativedelta' and name.startswith('dateutil') and len(args) == 2 and not kwargs and is_dt_record(args[0]) and is_dt_record(args[1]):
        # dateutil.relativedelta(later, earlier) on component records (the third-party algorithm, for later >= earlier and equal
        # times of day): whole months = 12*(y1-y2) + (m1-m2), minus one when  earlier + those months  - whose day is clamped to
        # the length of the target month - lies after later, i.e. when  d1 < min(d2, length of month m1 of year y1)
        import calendar as _cal
        later, earlier = args
        m1, m2 = later.attrs.get('month'), earlier.attrs.get('month')
        if not (isinstance(m1, Const) and isinstance(m2, Const)):
            raise Unmodelled('relativedelta with symbolic months')
        # only under an established  earlier < later  (the decision the caller took on the two date symbols)
        ns_, nl_ = getattr(earlier.attrs.get('<sym>'), 'name', None), getattr(later.attrs.get('<sym>'), 'name', None)
        ordered = any(alt is True and isinstance(s_, Atom) and s_.op in ('lt', 'le') and
                      [getattr(a_, 'name', None) for a_ in s_.args] == [ns_, nl_] for (t_, alt, s_) in interp.state.notes) or \
            any(alt is True and isinstance(s_, Atom) and s_.op in ('gt', 'ge') and
                [getattr(a_, 'name', None) for a_ in s_.args] == [nl_, ns_] for (t_, alt, s_) in interp.state.notes)
        if ns_ is None or nl_ is None or not ordered:
            raise Unmodelled('relativedelta of two dates whose order is not established')
        d1, d2 = later.attrs['day'], earlier.attrs['day']
        if m1.value == 2:
            y1 = later.attrs['year']
            if isinstance(y1, Const) and isinstance(y1.value, int):
                ml = 29 if _cal.isleap(y1.value) else 28
            else:
                ml = 29 if interp.decide('%r is a leap year' % (y1,), [False, True], ('leap', repr(y1))) else 28
        else:
            ml = _cal.monthrange(2001, m1.value)[1]
        borrow = 0
        if interp.truth(rich_compare(interp, 'lt', d1, d2, 'relativedelta: day of the later date before the day of the earlier'), 'relativedelta day'):
            if interp.truth(rich_compare(interp, 'lt', d1, Const(ml), 'relativedelta: later date not at the end of its month'), 'relativedelta month end'):
                borrow = 1
        c = m1.value - m2.value - borrow
        ydiff = arith(interp, 'sub', later.attrs['year'], earlier.attrs['year'])
        years = arith(interp, 'add', ydiff, Const(c // 12))
        rd = Obj(ClassV(None, ast.ClassDef(name='relativedelta', bases=[], keywords=[], body=[], decorator_list=[])),
                 {'years': years, 'months': Const(c % 12)})
        return rd
    if name in ('calendar.isleap', 'calendar.monthrange'):
        import calendar as _cal
        y = args[0]

        def leap():
            if isinstance(y, Const) and isinstance(y.value, int):
                return _cal.isleap(y.value)
            return interp.decide('%r is a leap year' % (y,), [False, True], ('leap', repr(y)))
        if short == 'isleap':
            return Const(bool(leap()))
        mo = args[1] if len(args) > 1 else None
        if not (isinstance(mo, Const) and isinstance(mo.value, int)):
            raise Unmodelled('calendar.monthrange with a symbolic month')
        if not 1 <= mo.value <= 12:
            raise Raised(Exc('calendar.IllegalMonthError', 'bad month number'))
        length = (29 if leap() else 28) if mo.value == 2 else _cal.monthrange(2001, mo.value)[1]
        return ListV([Atom('weekday-of-first', [y, mo], 'int'), Const(length)], 'tuple')
    if name in ('bisect.bisect', 'bisect.bisect_right', 'bisect.bisect_left') and len(args) >= 2 and not kwargs:
        seq = args[0]
        items = seq.items if isinstance(seq, ListV) else None
        if items is not None and all(isinstance(i, Const) and isinstance(i.value, (int, float, str)) and not isinstance(i.value, bool) for i in items) \
                and all(isinstance(a, Const) for a in args[1:]):
            import bisect as _bs        # constant folding of a pure stdlib function
            try:
                return Const(getattr(_bs, short)([i.value for i in items], *[a.value for a in args[1:]]))
            except TypeError:
                raise Raised(Exc('TypeError', 'unorderable'))
        raise Unmodelled('bisect on a symbolic sequence')
    if name == 'fnmatch.translate' and len(args) == 1 and isinstance(args[0], Const) and isinstance(args[0].value, str):
        import fnmatch as _fn           # constant folding of a pure stdlib function
        return Const(_fn.translate(args[0].value))
    if name in ('fnmatch.fnmatch', 'fnmatch.fnmatchcase'):
        for a in args[:2]:
            if a.tag is not None and a.tag != 'str':
                raise Raised(Exc('TypeError', 'expected str'))
        if len(args) == 2 and all(isinstance(a, Const) and isinstance(a.value, str) for a in args):
            import fnmatch as _fn           # constant folding of a pure stdlib function (posix: fnmatch == fnmatchcase)
            return Const(_fn.fnmatchcase(args[0].value, args[1].value))
        return Atom('fnmatch', args, 'bool')
    if name == 're.compile':
        if isinstance(args[0], Const) and isinstance(args[0].value, str):
            fl = args[1].value if len(args) > 1 and isinstance(args[1], Const) else 0
            return RegexV(args[0].value, fl if isinstance(fl, int) else 0)
        if args[0].tag == 'str':
            return Atom('re.compile', list(args), 'regex')       # a pattern built from a symbolic text
        return Top('regex', ignorance=False)
    if name == 're.escape':
        if isinstance(args[0], Const) and isinstance(args[0].value, str):
            import re as _re
            return Const(_re.escape(args[0].value))
        if args[0].tag not in ('str', None):
            raise Raised(Exc('TypeError', 'expected string'))
        return Atom('re.escape', [args[0]], 'str')
    if name in ('re.match', 're.search', 're.fullmatch') and isinstance(args[0], Const):
        return regex_method(interp, RegexV(args[0].value), short, args[1:], kwargs)
    if name in ('re.UNICODE', 're.IGNORECASE', 're.I', 're.U', 're.MULTILINE', 're.DOTALL'):
        import re as _re
        return Const(int(getattr(_re, short)))
    if name in ('re.sub', 're.subn', 're.split', 're.findall') and len(args) >= 2 and not (set(kwargs) - set(['count', 'flags', 'maxsplit'])) and \
            all(isinstance(a, Const) and isinstance(a.value, (str, int)) for a in list(args) + list(kwargs.values())):
        import re as _re        # constant folding of a pure stdlib function on constants
        try:
            r = getattr(_re, short)(*[a.value for a in args], **dict((kk, vv.value) for kk, vv in kwargs.items()))
        except _re.error:
            raise Raised(Exc('ValueError', 'bad regex'))
        except TypeError:
            raise Raised(Exc('TypeError', 're.%s' % short))
        if isinstance(r, str):
            return Const(r)
        if isinstance(r, list) and all(isinstance(x, str) for x in r):
            return ListV([Const(x) for x in r])
        if isinstance(r, tuple) and len(r) == 2 and isinstance(r[0], str):
            return ListV([Const(r[0]), Const(r[1])], 'tuple')
    if name.startswith('re.'):
        return Top('re result', ignorance=False)
    if short in EXC_BASES:
        return Exc(short)
    if name.startswith('datetime.'):
        return Atom(name, args, 'datetime')
    if name == 'dateutil.parser.parse':
        if args[0].tag in ('str', None):
            if interp.decide('dateutil parses %r' % (args[0],), [True, False]):
                return Atom('to_date', args, 'datetime')
            raise Raised(Exc('ValueError', 'unknown string format'))
        raise Raised(Exc('TypeError', 'Parser must be a string'))
    if name.startswith('collections.'):
        if short in ('deque',):
            return ListV(iter_items(interp, args[0]) if args else [], 'deque')
        if short == 'namedtuple':
            fields = ''
            if len(args) > 1:
                f = args[1]
                if isinstance(f, Const) and isinstance(f.value, str):
                    fields = ','.join(f.value.replace(',', ' ').split())
                elif isinstance(f, ListV) and all(isinstance(i, Const) for i in f.items):
                    fields = ','.join(str(i.value) for i in f.items)
            return Builtin('namedtuple:%s:%s' % ((args[0].value if isinstance(args[0], Const) else '?'), fields))
        if short == 'ChainMap':
            if args and isinstance(args[0], DictV):
                if len(args) == 1:
                    return args[0]          # same storage: a write through the view is a write to the mapping
                merged = DictV([list(p_) for p_ in args[0].pairs], default=args[0].default)
                for extra in args[1:]:
                    if isinstance(extra, DictV):
                        for kk, vv in extra.pairs:
                            if merged.lookup(kk) is None:
                                merged.store(kk, vv)
                interp.imprecise('ChainMap over several mappings (writes not tracked)')
                return merged
            if not args:
                return DictV([])
            interp.imprecise('ChainMap over an unmodelled mapping')
            return Top('ChainMap')
        if short == 'defaultdict':
            d_ = DictV([], default='list' if (args and isinstance(args[0], TypeV) and args[0].name == 'list') else None)
            if len(args) > 1:
                if not isinstance(args[1], DictV):
                    raise Unmodelled('defaultdict initialised from %r' % (args[1],))
                d_.pairs = [[a_, b_] for a_, b_ in args[1].pairs]       # the values are the same objects
            for kk_, vv_ in kwargs.items():
                d_.store(Const(kk_), vv_)
            return d_
    if name.startswith('namedtuple:'):
        parts = name.split(':')
        fields = [f for f in (parts[2] if len(parts) > 2 else '').split(',') if f]
        attrs = {}
        for f, a in zip(fields, args):
            attrs[f] = a
        attrs.update(kwargs)
        if fields and all(f in attrs for f in fields):
            attrs = dict((f, attrs[f]) for f in fields)     # field order = tuple order
        o = Obj(ClassV(None, ast.ClassDef(name=parts[1], bases=[], keywords=[], body=[], decorator_list=[])), attrs)
        o.nt_fields = fields if fields and all(f in attrs for f in fields) else None
        return o
    if name in ('copy.deepcopy', 'copy.copy') and args:
        return copy_value(interp, args[0], name == 'copy.deepcopy', {})
    if name in ('threading.local', 'types.SimpleNamespace', 'argparse.Namespace') and not args:
        # a bag of attributes (per thread: the interpreter runs one thread)
        return Obj(ClassV(None, ast.ClassDef(name=short, bases=[], keywords=[], body=[], decorator_list=[])), dict(kwargs))
    if name in ('threading.Lock', 'threading.RLock', 'threading.Semaphore', 'threading.BoundedSemaphore', 'multiprocessing.Lock',
                'multiprocessing.RLock', 'contextlib.nullcontext', 'contextlib.suppress') and name != 'contextlib.suppress':
        return Builtin('lock')
    if name in ('lock.acquire', 'lock.__enter__', 'lock.locked'):
        return Const(True)
    if name in ('lock.release', 'lock.__exit__'):
        return Const(None)
    if name in ('threading.get_ident', 'threading.current_thread', '_thread.get_ident'):
        return Atom('thread-id', [], 'int')
    if name in ('cmath.isnan', 'cmath.isinf', 'cmath.isfinite') and len(args) == 1:
        # accepts reals and complex numbers alike; for a real it is the math function
        if args[0].tag == 'complex':
            return Atom(name, args, 'bool')
        if args[0].tag is not None and args[0].tag not in NUMERIC:
            raise Raised(Exc('TypeError', 'must be real number, not %s' % args[0].tag))
        if isinstance(args[0], Const) and isinstance(args[0].value, (int, float, complex)) and not isinstance(args[0].value, bool):
            import cmath as _cmath
            return Const(getattr(_cmath, short)(args[0].value))
        return Atom('math.' + short, args, 'bool')
    if name in ('os.path.normcase', 'posixpath.normcase') and len(args) == 1:
        return args[0]          # POSIX: the text itself (trusted base: the checks model a POSIX host)
    if name.startswith('ply.'):
        return Top('ply object', ignorance=False)
    if name.startswith('os.'):
        return Top('os result', ignorance=False)
    if name == 'id' and len(args) == 1 and isinstance(args[0], (Obj, ListV, DictV)):
        # the identity of an object with identity: an opaque integer, one per object (objects may refer to each other in a circle)
        serial = interp.state.__dict__.setdefault('_ids', {})
        serial.setdefault(id(args[0]), len(serial) + 1)
        return Atom('id', [Const('object #%d' % serial[id(args[0])])], 'int')
    if name in ('id', 'hash'):
        return Atom(name, args, 'int')
    if name in ('globals', 'locals', 'vars') and not args:
        return DictV([])        # stores into it are bookkeeping of the defining module, not followed
    raise Unmodelled('builtin %s' % name)


# ---------------------------------------------------------------------------------------------------
# methods on abstract values

STR_TO_STR = set(['upper', 'lower', 'title', 'strip', 'lstrip', 'rstrip', 'replace', 'rjust', 'ljust', 'zfill', 'capitalize',
                  'swapcase', 'casefold', 'format', 'center', 'removesuffix', 'removeprefix', 'expandtabs', 'translate',
                  'format_map'])
STR_TO_BOOL = set(['startswith', 'endswith', 'isdigit', 'isalpha', 'isalnum', 'isspace', 'isupper', 'islower', 'isnumeric',
                   'isdecimal'])
STR_TO_INT = set(['find', 'rfind', 'count'])


def is_concrete(v, _depth=0):
    """A fully known value (constants, named singletons, functions, classes, enum members / records and tuples of them):
    two concrete values with different keys are different dictionary keys."""
    if isinstance(v, (Const, Err, Func, TypeV, ClassV, Builtin)):
        return True
    if _depth > 4:
        return False
    if isinstance(v, ListV) and v.kind == 'tuple' and not v.has_splice():
        return all(is_concrete(i, _depth + 1) for i in v.items)
    if isinstance(v, Obj) and v.attrs and v.cls.module is not None:
        return all(is_concrete(a, _depth + 1) for a in v.attrs.values())
    return False


def call_method(interp, base, attr, args, kwargs, text=''):
    if attr == '__class__':
        return interp.call(type_of(interp, base), args, kwargs)      # x.__class__(...) builds a new object of x's class
    if isinstance(base, ListV):
        return list_method(interp, base, attr, args, kwargs)
    if isinstance(base, DictV):
        if attr == 'get':
            r = base.lookup(args[0])
            if r is not None:
                return r
            # hash/equality lookup: a symbolic key may equal any stored key of a compatible kind
            arg = args[0]
            cands = []
            for p in base.pairs:
                kk = p[0]
                if isinstance(arg, Const) and isinstance(kk, Const):
                    continue
                if is_concrete(arg) and is_concrete(kk):
                    continue
                if isinstance(arg, (Err, Func, TypeV, ClassV, Builtin)) and isinstance(kk, (Err, Func, TypeV, ClassV, Builtin)):
                    continue        # distinct named objects
                ka, kb = kind_of(arg), kind_of(kk)
                if ka is not None and kb is not None and ka != kb:
                    continue
                if arg.tag == 'err' and kk.tag == 'err' and error_dunder(interp, '__eq__') is None and \
                        error_dunder(interp, '__hash__') is None:
                    if isinstance(arg, Sym) and isinstance(kk, Err):
                        cands.append(p)     # unknown which singleton
                    continue
                cands.append(p)
            if cands:
                alts = ['<default>'] + [repr(p[0]) for p in cands]
                c = interp.decide('%s hits' % (text or 'dict.get'), alts, ('dict-hit', arg, [p[0] for p in cands]))
                if c != '<default>':
                    for p in cands:
                        if repr(p[0]) == c:
                            return p[1]
            return args[1] if len(args) > 1 else Const(None)
        if attr in ('items',):
            return GenV([ListV([a, b], 'tuple') for a, b in base.pairs])
        if attr == 'values':
            return GenV([b for a, b in base.pairs])
        if attr == 'keys':
            return GenV([a for a, b in base.pairs])
        if attr == 'setdefault':
            r = base.lookup(args[0])
            if r is None:
                r = args[1] if len(args) > 1 else Const(None)
                base.store(args[0], r)
            return r
        if attr == 'pop':
            r = base.lookup(args[0])
            if r is None:
                if len(args) > 1:
                    return args[1]
                raise Raised(Exc('KeyError'))
            base.pairs = [p for p in base.pairs if k(p[0]) != k(args[0])]
            return r
        if attr == 'copy':
            return DictV([list(p) for p in base.pairs])
        if attr == 'update':
            if args and isinstance(args[0], DictV):
                for a, b in args[0].pairs:
                    base.store(a, b)
            elif args:
                # an iterable of (key, value) pairs
                for it_ in iter_items(interp, args[0]):
                    if isinstance(it_, Splice) or not (isinstance(it_, ListV) and not it_.has_splice() and len(it_.items) == 2):
                        raise Unmodelled('dict.update over items of unknown shape')
                    base.store(it_.items[0], it_.items[1])
            for kk, vv in kwargs.items():
                base.store(Const(kk), vv)
            return Const(None)
        raise Unmodelled('dict method %s' % attr)
    if isinstance(base, GenV):
        raise Unmodelled('generator method %s' % attr)
    if isinstance(base, RegexV):
        return regex_method(interp, base, attr, args, kwargs)
    if isinstance(base, Atom) and base.op == 're.compile' and attr in ('sub', 'subn'):
        return Atom('re.' + attr, [base.args[0]] + list(args), 'str')
    if isinstance(base, Atom) and base.op == 're.compile' and attr in ('match', 'search', 'fullmatch'):
        subj = args[0]
        if subj.tag is not None and subj.tag != 'str':
            raise Raised(Exc('TypeError', 'expected string or bytes-like object'))
        r = Atom('re.' + attr, [base.args[0], subj], 'match')
        if interp.decide('%r' % (r,), [True, False], r):
            return r
        return Const(None)
    if isinstance(base, MatchV):
        if attr == 'groups':
            dflt = args[0] if args else kwargs.get('default')
            if dflt is not None:
                # groups(default): a group that did not take part is reported as the default
                items = []
                for g_ in base.groups[1:]:
                    if isinstance(g_, Const) and g_.value is None:
                        items.append(dflt)
                    elif getattr(g_, 'optional', False):
                        interp.imprecise('groups(default) with an optional group of a symbolic match')
                        items.append(g_)
                    else:
                        items.append(g_)
                return ListV(items, 'tuple')
            return ListV(base.groups[1:], 'tuple')
        if attr == 'group':
            if not args:
                return base.groups[0]
            if len(args) > 1:
                return ListV([call_method(interp, base, 'group', [a], {}, text) for a in args], 'tuple')
            if isinstance(args[0], Const) and isinstance(args[0].value, int) and args[0].value < len(base.groups):
                return base.groups[args[0].value]
            if isinstance(args[0], Const) and args[0].value in base.names:
                return base.groups[base.names[args[0].value]]
            return Atom('group', [base, args[0]], None)
        if attr in ('start', 'end'):
            return Atom(attr, [base], 'int')
        raise Unmodelled('match method %s' % attr)
    tag = base.tag
    if tag == 'str':
        if attr == 'translate' and isinstance(base, Const) and len(args) == 1 and isinstance(args[0], DictV) and \
                all(isinstance(a_, Const) and isinstance(b_, Const) for a_, b_ in args[0].pairs):
            return Const(base.value.translate(dict((a_.value, b_.value) for a_, b_ in args[0].pairs)))
        if isinstance(base, Const) and all(isinstance(a, Const) for a in args) and not kwargs and not attr.startswith('_') and \
                callable(getattr(str, attr, None)) and attr not in ('format_map', 'maketrans', 'translate', 'encode'):
            # every str method is a pure function of its (immutable) receiver and arguments: evaluate it
            try:
                r = getattr(base.value, attr)(*[a.value for a in args])
                if isinstance(r, (list, tuple)) and all(isinstance(x, (str, int, bool)) for x in r):
                    return ListV([Const(x) for x in r], 'tuple' if isinstance(r, tuple) else 'list')
                if not isinstance(r, (str, int, bool)):
                    raise Unmodelled('str.%s result' % attr)
                return Const(r)
            except Unmodelled:
                raise
            except (ValueError, IndexError, KeyError) as e_:
                raise Raised(Exc(type(e_).__name__))
            except Exception:
                raise Raised(Exc('TypeError'))
        if attr == 'join':
            items = iter_items(interp, args[0])
            for it in items:
                if isinstance(it, Splice):
                    continue
                if it.tag is not None and it.tag != 'str':
                    raise Raised(Exc('TypeError', 'sequence item: expected str instance, %s found' % it.tag))
            if isinstance(base, Const) and all(isinstance(i, Const) and isinstance(i.value, str) for i in items):
                return Const(base.value.join(i.value for i in items))
            return Atom('join', [base] + [i if not isinstance(i, Splice) else Sym('list', i.name) for i in items], 'str')
        if attr in STR_TO_STR:
            for a in args:
                if attr in ('replace',) and a.tag is not None and a.tag != 'str' and a.tag not in NUMERIC:
                    raise Raised(Exc('TypeError', 'replace() argument must be str, not %s' % a.tag))
            return Atom(attr, [base] + list(args), 'str')
        if attr in STR_TO_BOOL:
            return Atom(attr, [base] + list(args), 'bool')
        if attr in STR_TO_INT:
            return Atom(attr, [base] + list(args), 'int')
        if attr in ('split', 'rsplit', 'splitlines', 'partition'):
            return Sym('list', '%s(%r)' % (attr, base))
        if attr == 'encode':
            return Atom('encode', [base], 'bytes')
        if hasattr(str, attr):
            raise Unmodelled('str method %s' % attr)
        raise Raised(Exc('AttributeError', "'str' object has no attribute '%s'" % attr))
    if tag in ('datetime', 'date'):
        if attr in ('weekday', 'isoweekday', 'toordinal'):
            return Atom(attr, [base], 'int')
        if attr in ('time', 'date', 'replace'):
            return Atom(attr, [base] + list(args) + [Atom('kw:' + kk, [vv], None) for kk, vv in sorted(kwargs.items())],
                        'datetime' if attr == 'replace' else attr)
        if attr in ('astimezone',):
            return Atom(attr, [base] + list(args), 'datetime')
        if attr in ('strftime', 'isoformat'):
            return Atom(attr, [base] + list(args), 'str')
        if attr == 'timestamp':
            return Atom(attr, [base], 'float')
        if attr in ('timetuple', 'utctimetuple') and not args and tag == 'datetime':
            # the fields down to whole seconds (the sub-second part is not in the tuple)
            return ListV([Atom(f_, [base], 'int') for f_ in ('year', 'month', 'day', 'hour', 'minute', 'second', 'weekday', 'yday')]
                         + [Const(-1)], 'tuple')
        import datetime as _dt
        if hasattr(_dt.datetime if tag == 'datetime' else _dt.date, attr):
            raise Unmodelled('%s method %s' % (tag, attr))
        raise Raised(Exc('AttributeError', attr))
    if isinstance(base, Aff) and base.kind == 'td' and attr == 'total_seconds':
        return Aff(dict(base.coeffs), base.const, 'num')
    if tag == 'timedelta' and attr == 'total_seconds':
        return Atom('total_seconds', [base], 'float')
    if tag in NUMERIC:
        if attr in ('is_integer',):
            return Atom(attr, [base], 'bool')
        if attr in ('bit_length', 'conjugate'):
            return Atom(attr, [base], tag)
        if any(hasattr(t_, attr) for t_ in ((complex,) if tag == 'complex' else (int, float) if tag in ('num', 'bool') else
                                            (int,) if tag == 'int' else (float,) if tag == 'float' else (int, float, complex))):
            raise Unmodelled('%s method %s' % (tag, attr))
        raise Raised(Exc('AttributeError', "'%s' object has no attribute '%s'" % (tag, attr)))
    if tag in ('none', 'err', 'bool'):
        if tag == 'err' and attr == 'with_traceback':
            return base
        if tag == 'err':
            if attr == 'args':
                msg = getattr(base, 'message', None)
                return ListV([Const(msg) if isinstance(msg, str) else Atom('message', [base], 'str')], 'tuple')
            # what the error class itself defines: a read-only property, a method
            for m_, c_ in interp.model.find_class('XLError'):
                lp = interp.model.lookup_property(m_, c_, attr)
                if lp:
                    return interp.call(Func(lp[0], lp[2]), [base])
                lm = interp.model.lookup_method(m_, c_, attr)
                if lm:
                    return Bound(base, Func(lm[0], lm[2]))
                ca = interp.model.class_attr(m_, c_, attr)
                if ca is not None and isinstance(ca[2], ast.Constant):
                    return Const(ca[2].value)
        raise Raised(Exc('AttributeError', "'%s' object has no attribute '%s'" % (tag, attr)))
    if tag in ('list', 'tuple'):
        if attr in ('index', 'count'):
            return Atom(attr, [base] + list(args), 'int')
        if attr == 'copy':
            return base
        interp.imprecise('method %s on a list of unknown shape' % attr)
        return Top('list method', ignorance=False)
    if tag is None:
        if isinstance(base, Top) and base.ignorance:
            interp.imprecise('method %s of unmodelled value' % attr)
        alt = interp.decide('%r.%s(...) is defined' % (base, attr), [True, False])
        if alt:
            return Atom('method:' + attr, [base] + list(args), None)
        raise Raised(Exc('AttributeError', attr))
    if isinstance(base, Func):
        raise Raised(Exc('AttributeError', attr))
    raise Unmodelled('method %s on %r' % (attr, base))


def regex_method(interp, rv, attr, args, kwargs):
    import re as _re
    if attr not in ('match', 'search', 'fullmatch'):
        return Top('regex method %s' % attr, ignorance=False)
    subj = args[0]
    try:
        cre = _re.compile(rv.pattern, rv.flags)
    except _re.error:
        raise Raised(Exc('ValueError', 'bad regex'))
    if isinstance(subj, Const) and isinstance(subj.value, str):
        # constant folding of a pure stdlib function on a constant subject
        mm = getattr(cre, attr)(subj.value)
        if mm is None:
            return Const(None)
        return MatchV(rv, subj, [Const(mm.group(0))] + [Const(g) for g in mm.groups()], dict(cre.groupindex))
    if subj.tag is not None and subj.tag != 'str':
        raise Raised(Exc('TypeError', 'expected string or bytes-like object'))
    if interp.decide('%s %s %r' % (rv.pattern, attr, subj), [True, False], None):
        n = cre.groups
        groups = [Atom('group', [subj, Const(i)], 'str') for i in range(n + 1)]
        for i in _optional_groups(rv.pattern, rv.flags):
            if i <= n:
                groups[i].optional = True       # the group may not take part in a match: its value is then None
        return MatchV(rv, subj, groups, dict(cre.groupindex))
    return Const(None)


_OPTIONAL_GROUPS = {}


def _optional_groups(pattern, flags=0):
    """Numbers of the capture groups that need not take part in a successful match (inside ?, *, {0,n} or an alternative)."""
    key = (pattern, flags)
    if key in _OPTIONAL_GROUPS:
        return _OPTIONAL_GROUPS[key]
    try:
        import re._parser as sp
    except ImportError:         # pragma: no cover
        import sre_parse as sp
    out = set()
    try:
        tree = sp.parse(pattern, flags)
    except Exception:
        _OPTIONAL_GROUPS[key] = out
        return out

    def walk(x, optional):
        if isinstance(x, sp.SubPattern):
            for it in x.data:
                walk(it, optional)
        elif isinstance(x, tuple) and len(x) == 2:
            op, av = str(x[0]), x[1]
            if op in ('MAX_REPEAT', 'MIN_REPEAT', 'POSSESSIVE_REPEAT'):
                walk(av[2], optional or av[0] == 0)
            elif op == 'BRANCH':
                for alt in av[1]:
                    walk(alt, True if len(av[1]) > 1 else optional)
            elif op == 'SUBPATTERN':
                if av[0] is not None and optional:
                    out.add(av[0])
                walk(av[3], optional)
            elif op in ('ASSERT', 'ASSERT_NOT'):
                walk(av[1], optional)
            elif op == 'GROUPREF_EXISTS':
                for part in av[1:]:
                    if part is not None:
                        walk(part, True)
            elif op == 'ATOMIC_GROUP':
                walk(av, optional)
    walk(tree, False)
    _OPTIONAL_GROUPS[key] = out
    return out


def list_method(interp, base, attr, args, kwargs):
    if attr == 'append':
        base.items.append(args[0])
        return Const(None)
    if attr == 'appendleft':
        base.items.insert(0, args[0])
        return Const(None)
    if attr == 'extend':
        base.items.extend(iter_items(interp, args[0]))
        return Const(None)
    if attr == 'extendleft':
        for it in iter_items(interp, args[0]):
            base.items.insert(0, it)
        return Const(None)
    if attr == 'insert':
        if isinstance(args[0], Const) and not base.has_splice():
            base.items.insert(args[0].value, args[1])
            return Const(None)
        if isinstance(args[0], Const) and args[0].value == 0:
            base.items.insert(0, args[1])
            return Const(None)
        raise Unmodelled('insert at unknown position')
    if attr in ('pop', 'popleft'):
        if not base.items:
            raise Raised(Exc('IndexError', 'pop from empty list'))
        if args and not (isinstance(args[0], Const) and isinstance(args[0].value, int)):
            raise Unmodelled('pop at an unknown position')
        i = 0 if attr == 'popleft' else (args[0].value if args else -1)
        if base.has_splice() and not (i in (0, -1) and not isinstance(base.items[i], Splice)):
            raise Unmodelled('pop from a run of unknown length')
        if not -len(base.items) <= i < len(base.items):
            raise Raised(Exc('IndexError', 'pop index out of range'))
        it = base.items[i]
        if isinstance(it, Splice):
            raise Unmodelled('pop from a run of unknown length')
        return base.items.pop(i)
    if attr == 'copy':
        return ListV(base.items, base.kind)
    if attr == 'reverse':
        base.items.reverse()
        return Const(None)
    if attr == 'clear':
        del base.items[:]
        return Const(None)
    if attr == 'sort':
        if len(base.items) > 1:
            small = small_sort(interp, list(base.items), kwargs) if not args else None
            base.items[:] = small if small is not None else [Splice('sorted')]
        return Const(None)
    if attr in ('index', 'count'):
        return Atom(attr, [base] + list(args), 'int')
    if attr == 'add':
        base.items.append(args[0])
        return Const(None)
    if attr == 'remove' and len(args) == 1 and not base.has_splice():
        # the first item equal to the argument goes
        for i_, it_ in enumerate(base.items):
            if it_ is args[0] or interp.truth(rich_compare(interp, 'eq', it_, args[0], 'remove', True), '%r == %r' % (it_, args[0])):
                del base.items[i_]
                return Const(None)
        raise Raised(Exc('ValueError', 'list.remove(x): x not in list'))
    raise Unmodelled('list method %s' % attr)
