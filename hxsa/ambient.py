# -*- coding: utf-8 -*-
"""Ambient state: a function of a property's region that consults state which the library itself writes while it
constructs parsers or evaluates formulas.

The properties say what an evaluation yields as a function of the formula and of the values supplied for it.  When code run
by parse() - or by a constructor / the registration API - writes state that outlives the call (a module-level slot, a
thread-local, an attribute on the class, an attribute of the long-lived grammar parser), C02/C03 report the write.  The
write alone says nothing about WHICH answers change.  This lint adds the other half: a function of the property's own region
reads that very state and lets it decide a branch, a returned value or an argument.  Then the region's answer is no longer a
function of its arguments - it depends on which parser was constructed or evaluated before (a nested evaluation by a
differently configured parser, an evaluation that ended in an exception before the state was put back, another thread).

Nothing is reported when no such write exists (the clean tree), so the lint cannot raise an alarm on code whose state is
per call.  A read whose value only flows back into the same state (a counter) or into a print is not a dependence of the
answer and is not reported.
"""
import ast

from .paths import walk_no_defs
from .callgraph import fmt
from .model import src
from . import sa

MUTATORS = ('append', 'add', 'update', 'extend', 'insert', 'remove', 'discard', 'clear', 'appendleft')
PRINTS = ('print', 'pprint', 'warn', 'debug', 'info', 'warning', 'error', 'exception', 'log', 'write', 'print_exc')


def _module_key(model, m, f, e):
    """('mod', module name, name) when the expression is rooted in a module-level name (of this or an imported module)."""
    chain = e
    while isinstance(chain, (ast.Attribute, ast.Subscript)):
        # longest prefix that still resolves to a module-level constant
        r = model.resolve_attr_chain(m, chain) if not isinstance(chain, ast.Subscript) else None
        if r is not None and r[0] == 'const' and '.' not in r[2]:
            return ('mod', r[1].name, r[2])
        chain = chain.value
    if isinstance(chain, ast.Name):
        if f is not None and _is_local(f, chain.id):
            return None
        r = model.resolve(m, chain.id)
        if r is not None and r[0] == 'const' and '.' not in r[2]:
            return ('mod', r[1].name, r[2])
    return None


def _is_local(f, name):
    if name in sa.params(f) or name == sa.vararg(f) or name == sa.kwarg(f):
        return True
    glob = set()
    for n in walk_no_defs(f):
        if isinstance(n, ast.Global):
            glob.update(n.names)
    if name in glob:
        return False
    for n in walk_no_defs(f):
        if isinstance(n, ast.Name) and n.id == name and isinstance(n.ctx, (ast.Store, ast.Del)):
            return True
        if isinstance(n, (ast.Import, ast.ImportFrom)) and any((a.asname or a.name.split('.')[0]) == name for a in n.names):
            return True
    return False


def _is_classmethod(f):
    return any(src(d) == 'classmethod' for d in getattr(f, 'decorator_list', []))


def _attr_key(model, m, f, e):
    """('attr', name) for  self.name... / cls.name... / Cls.name... / type(self).name...  (the first attribute on the object)."""
    chain = e
    first = None
    while isinstance(chain, (ast.Attribute, ast.Subscript)):
        if isinstance(chain, ast.Attribute):
            first = chain
        chain = chain.value
    if first is None:
        return None
    base = first.value
    me = sa.self_name(f) if f is not None else None
    if isinstance(base, ast.Name):
        if me is not None and base.id == me:
            return ('attr', first.attr)
        if f is not None and _is_classmethod(f) and sa.params(f) and base.id == sa.params(f)[0]:
            return ('attr', first.attr)
        if f is None or not _is_local(f, base.id):
            r = model.resolve(m, base.id)
            if r is not None and r[0] == 'class' and not model.lookup_method(r[1], r[2], first.attr):
                return ('attr', first.attr)
    if isinstance(base, ast.Call) and sa.call_name(base) == 'type' and len(base.args) == 1 and isinstance(base.args[0], ast.Name) \
            and base.args[0].id == me:
        return ('attr', first.attr)
    if isinstance(base, ast.Attribute) and base.attr == '__class__' and isinstance(base.value, ast.Name) and base.value.id == me:
        return ('attr', first.attr)
    return None


def _keys_of(model, m, f, e):
    out = []
    if isinstance(e, ast.Name) and f is not None:
        e2 = sa.resolve_local(f, e)
        if e2 is not e and isinstance(e2, (ast.Attribute, ast.Name, ast.Subscript)):
            e = e2
    k = _module_key(model, m, f, e)
    if k:
        out.append(k)
    k = _attr_key(model, m, f, e)
    if k:
        out.append(k)
    return out


def _event_targets(ev):
    n = ev.node
    if isinstance(n, ast.Assign):
        return list(n.targets)
    if isinstance(n, (ast.AugAssign, ast.AnnAssign)):
        return [n.target]
    if isinstance(n, ast.Delete):
        return list(n.targets)
    if isinstance(n, ast.Expr):
        n = n.value
    if isinstance(n, ast.Call):
        if isinstance(n.func, ast.Attribute):
            return [n.func.value]
        if isinstance(n.func, ast.Name) and n.func.id in ('setattr', 'delattr') and n.args:
            return [n.args[0]]
    return []


def _state_name_keys(ctx, s):
    model = ctx.model
    if s.startswith('class attribute '):
        return [('attr', s.split('.')[-1])]
    parts = s.split('.')
    for i in range(len(parts) - 1, 0, -1):
        mod = '.'.join(parts[:i])
        if mod in model.modules:
            return [('mod', mod, parts[i])]
    if len(parts) == 2 and parts[0][:1].isupper():
        return [('attr', parts[1])]
    return []


def written_state(ctx):
    """{key: (writer description, where)} for every piece of lasting state the library writes: events of kind 'state' in code
    reachable from parse(), and in constructors / the registration API when the object written is not the instance's own."""
    cached = getattr(ctx, '_ambient_written', None)
    if cached is not None:
        return cached
    from . import purity
    model = ctx.model
    eff = ctx.effects
    allow = purity.emitter_allow(ctx)
    out = {}
    reach = set(ctx.reach)

    def add(ev, desc):
        m, f = ev.module, ev.func
        keys = []
        for t in _event_targets(ev):
            keys += _keys_of(model, m, f, t)
        if isinstance(ev.node, ast.Assign) and ev.kind == 'global':
            for t in ev.node.targets:
                if isinstance(t, ast.Name):
                    keys.append(('mod', m.name, t.id))
        if not keys:
            for s in ev.receiver.states():
                keys += _state_name_keys(ctx, s)
        for k in keys:
            out.setdefault(k, ('%s in %s' % (ev.detail, fmt(ev.key)), ev.where()))
    for ev in list(eff.events):
        if ev.key not in reach:
            continue
        kind, desc = purity.classify(ev, allow)
        if kind == 'state':
            add(ev, desc)
    # constructors and the registration API: writes into objects that are not the instance's own (class-level / module-level)
    try:
        from .rules import c03
        from . import report
        tmp = report.Result('C03')
        c03.instance_state(model, tmp, ctx, 'R2')
        for fnd in tmp.findings:
            parts = fnd.construct.split(':')
            if parts[-1] in ('attr-not-born-in-init', 'attr-aliases-shared-object') and '.' in parts[0]:
                out.setdefault(('attr', parts[0].split('.')[-1]), (fnd.why[:120], fnd.where))
            elif 'shared-write' in fnd.construct:
                pass
        pcs = c03._persistent_classes(ctx)
        ctor = set()
        for m, cls in pcs:
            for node in cls.body:
                if isinstance(node, ast.FunctionDef):
                    k = (m.name, m.qualname_of(node))
                    if k not in reach:
                        ctor.add(k)
        region = ctx.cg.reachable(sorted(ctor)) - reach
        own = set()
        for m, cls in pcs:
            for mm, cc in model.mro(m, cls):
                own.add(cc.name)
        for ev in list(eff.events):
            if ev.key not in region:
                continue
            kind, desc = purity.classify(ev, allow)
            if kind != 'state':
                continue
            states = ev.receiver.states()
            if all(s == 'self' or any(s.startswith(cn + '.') for cn in own) for s in states):
                continue        # the instance's own attributes: what constructors and set_* are for
            add(ev, desc)
    except Exception as e:       # the lint must not take the property's other rules down with it
        ctx._ambient_error = '%s: %s' % (type(e).__name__, e)
    ctx._ambient_written = out
    return out


def spine(ctx):
    """The functions every evaluation passes through on its way to the grammar: the parse() methods in reach."""
    return set(k for k in ctx.reach if k[1].split('.')[-1] == 'parse')


def _reads(model, m, f, written):
    """[(node, key)] loads in ``f`` of state named in ``written``."""
    out = []
    seen = set()
    for n in walk_no_defs(f):
        if isinstance(n, (ast.Attribute, ast.Name)) and isinstance(getattr(n, 'ctx', None), ast.Load):
            par = m.parent(n)
            if isinstance(par, ast.Attribute) and par.value is n and isinstance(par.ctx, ast.Load) and isinstance(n, ast.Attribute):
                pass        # inner part of a longer chain: the outer node is looked at as well, keys are the same
            for k in _keys_of(model, m, f, n) if not isinstance(n, ast.Name) or not _is_local(f, n.id) else []:
                if k in written:
                    root = n
                    # report the outermost load of the chain once
                    p = m.parent(root)
                    while isinstance(p, (ast.Attribute, ast.Subscript)) and p.value is root and isinstance(getattr(p, 'ctx', None), ast.Load):
                        root = p
                        p = m.parent(root)
                    if id(root) not in seen:
                        seen.add(id(root))
                        out.append((root, k))
    return out


def _stmt_of(m, n):
    p = n
    while p is not None and not isinstance(p, ast.stmt):
        p = m.parent(p)
    return p


def _matters(model, m, f, reads, written):
    """The value read reaches a test, a returned / yielded / raised value, a call argument or a store that is not the state itself."""
    read_ids = set(id(n) for n, _ in reads)
    tainted = set()

    def has(node):
        for x in ast.walk(node):
            if id(x) in read_ids:
                return True
            if isinstance(x, ast.Name) and isinstance(x.ctx, ast.Load) and x.id in tainted:
                return True
        return False
    for _ in range(6):
        before = len(tainted)
        for st in walk_no_defs(f):
            val, tgs = None, []
            if isinstance(st, ast.Assign):
                val, tgs = st.value, st.targets
            elif isinstance(st, (ast.AugAssign, ast.AnnAssign)) and st.value is not None:
                val, tgs = st.value, [st.target]
            elif isinstance(st, ast.NamedExpr):
                val, tgs = st.value, [st.target]
            elif isinstance(st, (ast.For, ast.AsyncFor)):
                val, tgs = st.iter, [st.target]
            elif isinstance(st, ast.withitem) and st.optional_vars is not None:
                val, tgs = st.context_expr, [st.optional_vars]
            if val is not None and has(val):
                for t in tgs:
                    for x in ast.walk(t):
                        if isinstance(x, ast.Name) and isinstance(x.ctx, ast.Store):
                            tainted.add(x.id)
        if len(tainted) == before:
            break
    for st in walk_no_defs(f):
        if not isinstance(st, ast.stmt):
            continue
        if isinstance(st, (ast.If, ast.While)):
            if has(st.test):
                return st
            continue
        if isinstance(st, (ast.For, ast.AsyncFor, ast.With, ast.AsyncWith, ast.Try, ast.FunctionDef, ast.ClassDef)):
            if isinstance(st, (ast.For, ast.AsyncFor)) and has(st.iter):
                return st
            continue
        if isinstance(st, (ast.Assign, ast.AugAssign, ast.AnnAssign)):
            tgs = st.targets if isinstance(st, ast.Assign) else [st.target]
            val = st.value
            if val is None or not has(val):
                continue
            plain = all(isinstance(t, ast.Name) for t in tgs)
            back = all(any(k in written for k in _keys_of(model, m, f, t)) for t in tgs)
            # a test inside the value (x if flag else y) decides what is computed even when the target is a local
            inner_test = any(isinstance(x, (ast.IfExp, ast.BoolOp, ast.Compare)) and has(x) for x in ast.walk(val))
            if back:
                continue
            if plain and not inner_test:
                continue        # propagation only (taint above)
            return st
        if isinstance(st, ast.Expr) and isinstance(st.value, ast.Call):
            name = sa.call_name(st.value) or ''
            if name.split('.')[-1] in PRINTS:
                continue
            fn_ = st.value.func
            if isinstance(fn_, ast.Attribute) and fn_.attr in MUTATORS and any(k in written for k in _keys_of(model, m, f, fn_.value)) and \
                    not any(has(a) for a in list(st.value.args) + [kw.value for kw in st.value.keywords]):
                continue        # the write itself (state.append(x)): not a use of what was there
        if isinstance(st, ast.Delete):
            continue
        if has(st):
            return st
    return None


def check(res, ctx, rule, keys, label):
    """Obligation per region function that consults written state.  -> number of obligations."""
    written = written_state(ctx)
    model = ctx.model
    cg = ctx.cg
    n = 0
    if not written:
        res.ob(rule, 'package', 'state written by constructors or evaluations that %s could consult' % label, True, 'none is written')
        return 1
    for k in sorted(set(keys) | spine(ctx)):
        if k not in cg.funcs:
            continue
        m, f = cg.funcs[k]
        if isinstance(f, ast.Lambda):
            continue
        reads = _reads(model, m, f, written)
        if not reads:
            continue
        n += 1
        st = _matters(model, m, f, reads, written)
        node, key = reads[0]
        what = '%s.%s' % (key[1], key[2]) if key[0] == 'mod' else 'the attribute .%s' % key[1]
        writer, where = written[key]
        res.ob(rule, fmt(k), 'reads %s (written by %s)' % (what, writer), st is None,
               'the value read decides nothing' if st is None else src(st)[:80])
        if st is not None:
            res.violation(rule, '%s:%s:ambient-read:%s' % (k[0], k[1], key[-1]), m.where(node),
                          '%s consults %s (%s), and that state is written by the library itself while parsers are constructed or formulas '
                          'evaluated (%s at %s): what %s answers then depends on which parser was constructed or evaluated before - a nested '
                          'evaluation by a differently configured parser, an evaluation that ended in an exception, another thread - and not '
                          'only on its arguments' % (label, what, src(node)[:60], writer, where, label), func=k[1])
    return n
