# -*- coding: utf-8 -*-
"""E2 - resolved call graph of the package.

Nodes are function keys ``(module dotted name, qualname)``; lambdas belong to their enclosing function.
Resolution: direct names, ``module.attr``, ``self.method`` (class hierarchy), ``self.attr.method`` where
``self.attr = Cls(...)`` in ``__init__``, callbacks bound by keyword in a constructor call
(``FormulaParser(call_function=self.call_function)`` makes ``self.call_function(...)`` inside the grammar class call
``Parser.call_function``), registry dispatch (a function that calls the registry getter may call every registered
function), dunder dispatch through operator tables applied to freshly constructed package objects, ply framework
roots (whoever calls ``<yacc object>.parse`` may call every ``p_*`` method and ``t_*`` function), nested defs
(the enclosing function may call them), and - as a conservative fallback - ``x.m(...)`` on an unknown receiver
may call every package method named ``m``.
"""
import ast
from .model import src, AnalysisError
from .paths import walk_no_defs
from . import sa


class CallGraph(object):
    def __init__(self, model):
        self.model = model
        self.funcs = {}         # key -> (Module, FunctionDef)
        self.edges = {}         # key -> set(key)
        self.sites = {}         # (caller key, id(call node)) -> set(callee key)
        self.cls_of = {}        # key -> (Module, ClassDef) for methods
        self.unresolved = {}    # key -> list of call nodes with unknown package-external callee
        for m, q, f in model.all_functions():
            k = (m.name, q)
            self.funcs[k] = (m, f)
            self.edges[k] = set()
            c = m.enclosing_class(f)
            if c is not None and m.enclosing_function(f) is None:
                self.cls_of[k] = (m, c)
        self._methods_by_name = {}
        for k, (m, f) in self.funcs.items():
            if k in self.cls_of:
                self._methods_by_name.setdefault(f.name, set()).add(k)
        self._callback_bindings = self._find_callback_bindings()
        self._attr_classes = self._find_attr_classes()
        self.yacc_attrs, self.lex_attrs = self._find_ply_attrs()
        self.p_roots = [k for k, (m, f) in self.funcs.items() if k in self.cls_of and f.name.startswith('p_')]
        self.t_roots = [k for k, (m, f) in self.funcs.items() if k not in self.cls_of and '.' not in k[1]
                        and f.name.startswith('t_') and 'lexer' in k[0]]
        self.registry_keys = set((m.name, m.qualname_of(f)) for (m, f) in model.registry.values())
        for k in list(self.funcs):
            self._build(k)
        # functools.singledispatch: calling the generic function may run any implementation registered on it
        # (@generic.register[(cls)] def impl ...  /  generic.register(cls, impl), also inside a module-level loop)
        for m in model.modules.values():
            generics = {}
            for st in m.tree.body:
                if isinstance(st, ast.FunctionDef) and any('singledispatch' in src(d) for d in st.decorator_list):
                    generics[st.name] = (m.name, m.qualname_of(st))
            if not generics:
                continue
            for st in m.tree.body:
                if isinstance(st, ast.FunctionDef):
                    for d in st.decorator_list:
                        t = d.func if isinstance(d, ast.Call) else d
                        if isinstance(t, ast.Attribute) and t.attr == 'register' and isinstance(t.value, ast.Name) and t.value.id in generics:
                            ik = (m.name, m.qualname_of(st))
                            if ik in self.funcs and generics[t.value.id] in self.edges:
                                self.edges[generics[t.value.id]].add(ik)
                    continue
                for n in ast.walk(st):
                    if isinstance(n, ast.Call) and isinstance(n.func, ast.Attribute) and n.func.attr == 'register' \
                            and isinstance(n.func.value, ast.Name) and n.func.value.id in generics:
                        for a in n.args:
                            if isinstance(a, (ast.Name, ast.Attribute)):
                                r = model.resolve_attr_chain(m, a)
                                if r and r[0] == 'func':
                                    ik = (r[1].name, r[1].qualname_of(r[2]))
                                    if ik in self.funcs and generics[n.func.value.id] in self.edges:
                                        self.edges[generics[n.func.value.id]].add(ik)
        # listeners registered through the emitter's own wrappers are callable from its delivery method
        for k, (m, c) in list(self.cls_of.items()):
            mm, f = self.funcs[k]
            if f.name == 'emit':
                for k2, (m2, f2) in self.funcs.items():
                    if k2[0] == k[0] and k2[1].startswith(c.name + '.') and '.<locals>.' in k2[1]:
                        self.edges[k].add(k2)

    # -- discovery of bindings --------------------------------------------------------------
    def key_of(self, m, f):
        return (m.name, m.qualname_of(f))

    def _find_callback_bindings(self):
        """{(class name, attr): set(callee key)} from ``Cls(attr=self.method)`` constructor calls."""
        out = {}
        model = self.model
        for m, q, f in model.all_functions():
            for n in walk_no_defs(f):
                if isinstance(n, ast.Call) and n.keywords:
                    r = model.resolve_attr_chain(m, n.func)
                    if r and r[0] == 'class':
                        cm, cc = r[1], r[2]
                        for kw in n.keywords:
                            if kw.arg and isinstance(kw.value, ast.Attribute) and isinstance(kw.value.value, ast.Name) \
                                    and kw.value.value.id == sa.self_name(f):
                                owner = m.enclosing_class(f)
                                if owner is None:
                                    continue
                                targets = set()
                                for om, oc in [(m, owner)] + model.subclasses_of(m, owner):
                                    lm = model.lookup_method(om, oc, kw.value.attr)
                                    if lm:
                                        targets.add((lm[0].name, lm[0].qualname_of(lm[2])))
                                # the constructor may store the callback under another attribute name:  self.on_call = call_function
                                attrs = set([kw.arg])
                                init = model.lookup_method(cm, cc, '__init__')
                                if init:
                                    s_ = sa.self_name(init[2])
                                    for st in walk_no_defs(init[2]):
                                        if isinstance(st, ast.Assign) and isinstance(st.value, ast.Name) and st.value.id == kw.arg:
                                            for t in st.targets:
                                                if isinstance(t, ast.Attribute) and isinstance(t.value, ast.Name) and t.value.id == s_:
                                                    attrs.add(t.attr)
                                for xm, xc in model.mro(cm, cc):
                                    for a_ in attrs:
                                        out.setdefault((xc.name, a_), set()).update(targets)
        # callbacks handed over as **mapping (built from a table of names, getattr(self, name)): run the constructor abstractly
        # and read which bound methods ended up on the object it creates
        for m, q, f in model.all_functions():
            owner = m.enclosing_class(f)
            if owner is None or f.name != '__init__':
                continue
            starred = False
            for n in walk_no_defs(f):
                if isinstance(n, ast.Call) and any(kw.arg is None for kw in n.keywords):
                    r = model.resolve_attr_chain(m, n.func)
                    if r and r[0] == 'class':
                        starred = True
            if not starred:
                continue
            try:
                from .absint import Interp, ClassV, Obj, Bound, Func, Unmodelled, Const
                from .model import AnalysisError
                box = {}

                def make(interp, st, m=m, owner=owner):
                    box.setdefault('objs', []).append(interp.instantiate(ClassV(m, owner), []))
                    return Const(None)
                Interp(model).run(make)
                for o in box.get('objs', []):
                    for a, v in o.attrs.items():
                        if isinstance(v, Obj) and v.cls.module is not None:
                            for a2, v2 in v.attrs.items():
                                if isinstance(v2, Bound) and v2.obj is o and isinstance(v2.func, Func) and \
                                        isinstance(v2.func.node, ast.FunctionDef):
                                    key = (v2.func.module.name, v2.func.module.qualname_of(v2.func.node))
                                    for xm, xc in model.mro(v.cls.module, v.cls.node):
                                        out.setdefault((xc.name, a2), set()).add(key)
            except Exception:
                continue
        return out

    def _find_attr_classes(self):
        """{(class name, attr): (Module, ClassDef)} from ``self.attr = Cls(...)`` in any method."""
        out = {}
        model = self.model
        for m, q, f in model.all_functions():
            owner = m.enclosing_class(f)
            if owner is None:
                continue
            s = sa.self_name(f)
            for n in walk_no_defs(f):
                if isinstance(n, ast.Assign) and isinstance(n.value, ast.Call):
                    r = model.resolve_attr_chain(m, n.value.func)
                    if r and r[0] == 'func':
                        r = self._returned_class(r[1], r[2])
                    if r and r[0] == 'class':
                        for t in n.targets:
                            if sa.is_self_attr(t, s):
                                out[(owner.name, t.attr)] = (r[1], r[2])
        return out

    def _returned_class(self, m, f):
        """A factory/accessor function that returns a package-class instance held in a module global."""
        model = self.model
        for n in walk_no_defs(f):
            if isinstance(n, ast.Return) and n.value is not None:
                v = n.value
                if isinstance(v, ast.Call):
                    r = model.resolve_attr_chain(m, v.func)
                    if r and r[0] == 'class':
                        return r
                if isinstance(v, ast.Name):
                    for a in ast.walk(m.tree):
                        if isinstance(a, ast.Assign) and isinstance(a.value, ast.Call) and \
                                any(isinstance(t, ast.Name) and t.id == v.id for t in a.targets):
                            r = model.resolve_attr_chain(m, a.value.func)
                            if r and r[0] == 'class':
                                return r
        return None

    def is_yacc_parse(self, f, n):
        """``n`` is a call of .parse() on a ply LALR engine: on self.<yacc attribute> or on a local that was bound to it."""
        if not (isinstance(n, ast.Call) and isinstance(n.func, ast.Attribute) and n.func.attr == 'parse'):
            return False
        v = n.func.value
        if isinstance(v, ast.Name) and f is not None and not isinstance(f, ast.Lambda):
            v2 = sa.resolve_local(f, v)
            if v2 is not v:
                v = v2
        return isinstance(v, ast.Attribute) and v.attr in self.yacc_attrs

    def _find_ply_attrs(self):
        """Attributes holding ply objects: ``self.x = yacc.yacc(...)`` / ``lex.lex(...)``."""
        yacc_attrs, lex_attrs = set(), set()
        model = self.model
        for m, q, f in model.all_functions():
            s = sa.self_name(f)
            for n in walk_no_defs(f):
                if isinstance(n, ast.Assign) and isinstance(n.value, ast.Call):
                    r = model.resolve_attr_chain(m, n.value.func)
                    if r and r[0] == 'extattr':
                        full = r[1] + '.' + r[2]
                        for t in n.targets:
                            if sa.is_self_attr(t, s):
                                if full in ('ply.yacc.yacc',):
                                    yacc_attrs.add(t.attr)
                                if full in ('ply.lex.lex',):
                                    lex_attrs.add(t.attr)
        # the ply objects reach the attribute through other names (a table of built engines, a tuple unpacked into self.lex, self.yacc):
        # follow the value through the assignments of the function, position by position for tuples
        for m, q, f in model.all_functions():
            s = sa.self_name(f)
            kinds = {}          # local name -> 'yacc' | 'lex' | ('tuple', [kinds])

            def kind_of(e, m=m, depth=0):
                if isinstance(e, ast.Call):
                    r = model.resolve_attr_chain(m, e.func) if isinstance(e.func, (ast.Name, ast.Attribute)) else None
                    if r and r[0] == 'extattr':
                        full = r[1] + '.' + r[2]
                        if full == 'ply.yacc.yacc':
                            return 'yacc'
                        if full == 'ply.lex.lex':
                            return 'lex'
                    if r and r[0] == 'func' and depth < 2 and isinstance(r[2], ast.FunctionDef):
                        # a helper of the package that builds the ply object:  def build_tables(grammar, options): return yacc.yacc(...)
                        ks = set()
                        for rn in walk_no_defs(r[2]):
                            if isinstance(rn, ast.Return) and rn.value is not None:
                                v_ = rn.value
                                if isinstance(v_, ast.Name):
                                    v2 = sa.resolve_local(r[2], v_)
                                    v_ = v2 if v2 is not None else v_
                                ks.add(kind_of(v_, r[1], depth + 1) if isinstance(v_, ast.Call) else None)
                        if len(ks) == 1 and None not in ks and not isinstance(list(ks)[0], tuple):
                            return list(ks)[0]
                    return None
                if isinstance(e, ast.Tuple):
                    ks = [kind_of(x) for x in e.elts]
                    return ('tuple', ks) if any(ks) else None
                if isinstance(e, ast.Name):
                    return kinds.get(e.id)
                return None

            def bind(t, kd):
                if kd is None:
                    return
                if isinstance(t, ast.Name):
                    kinds[t.id] = kd
                elif isinstance(t, ast.Tuple) and isinstance(kd, tuple) and len(kd[1]) == len(t.elts):
                    for x, k_ in zip(t.elts, kd[1]):
                        bind(x, k_)
                elif sa.is_self_attr(t, s):
                    if kd == 'yacc':
                        yacc_attrs.add(t.attr)
                    elif kd == 'lex':
                        lex_attrs.add(t.attr)
            for _ in range(3):
                for n in walk_no_defs(f):
                    if isinstance(n, ast.Assign):
                        kd = kind_of(n.value)
                        for t in n.targets:
                            bind(t, kd)
        return yacc_attrs, lex_attrs

    # -- edges ------------------------------------------------------------------------------
    def _build(self, k):
        m, f = self.funcs[k]
        model = self.model
        owner = self.cls_of.get(k)
        if owner is None:
            # nested function inside a method: still knows the enclosing method's self
            enc = m.enclosing_function(f)
            while enc is not None and m.enclosing_function(enc) is not None:
                enc = m.enclosing_function(enc)
            if enc is not None:
                ek = (m.name, m.qualname_of(enc))
                owner = self.cls_of.get(ek)
        selfname = None
        if k in self.cls_of:
            selfname = sa.self_name(f)
        else:
            enc = m.enclosing_function(f)
            while enc is not None:
                ek = (m.name, m.qualname_of(enc))
                if ek in self.cls_of:
                    selfname = sa.self_name(enc)
                    break
                enc = m.enclosing_function(enc)
        # nested defs are callable by the enclosing function
        for n in walk_no_defs(f):
            if n is not f and isinstance(n, ast.FunctionDef):
                self.edges[k].add((m.name, m.qualname_of(n)))
        # a decorator that wraps the function runs its wrapper whenever the function is called:  @coerce_number def ABS(x)
        for d in getattr(f, 'decorator_list', []):
            target = d.func if isinstance(d, ast.Call) else d
            if 'register_for' in src(d):
                continue
            r = model.resolve_attr_chain(m, target) if isinstance(target, (ast.Name, ast.Attribute)) else None
            if r and r[0] == 'func':
                dk = (r[1].name, r[1].qualname_of(r[2]))
                if dk in self.funcs:
                    self.edges[k].add(dk)
                    for n2 in ast.walk(r[2]):
                        if n2 is not r[2] and isinstance(n2, ast.FunctionDef):
                            nk = (r[1].name, r[1].qualname_of(n2))
                            if nk in self.funcs:
                                self.edges[k].add(nk)
        nodes = []   # body only: decorators and defaults run at definition time, not when the function is called
        for st in f.body:
            nodes.extend(ast.walk(st))
        nested = set()
        for n in walk_no_defs(f):
            if n is not f and isinstance(n, ast.FunctionDef):
                for x in ast.walk(n):
                    nested.add(id(x))
        uses_registry_getter = False
        for n in nodes:
            if id(n) in nested and not isinstance(n, ast.FunctionDef):
                continue
            # a module-level table of functions (dispatch by key): whoever reads the table may call its entries
            if isinstance(n, ast.Name) and isinstance(n.ctx, ast.Load):
                r = model.resolve(m, n.id)
                if r and r[0] == 'const' and isinstance(r[3], (ast.Dict, ast.Tuple, ast.List)):
                    elems = r[3].values if isinstance(r[3], ast.Dict) else r[3].elts
                    for e in elems:
                        if isinstance(e, (ast.Name, ast.Attribute)):
                            r2 = model.resolve_attr_chain(r[1], e)
                            if r2 and r2[0] == 'func':
                                tk = (r2[1].name, r2[1].qualname_of(r2[2]))
                                if tk in self.funcs:
                                    self.edges[k].add(tk)
            # reading a property runs its getter:  self.parser  with  @property def parser(self)
            if isinstance(n, ast.Attribute) and isinstance(n.value, ast.Name) and n.value.id == selfname and owner is not None \
                    and isinstance(n.ctx, ast.Load):
                lp = model.lookup_property(owner[0], owner[1], n.attr)
                if lp:
                    pk = (lp[0].name, lp[0].qualname_of(lp[2]))
                    if pk in self.funcs:
                        self.edges[k].add(pk)
                        self.sites[(k, id(n))] = set([pk])
            if not isinstance(n, ast.Call):
                continue
            callees = self._resolve_call(m, f, n, owner, selfname)
            if callees:
                self.sites[(k, id(n))] = callees
                self.edges[k].update(callees)
            # registry dispatch
            for c in callees:
                cm, cf = self.funcs[c]
                if cf.name == 'get_for':
                    uses_registry_getter = True
            # ply framework roots
            if self.is_yacc_parse(f, n):
                self.edges[k].update(self.p_roots)
                self.edges[k].update(self.t_roots)
            # dunder dispatch through an operator table applied to freshly constructed package objects
            if isinstance(n.func, ast.Subscript):
                for a in n.args:
                    if isinstance(a, ast.Call):
                        r = model.resolve_attr_chain(m, a.func)
                        if r and r[0] == 'class':
                            for mm, cc in model.mro(r[1], r[2]):
                                for node in cc.body:
                                    if isinstance(node, ast.FunctionDef) and node.name.startswith('__') and node.name != '__init__':
                                        self.edges[k].add((mm.name, mm.qualname_of(node)))
        if uses_registry_getter:
            self.edges[k].update(self.registry_keys)

    def _resolve_call(self, m, f, call, owner, selfname):
        model = self.model
        fn = call.func
        out = set()
        if isinstance(fn, ast.Name):
            # local nested def?
            enc = f
            while enc is not None:
                q = m.qualname_of(enc) + '.<locals>.' + fn.id
                if q in m.functions:
                    return set([(m.name, q)])
                enc = m.enclosing_function(enc)
            r = model.resolve(m, fn.id)
            if r and r[0] == 'func':
                return set([(r[1].name, r[1].qualname_of(r[2]))])
            if r and r[0] == 'class':
                init = model.lookup_method(r[1], r[2], '__init__')
                if init:
                    return set([(init[0].name, init[0].qualname_of(init[2]))])
            return out
        if isinstance(fn, ast.Attribute):
            # module.func / module.Class
            r = model.resolve_attr_chain(m, fn)
            if r and r[0] == 'func':
                return set([(r[1].name, r[1].qualname_of(r[2]))])
            if r and r[0] == 'class':
                init = model.lookup_method(r[1], r[2], '__init__')
                return set([(init[0].name, init[0].qualname_of(init[2]))]) if init else out
            if r and r[0] in ('extattr', 'module'):
                return out
            base = fn.value
            # self.method(...) / self.callback(...)
            if isinstance(base, ast.Name) and selfname and base.id == selfname and owner is not None:
                om, oc = owner
                found = False
                for cm, cc in [(om, oc)] + model.subclasses_of(om, oc):
                    lm = model.lookup_method(cm, cc, fn.attr)
                    if lm:
                        out.add((lm[0].name, lm[0].qualname_of(lm[2])))
                        found = True
                for xm, xc in model.mro(om, oc) + model.subclasses_of(om, oc):
                    b = self._callback_bindings.get((xc.name, fn.attr))
                    if b:
                        out.update(b)
                        found = True
                if found:
                    return out
            # super(X, self).method(...)
            if isinstance(base, ast.Call) and isinstance(base.func, ast.Name) and base.func.id == 'super' and owner is not None:
                om, oc = owner
                for bm, bc in model.mro(om, oc)[1:]:
                    lm = model.lookup_method(bm, bc, fn.attr)
                    if lm:
                        return set([(lm[0].name, lm[0].qualname_of(lm[2]))])
                return out
            # self.attr.method(...) with self.attr = Cls(...)
            if isinstance(base, ast.Attribute) and isinstance(base.value, ast.Name) and selfname and \
                    base.value.id == selfname and owner is not None:
                for xm, xc in model.mro(owner[0], owner[1]) + model.subclasses_of(owner[0], owner[1]):
                    ac = self._attr_classes.get((xc.name, base.attr))
                    if ac:
                        lm = model.lookup_method(ac[0], ac[1], fn.attr)
                        if lm:
                            return set([(lm[0].name, lm[0].qualname_of(lm[2]))])
                if base.attr in self.yacc_attrs or base.attr in self.lex_attrs:
                    return out
            # Cls(...).method(...)
            if isinstance(base, ast.Call):
                r = model.resolve_attr_chain(m, base.func)
                if r and r[0] == 'class':
                    lm = model.lookup_method(r[1], r[2], fn.attr)
                    if lm:
                        return set([(lm[0].name, lm[0].qualname_of(lm[2]))])
            # fallback by method name (package methods only; dunder and very generic names excluded)
            if fn.attr in self._methods_by_name and not fn.attr.startswith('__') and \
                    fn.attr not in ('get', 'run', 'index', 'count'):
                return set(self._methods_by_name[fn.attr])
        return out

    # -- queries ----------------------------------------------------------------------------
    def reachable(self, roots):
        seen = set()
        stack = list(roots)
        while stack:
            k = stack.pop()
            if k in seen or k not in self.funcs:
                continue
            seen.add(k)
            stack.extend(self.edges.get(k, ()))
        return seen

    def callers_of(self, key):
        return [k for k, es in self.edges.items() if key in es]

    def public_parse_root(self):
        """The public entry point: ``parse`` of the class that subclasses the emitter."""
        cands = []
        for k, (m, c) in self.cls_of.items():
            mm, f = self.funcs[k]
            if f.name == 'parse' and any(bc is not c and any(isinstance(x, ast.FunctionDef) and x.name == 'emit' for x in bc.body)
                                         for _, bc in self.model.mro(m, c)):
                cands.append(k)
        if not cands:
            raise AnalysisError('public parse() of the emitter subclass not found (anchor vanished)')
        return cands[0]

    def path(self, src, dst):
        """One shortest call path src -> dst (for diagnostics)."""
        from collections import deque
        prev = {src: None}
        dq = deque([src])
        while dq:
            k = dq.popleft()
            if k == dst:
                out = []
                while k is not None:
                    out.append(k)
                    k = prev[k]
                return list(reversed(out))
            for e in sorted(self.edges.get(k, ())):
                if e not in prev:
                    prev[e] = k
                    dq.append(e)
        return None


def fmt(k):
    return '%s:%s' % k
