# -*- coding: utf-8 -*-
"""What each check claims (copied into MANIFEST.json by tools/gen_manifest.py)."""

_NOTE = ('Trusted: CPython ast, the rule tables written in /verif/hxsa/rules (oracle tables are transcribed from the '
         'property statement), hand-written models of the stdlib/ply calls the code uses (listed in the evidence '
         'trusted_base). Assumes host callbacks return or raise Exception subclasses and host lists are finite.')


def _c(level, technique, ref, note=_NOTE):
    return {'level': level, 'technique': technique, 'ref': ref, 'note': note}


CLAIMS = {
    'C01': _c('Static proof obligations over every path of the public parse(): every call is inside a catch-all whose handlers '
              'cannot raise, every return is a {result,error} record, error is None or str() of a canonical singleton, '
              'error set => result None, result never an error object; closed 9-entry code table (enumerated by abstractly running from_message on an arbitrary argument), who-may-construct XLError; '
              'every reachable loop matches a termination idiom with the interval facts it needs (monotone counters, iterator drains, a stack of open iterators). Not decided: cost of finite '
              'big-integer work and polynomial backtracking of constant regexes; a regex assembled at run time receives no input-sized number of unbounded quantifiers. str() of an error object cannot raise (a __str__ of the error class returns text for every way the object can be built). No lock that its holder cannot take a second time is held while listeners or custom functions run (a callback evaluating on the same parser would wait for ever).',
              'path enumeration + catch-all/handler discipline + literal-table agreement + loop-variant idioms with guard-derived interval facts',
              'DESIGN.md 5 C01'),
    'C02': _c('Whole-package effect analysis from parse(): no write to module/class/instance state during evaluation (allow-list: '
              'emitter bookkeeping, traceback reset), no mutation of host-aliased values (taint through parameters, p[i], '
              'iteration, shallow copies), debug branches only print, shared exception singletons never keep frames, no '
              'unbounded memo, a private token stream per parse, per-parser tables never start out as an object shared between parsers, no hand-made result cache (a decorator whose wrapper stores into a container born with the decorated function), class attributes written through cls / type(self) count as shared state. Structural reason why outcome cannot depend on history; third-party retention not decided.',
              'effect analysis + host-alias taint + typestate on exception singletons over the resolved call graph',
              'DESIGN.md 5 C02'),
    'C03': _c('Structural isolation rules: every yacc parse names a private cloned lexer, all instance state is born in __init__ '
              'from fresh containers, no class-level mutable state or mutable defaults, registry is write-once at import, no ply '
              'module-global API, no lock of any kind held while host code runs, registering modules are imported when the package is, and a parser made by the copy hooks the class defines (__copy__, __deepcopy__, copy, clone) shares no listener list, variable table, function table or LALR engine with its original, carries listeners over under their own names and kinds, and neither side unsubscribes the other (scripted history on the abstract parser object). Necessary conditions for isolation/re-entrancy under every interleaving; races inside ply not decided.',
              'who-may-call / ownership rules over ast + call graph',
              'DESIGN.md 5 C03'),
    'C04': _c('The grammar as data: precedence table vs the stated order, the LALR automaton rebuilt from ast-extracted grammar '
              'and every (completed-operator-item, lookahead) cell of its action table checked against the oracle, production '
              'shapes, operand roles decided by abstractly running each reduce action on symbolic operands, private token stream per parse, comparison nodes evaluate by the defined order (C07 kernel), every prefix production binds above the binary operators, no rewriting pass in front of the lexer and no path of parse() that answers without parsing, lexeme/token/operator agreement, token order, generated-table agreement with the '
              'checked-in parsetab; thorough: LR driver on all token strings to depth 3 vs precedence climbing. Exact arithmetic of the tree value not decided.',
              'LALR table inspection (ply as table generator on extracted data) + abstract interpretation of reduce actions + regex AST + literal-table agreement',
              'DESIGN.md 5 C04'),
    'C05': _c('Lexer/grammar structure: whitespace token first and discarding, no other token absorbs whitespace, separator '
              'actions have the slot shape on every alternative with argument values opaque (shape abstract interpretation), the three '
              'separator families are one grammar, literal assembly, string strip, labels upper-cased, the formula text reaches the lexer as written, one invocation of the called function with every slot. n% float exactness not decided.',
              'regex-AST queries + list-shape abstract interpretation of reduce actions + grammar family isomorphism',
              'DESIGN.md 5 C05'),
    'C06': _c('Conversion table exhaustive and consistent (36 cells: converter matches operand type, + and * symmetric), text/zero-divisor '
              'exits, array dunder table (text scalars broadcast like any scalar), & by type tag, pre-1900 guard, the table\'s date converters as exact piecewise-affine serial maps, a text literal is the text written (no whole-text transformation of the formula before the lexer), the arithmetic path consults no state the library itself writes between calls (ambient-state rule). Decides table structure, not float arithmetic.',
              'evaluated-table agreement + type-tag abstract interpretation + piecewise-affine converters',
              'DESIGN.md 5 C06'),
    'C07': _c('Comparator kernel computed for all ordered type-tag pairs (int,float,bool,str,none,datetime)^2 x (lt,gt,eq) by abstract '
              'interpretation and compared with the rank oracle; trichotomy, antisymmetry, derived operators; a text literal is the text written (no whole-text transformation of the formula before the lexer). Transitivity follows '
              'from rank + native order. NaN and list operands excluded.',
              'type-tag abstract interpretation (complete finite quotient of operand types)',
              'DESIGN.md 5 C07'),
    'C08': _c('Every operator entry point returns the operand error itself (left first) for all tag pairs; error literal aborts; raised '
              'errors become values at the call boundary; functions that bail out on an error item end in that very object; trapping functions decided on tag/origin.',
              'type-tag + origin abstract interpretation, path rules on the call boundary',
              'DESIGN.md 5 C08'),
    'C09': _c('No SyntaxError can leave a reduce action (swallowed by ply), lookup order instance>registry>#NAME?, variable sentinel, '
              'documented names subset of registry, predefined names, registered names lexable as FUNCTION tokens, name tokens handed on verbatim, the registry getter answers only the exact spelling (near-miss names interpreted), no state on the resolution path (actions, callbacks, parse driver), the value a variable callback answers reaches the expression unchanged for every kind of value (date-times, 0, FALSE, empty text, arrays, errors).',
              'exception-class propagation over the call graph + path dominance + table/doc agreement + regex AST',
              'DESIGN.md 5 C09'),
    'C10': _c('Exactly one emit per reference callback on every normal path, one callback per reduction, every pair of label kinds forms a range production, cell/range payload origin, '
              'setter keeps falsy values (the return value of a listener is not an answer), default blank, private token stream per parse, exact label/index converters, the value a cell or range callback answers reaches the expression unchanged for every kind of value (a marker object compared with == is followed into its __eq__).',
              'path enumeration (exactly-once) + origin tracking + type-tag evaluation of setter closures',
              'DESIGN.md 5 C10'),
    'C11': _c('Structural clauses only: error item becomes the result (full drain), whole *args through the flattener, delegation table '
              'name->statistics function, fnmatch roles and a constant table of wildcard criteria (whole cell, ? and *, line breaks), extremum seed, index alignment, items are the values the references were given (C10.R5), the catch-all of parse() covers every exception (C01.R1), empty selection exits, a criterion literal is the text written (C05.R9 restricted to whole-text transformations), the aggregates are registered when the package is imported, no aggregate consults state the library writes between calls. The numeric headline '
              '(aggregate = textbook statistic on all lists) is NOT decided.',
              'delegation-table agreement + role/dataflow rules + summary-list abstract interpretation',
              'DESIGN.md 5 C11'),
    'C12': _c('Predicate truth table over all type tags, derived predicates, parity complement over {0,1}, error conditions propagate, '
              'truthiness and pairing of IF/IFS/SWITCH (a blank result or default is an argument like any other; 2 and 2.0 are the same case; conditions after the first true one play no part, not even an error), rows of tuples are arrays for AND/OR/XOR.',
              'type-tag abstract interpretation + finite-quotient evaluation',
              'DESIGN.md 5 C12'),
    'C13': _c('Both date converters extracted as piecewise-affine maps with exact rationals: inverse, strictly monotone, Excel-1900 offset '
              'from 1 March 1900; single conversion authority. Float rounding below a millisecond not decided.',
              'piecewise-affine abstract interpretation + who-may-convert rule',
              'DESIGN.md 5 C13'),
    'C14': _c('Structural clauses only: accessor<->component, constructor roles, leap predicate over all residues mod 400, month-length '
              'tables vs calendar, #NUM! guards, WEEKDAY numbering over 7x3, EDATE month arithmetic on 12x12 linear forms, DATEDIF y/m/ym component formulas, DAYS/DATEDIF(d) as the serial difference in order; constant ISO 8601 texts reach the text parser or fold to the written components; dateutil.relativedelta modelled on date records. Other third-party date arithmetic NOT decided.',
              'finite-quotient evaluation + table agreement + guard dominance',
              'DESIGN.md 5 C14'),
    'C15': _c('Structural clauses only: no negative-zero slice, negative counts rejected, SUBSTITUTE unchanged-exit independent of the '
              'replacement, a find() position is tested for not-found before it bounds a slice, the k-th occurrence through find()/split() on instance numbers 1..3 and on a constant table (whole-valued float instance numbers included), no identity comparison of computed numbers or texts, tuple rows flattened like lists, TRIM removes spaces only (constant table), joins over all flattened items in order, a text literal is the text written (no whole-text transformation of the formula before the lexer). String-value algebra (idempotence etc.) NOT decided.',
              'guard dominance with interval facts + path-condition dependence + dataflow roles',
              'DESIGN.md 5 C15'),
    'C16': _c('Structural clauses only: delegation table name->math function, coercion+error guard dominates every use (sibling rule), '
              'ATAN2 origin guard and argument roles, inclusive random range, PV closed form satisfies the annuity equation as a '
              'polynomial identity, a complex power is never returned, RANDBETWEEN draws from the inclusive range [a, b] (linear forms), an empty argument in the middle of PV keeps the later ones in place, shared text-to-number coercion. Floating-point accuracy NOT decided.',
              'delegation-table agreement + guard dominance + polynomial normal form identity',
              'DESIGN.md 5 C16'),
    'C17': _c('Structural clauses only: documented domains enforced by dominating guards (interval facts), termination of loops, '
              "the 40-bit two's-complement scheme as the piecewise-affine function HEX2DEC/DEC2HEX/DECIMAL compute over a symbolic integer, ROMAN/ARABIC numeral tables agree, one character per digit, a table of scale factors equals 10**i on its whole index range, HEX2DEC(DEC2HEX(n)) = n folded on 22 constants, FACT and FACTDOUBLE as exact integers on 24 constants each. "
              'Rounding inequalities and round-trip values NOT decided.',
              'guard dominance with interval facts + piecewise-affine abstract interpretation + table agreement across siblings',
              'DESIGN.md 5 C17'),
    'C18': _c('Structural clauses only: no wrap-around indexing (index facts), out-of-range is an error, whole row/column on 0/omitted, '
              'MATCH exact scan first-hit and #N/A exits, wildcard roles and a constant table of wildcard lookups, MATCH +-1 on all 7 order types of x against three sorted symbolic items, text and fractional positions, alternatives of CHOOSE that are not addressed play no part. Arrays longer than the instance shapes NOT decided.',
              'guard dominance with integer interval facts + path rules',
              'DESIGN.md 5 C18'),
    'C19': _c('Label regex language equals the label language (DFA over a 6-class alphabet with Python $ semantics; undecided when extract_label uses no regular expression), 30 constant labels and non-labels (letters and digits of other scripts) through extract_label / to_label and 18 column indices up to seven letters through both converters, capture-group roles, '
              'alphabet constant, exact integer arithmetic in the column and row converters, digit and carry of one step from the same dividend, row converters affine inverses, recomposition order, loop termination, no shared mutable result (mutable default / empty module-level container handed out), the cell and range callbacks build each Cell from the label of the reference at hand (no recalled object, no consulted limit that a constructor writes). Column converters mutually '
              'inverse (bijective base 26) NOT decided.',
              'regex-AST to DFA language equality + affine forms + dataflow roles',
              'DESIGN.md 5 C19'),
    'C20': _c('Structural necessary conditions over all histories: delivery over an order-preserving snapshot to every listener with '
              '(*args, **ctx); on() appends unconditionally; once-wrapper unsubscribes before calling, is found by off(), registered via '
              'on(); off() filter equals the specification on all 8 atom valuations and keeps order; off(name) drops the key; storage keyed '
              'by name only; no list resized inside a loop over itself; off() edits the storage only after looking through the listeners; paired bookkeeping around the delivery restored on every exit; thirteen scripted on/once/off/emit histories with opaque callbacks, run on the abstract emitter, give exactly the prescribed calls. Full trace semantics of arbitrary interleavings NOT decided (model-checking family).',
              'ast pattern rules + path enumeration (ordering/exactly-once) + boolean truth-table evaluation of the filter',
              'DESIGN.md 5 C20'),
}

# properties deliberately not claimed (filled in when a check is withdrawn)
NOT_APPLICABLE = {}
