# -*- coding: utf-8 -*-
"""Lazily built shared engines for one check run."""
from .callgraph import CallGraph
from .grammar import Grammar


class Ctx(object):
    def __init__(self, model):
        self.model = model
        self._cg = None
        self._g = None
        self._eff = None
        self._reach = None
        self.allow_no_grammar = False

    @property
    def cg(self):
        if self._cg is None:
            self._cg = CallGraph(self.model)
        return self._cg

    @property
    def grammar(self):
        if self._g is None:
            self._g = Grammar(self.model)
        return self._g

    @property
    def root(self):
        return self.cg.public_parse_root()

    @property
    def reach(self):
        if self._reach is None:
            self._reach = self.cg.reachable([self.root])
        return self._reach

    @property
    def effects(self):
        """Whole-program effect analysis from the evaluation roots (run once, events collected)."""
        if self._eff is None:
            from .effects import Effects
            try:
                g = self.grammar
            except Exception:
                if not self.allow_no_grammar:
                    raise
                g = None
            eff = Effects(self.model, self.cg, g)
            cg = self.cg
            eff.analyse(self.root)
            from .effects import _PSym
            for k in sorted(cg.p_roots):
                m, f = cg.funcs[k]
                base = eff.default_args(k)
                prods = [p for p in g.productions if p.funcname == f.name] if g is not None else []
                if not prods:
                    eff.analyse(k)
                for p in prods:     # one context per production alternative: len(p) and the symbol kinds are known
                    eff.analyse(k, [(_PSym(eff, m, f, p) if isinstance(a, _PSym) else a) for a in base])
            for k in sorted(cg.t_roots) + sorted(cg.registry_keys):
                eff.analyse(k)
            for k in sorted(self.reach):
                if k not in eff.analysed:
                    eff.analyse(k)
            self._eff = eff
        return self._eff


def get(model):
    c = getattr(model, '_hx_ctx', None)
    if c is None:
        c = Ctx(model)
        model._hx_ctx = c
    return c
