# -*- coding: utf-8 -*-
"""E5 - ownership / effect analysis.

An abstract interpretation of function bodies over an *ownership* domain.  An abstract value says which kind of
object an expression may denote and, for containers, what its elements may be:

    fresh   a container/object created by the evaluation itself
    host    may alias a value supplied by the host (variable / cell / range value, argument, operand)
    state   may alias persistent state: an attribute of a long-lived object (parser, emitter, dispatcher),
            a class attribute, or a module-level mutable object           (carries a description)
    immut   immutable (number, string, None, function, ...)
    unknown result of something not modelled (never reported)

The interpreter is structured (join at merges, loops iterated to a small fixpoint), context-sensitive (callees are
analysed with the ownership of the actual arguments, memoised) and records every *mutation event*:
mutator-method calls, subscript/attribute stores and deletes, in-place list operators, ``global`` stores.
Rules classify events by the receiver's ownership.
"""
import ast

from .model import src
from .paths import walk_no_defs
from . import sa

MUTATORS = set(['append', 'extend', 'insert', 'pop', 'remove', 'clear', 'sort', 'reverse', 'update', 'setdefault',
                'add', 'discard', 'popitem', 'appendleft', 'popleft', 'extendleft', 'rotate', '__setitem__',
                '__delitem__', 'difference_update', 'intersection_update', 'symmetric_difference_update',
                'move_to_end', 'cache_clear'])

IMMUT_BUILTINS = set(['len', 'int', 'float', 'str', 'bool', 'abs', 'ord', 'chr', 'isinstance', 'issubclass', 'type',
                      'round', 'hasattr', 'repr', 'hash', 'id', 'callable', 'all', 'any', 'divmod', 'pow', 'format',
                      'complex', 'print', 'bin', 'hex', 'oct', 'bytes', 'range', 'slice', 'super', 'object'])
COPYING = set(['list', 'tuple', 'sorted', 'set', 'frozenset', 'reversed', 'iter', 'dict'])
ELEMENT_RETURNING = set(['sum', 'min', 'max', 'next'])
IMMUT_MODULES = set(['math', 'statistics', 'random', 're', 'operator', 'fnmatch', 'datetime', 'time', 'calendar',
                     'fractions', 'decimal', 'string', 'os', 'sys', 'traceback', 'logging'])
STR_METHODS = set(['upper', 'lower', 'title', 'strip', 'lstrip', 'rstrip', 'replace', 'join', 'split', 'rsplit',
                   'format', 'rjust', 'ljust', 'zfill', 'startswith', 'endswith', 'find', 'rfind', 'index', 'count',
                   'group', 'groups', 'groupdict', 'match', 'search', 'fullmatch', 'sub', 'findall', 'isdigit',
                   'isalpha', 'encode', 'decode', 'capitalize', 'swapcase', 'casefold', 'partition', 'splitlines',
                   'total_seconds', 'weekday', 'isoweekday', 'time', 'date', 'strftime', 'toordinal', 'timestamp',
                   'limit_denominator', 'is_integer', 'bit_length', 'conjugate', 'real', 'imag', 'span', 'start', 'end'])


class Own(object):
    """roots: frozenset of atoms ('fresh' | 'host' | 'immut' | 'unknown' | ('state', desc)); elem: Own or None
    (None = elements have the same ownership as the container)."""
    __slots__ = ('roots', 'elem', '_h')

    def __init__(self, roots, elem=None):
        self.roots = frozenset(roots)
        self.elem = elem
        self._h = None

    def key(self, depth=0):
        if depth > 3 or self.elem is None:
            return (tuple(sorted(map(str, self.roots))), None)
        return (tuple(sorted(map(str, self.roots))), self.elem.key(depth + 1))

    def __eq__(self, other):
        return isinstance(other, Own) and self.key() == other.key()

    def __hash__(self):
        if self._h is None:
            self._h = hash(self.key())
        return self._h

    def has(self, kind):
        for r in self.roots:
            if r == kind or (isinstance(r, tuple) and r[0] == kind):
                return True
        return False

    def states(self):
        return sorted(r[1] for r in self.roots if isinstance(r, tuple) and r[0] == 'state')

    def element(self):
        if self.elem is not None:
            return self.elem
        if self.roots <= frozenset(['immut']):
            return IMMUT
        return self

    def __repr__(self):
        rs = ','.join(sorted(r if isinstance(r, str) else '%s:%s' % r for r in self.roots))
        return '<%s%s>' % (rs, '' if self.elem is None else ' of %r' % (self.elem,))


IMMUT = Own(['immut'])
UNKNOWN = Own(['unknown'])
HOST = Own(['host'])


def FRESH(elem=None):
    return Own(['fresh'], elem if elem is not None else IMMUT)


def STATE(desc):
    # elements of persistent containers are persistent and may be host-supplied (variables table)
    return Own([('state', desc)])


def join(a, b, depth=0):
    if a is None:
        return b
    if b is None:
        return a
    if a is b or a == b:
        return a
    roots = a.roots | b.roots
    only_immut = frozenset(['immut'])
    if depth > 3:
        return Own(roots, None)
    if a.roots <= only_immut and a.elem is None:
        return Own(roots, b.elem)
    if b.roots <= only_immut and b.elem is None:
        return Own(roots, a.elem)
    if a.elem is None and b.elem is None:
        return Own(roots, None)
    ea = a.elem if a.elem is not None else Own(a.roots, None)
    eb = b.elem if b.elem is not None else Own(b.roots, None)
    return Own(roots, join(ea, eb, depth + 1))


def joinall(xs):
    out = None
    for x in xs:
        out = join(out, x)
    return out if out is not None else IMMUT


class Event(object):
    def __init__(self, key, module, func, node, kind, receiver, detail, chain, value=None, attr=None):
        self.value = value          # ownership of the stored value (attribute stores)
        self.attr = attr            # (class name, attribute) for stores through self
        self.key = key              # function key where the event occurs
        self.module = module
        self.func = func
        self.node = node
        self.kind = kind            # 'call' | 'store' | 'delete' | 'iop' | 'global'
        self.receiver = receiver    # Own
        self.detail = detail
        self.chain = chain          # call-string (tuple of function keys)

    def where(self):
        return self.module.where(self.node)


class Effects(object):
    def __init__(self, model, cg, grammar=None, persistent=None):
        self.model = model
        self.cg = cg
        self.grammar = grammar
        self.events = []
        self._memo = {}
        self._active = set()
        self.persistent = persistent if persistent is not None else self._persistent_classes()
        self._sym_fresh = None
        self.analysed = set()
        self.max_depth = 10

    # -- which classes hold persistent state --------------------------------------------------
    def class_attr_stores(self):
        """{(class name, attr)} assigned through the class name anywhere in the package (``Cls.attr = ...``)."""
        if getattr(self, '_cas', None) is None:
            out = set()
            for m in self.model.modules.values():
                for n in ast.walk(m.tree):
                    tg = []
                    if isinstance(n, ast.Assign):
                        tg = n.targets
                    elif isinstance(n, (ast.AugAssign, ast.AnnAssign)):
                        tg = [n.target]
                    for t in tg:
                        for x in ast.walk(t):
                            if isinstance(x, ast.Attribute) and isinstance(x.value, ast.Name) and isinstance(x.ctx, ast.Store):
                                r = self.model.resolve(m, x.value.id)
                                if r is not None and r[0] == 'class':
                                    out.add((r[2].name, x.attr))
                                    continue
                                # cls.attr = ...  inside a classmethod of the class
                                fn_ = m.enclosing_function(x)
                                if fn_ is not None and any(src(d_) == 'classmethod' for d_ in fn_.decorator_list) and fn_.args.args and \
                                        fn_.args.args[0].arg == x.value.id:
                                    cn = m.qualname_of(fn_).split('.')[0]
                                    out.add((cn, x.attr))
            self._cas = out
        return self._cas

    def _persistent_classes(self):
        model, cg = self.model, self.cg
        out = set()
        try:
            root = cg.public_parse_root()
            m, c = cg.cls_of[root]
            work = [(m, c)]
        except Exception:
            work = []
        # classes instantiated at module level
        for m in model.modules.values():
            for node in m.tree.body:
                if isinstance(node, ast.Assign) and isinstance(node.value, ast.Call):
                    r = model.resolve_attr_chain(m, node.value.func)
                    if r and r[0] == 'class':
                        work.append((r[1], r[2]))
        while work:
            m, c = work.pop()
            for mm, cc in model.mro(m, c):
                if id(cc) in out:
                    continue
                out.add(id(cc))
                # classes instantiated into self attributes
                for n in ast.walk(cc):
                    if isinstance(n, ast.Assign) and isinstance(n.value, ast.Call) and \
                            any(isinstance(t, ast.Attribute) for t in n.targets):
                        r = model.resolve_attr_chain(mm, n.value.func)
                        if r and r[0] == 'class':
                            work.append((r[1], r[2]))
        return out

    def is_persistent_class(self, cls):
        return id(cls) in self.persistent

    # -- grammar symbol freshness -----------------------------------------------------------------
    def symbol_own(self, sym):
        """Ownership of the semantic value of a grammar symbol."""
        g = self.grammar
        if g is None:
            return HOST
        if sym in g.tokens:
            return IMMUT
        if self._sym_fresh is None:
            self._compute_symbol_owns()
        return self._sym_fresh.get(sym, HOST)

    def _compute_symbol_owns(self):
        g = self.grammar
        nts = sorted(set(p.name for p in g.productions))
        # optimistic start (fresh), iterate down
        cur = dict((n, FRESH(IMMUT)) for n in nts)
        self._sym_fresh = cur
        for _ in range(8):
            changed = False
            for n in nts:
                owns = []
                for p in g.productions:
                    if p.name == n:
                        m, f = g.action_funcs[p.funcname]
                        owns.append(self._action_result(m, f, p))
                new = joinall(owns)
                if new != cur[n]:
                    cur[n] = new
                    changed = True
            if not changed:
                break

    def symbol_is_sequence(self, sym):
        """Every action for the nonterminal yields a list display / a list built from one (never the bare value of a symbol)."""
        g = self.grammar
        cache = self.__dict__.setdefault('_seq_syms', {})
        if sym in cache:
            return cache[sym]
        cache[sym] = False
        ok = True
        any_prod = False
        for p in g.productions:
            if p.name != sym:
                continue
            any_prod = True
            m, f = g.action_funcs[p.funcname]
            for n in walk_no_defs(f):
                if isinstance(n, ast.Assign) and any(isinstance(t, ast.Subscript) and _const_index(t.slice) == 0 for t in n.targets):
                    v = n.value
                    if isinstance(v, ast.Name) and not isinstance(f, ast.Lambda):
                        asg = sa.assignments_to(f, v.id)
                        if len(asg) == 1 and asg[0][1] is not None:
                            v = asg[0][1]
                    good = isinstance(v, (ast.List, ast.ListComp)) or (isinstance(v, ast.BinOp) and isinstance(v.op, ast.Add)) or \
                        (isinstance(v, ast.Call) and isinstance(v.func, ast.Name) and v.func.id == 'list')
                    if not good and isinstance(v, ast.Subscript) and isinstance(v.value, ast.Name):
                        k = _const_index(v.slice)
                        # p[0] = p[k] with p[k] a sequence symbol itself (in some alternative): fine when that symbol is one
                        syms = set(q.syms[k - 1] for q in g.productions if q.funcname == p.funcname and isinstance(k, int) and 1 <= k <= len(q.syms))
                        good = bool(syms) and all(s_ == sym or (s_ in g.nonterminals() and s_ != sym and self.symbol_is_sequence(s_)) or s_ not in g.nonterminals()
                                                  for s_ in syms) and any(s_ in g.nonterminals() for s_ in syms)
                    if not good:
                        ok = False
        cache[sym] = ok and any_prod
        return cache[sym]

    def _action_result(self, m, f, prod):
        """Ownership of p[0] after the action for one production alternative (join over all stores)."""
        key = (m.name, m.qualname_of(f))
        args = self.default_args(key)
        args = [(_PSym(self, m, f, prod) if isinstance(a, _PSym) else a) for a in args]
        interp = _Interp(self, key, m, f, args, (), record=False)
        interp.run()
        return interp.p0 if interp.p0 is not None else IMMUT

    # -- driver ---------------------------------------------------------------------------------------
    def analyse(self, key, args=None, chain=()):
        """Analyse function ``key`` with argument ownerships ``args`` (list aligned with positional
        parameters; vararg bound to a fresh tuple of the rest).  Returns the ownership of the result."""
        if key not in self.cg.funcs:
            return UNKNOWN
        if '.<locals>.' in key[1] and args is None:
            # a nested function is analysed as part of (the end of) its enclosing function, with its closure
            outer = (key[0], key[1].split('.<locals>.')[0])
            self.analyse(outer, None, chain)
            return UNKNOWN
        m, f = self.cg.funcs[key]
        if args is None:
            args = self.default_args(key)
            # a grammar action that serves several production alternatives is analysed once per alternative: which symbol p[k] is,
            # and so what a branch on len(p) or on the kind of a symbol decides, is fixed by the alternative
            if self.grammar is not None and any(isinstance(a, _PSym) and a.prod is None for a in args):
                prods = [p_ for p_ in self.grammar.productions if p_.funcname == f.name]
                if len(prods) > 1:
                    rets = []
                    for p_ in prods:
                        a2 = [(_PSym(self, m, f, p_) if isinstance(a, _PSym) else a) for a in args]
                        rets.append(self.analyse(key, a2, chain))
                    return joinall(rets)
        memo_key = (key, tuple(a.key() if isinstance(a, Own) else id(a) for a in args))
        if memo_key in self._memo:
            return self._memo[memo_key]
        if memo_key in self._active or len(chain) > self.max_depth:
            return UNKNOWN
        self._active.add(memo_key)
        self.analysed.add(key)
        try:
            interp = _Interp(self, key, m, f, args, chain + (key,), record=True)
            ret = interp.run()
        finally:
            self._active.discard(memo_key)
        self._memo[memo_key] = ret
        return ret

    def default_args(self, key):
        """Entry context of a root: registered functions and operator dunders receive host values; grammar actions
        receive the production object; methods of persistent classes receive ``self`` as state."""
        m, f = self.cg.funcs[key]
        ps = sa.params(f)
        out = []
        owner = self.cg.cls_of.get(key)
        for i, p in enumerate(ps):
            if i == 0 and owner is not None:
                out.append(_SelfOwn(self, owner) if self.is_persistent_class(owner[1]) else FRESH(HOST))
            elif owner is not None and f.name.startswith('p_') and i == 1 and self.grammar is not None \
                    and (f.name in self.grammar.action_funcs or f.name == 'p_error'):
                out.append(_PSym(self, m, f))
            elif i == 1 and self.grammar is not None and self._wraps_actions(key):
                # the wrapper a decorator puts in the place of grammar actions: its second parameter is the production object
                ps_ = _PSym(self, m, f)
                ps_.funcnames = self._wraps_actions(key)
                out.append(ps_)
            else:
                out.append(HOST)
        return out


def _effects_wraps_actions(self, key):
    """Names of the grammar actions whose decorator is the (outermost) function this nested function lives in; () otherwise."""
    cache = self.__dict__.setdefault('_wraps_cache', {})
    if key in cache:
        return cache[key]
    out = ()
    if '.<locals>.' in key[1] and self.grammar is not None:
        outer = key[1].split('.<locals>.')[0]
        names = []
        for fname, (am, af) in self.grammar.action_funcs.items():
            for d in getattr(af, 'decorator_list', []):
                target = d.func if isinstance(d, ast.Call) else d
                r = self.model.resolve_attr_chain(am, target) if isinstance(target, (ast.Name, ast.Attribute)) else None
                if r is not None and r[0] == 'func' and r[1].name == key[0] and r[1].qualname_of(r[2]) == outer:
                    names.append(fname)
        out = tuple(sorted(names))
    cache[key] = out
    return out


Effects._wraps_actions = _effects_wraps_actions


class _SelfOwn(Own):
    """``self`` of a persistent class: attributes are persistent state."""
    __slots__ = ('eff', 'owner')

    def __init__(self, eff, owner):
        Own.__init__(self, [('state', 'self')])
        self.eff = eff
        self.owner = owner

    def key(self, depth=0):
        return (('self', self.owner[1].name), None)


class _PSym(Own):
    """The YaccProduction parameter of a grammar action: p[k] has the ownership of the k-th symbol."""
    __slots__ = ('eff', 'module', 'func', 'prod', 'funcnames')

    def __init__(self, eff, module, func, prod=None):
        Own.__init__(self, ['fresh'])
        self.eff = eff
        self.module = module
        self.func = func
        self.prod = prod        # a specific production alternative (then len(p) is known), or None = all of them
        self.funcnames = None   # names of the grammar actions this (wrapper) function stands for, when it is not an action itself

    def key(self, depth=0):
        return (('psym', self.func.name, self.prod.index if self.prod is not None else None), None)

    def plen(self):
        return len(self.prod.syms) + 1 if self.prod is not None else None

    def sym_own(self, k):
        g = self.eff.grammar
        if g is None:
            return HOST
        owns = []
        for p in g.productions:
            if self.prod is not None and p is not self.prod:
                continue
            if p.funcname == getattr(self.func, 'name', None) or (self.funcnames and p.funcname in self.funcnames):
                if k is None:
                    for s in p.syms:
                        owns.append(self.eff.symbol_own(s))
                elif 1 <= k <= len(p.syms):
                    owns.append(self.eff.symbol_own(p.syms[k - 1]))
        return joinall(owns) if owns else IMMUT


class _Interp(object):
    def __init__(self, eff, key, module, func, args, chain, record):
        self.eff = eff
        self.key = key
        self.m = module
        self.f = func
        self.chain = chain
        self.record = record
        self.ret = None
        self.p0 = None
        self.is_gen = any(isinstance(n, (ast.Yield, ast.YieldFrom)) for n in walk_no_defs(func))
        self.globals_decl = set()
        for n in walk_no_defs(func):
            if isinstance(n, ast.Global):
                self.globals_decl.update(n.names)
        self.env = {}
        ps = sa.params(func) if not isinstance(func, ast.Lambda) else [a.arg for a in func.args.args]
        for i, p in enumerate(ps):
            self.env[p] = args[i] if i < len(args) else self._default_own(func, i, len(ps))
        va = func.args.vararg.arg if func.args.vararg else None
        if va:
            rest = args[len(ps):]
            self.env[va] = FRESH(joinall(rest) if rest else HOST)
        kw = func.args.kwarg.arg if func.args.kwarg else None
        if kw:
            self.env[kw] = FRESH(HOST)
        for a in func.args.kwonlyargs:
            self.env[a.arg] = HOST
        self.closure_env = None

    def _default_own(self, func, i, n):
        if i == 1 and self.eff.grammar is not None and not isinstance(func, ast.Lambda):
            names = self.eff._wraps_actions(self.key)
            if names:
                # the wrapper a decorator puts in the place of grammar actions: its second parameter is the production object
                ps_ = _PSym(self.eff, self.m, func)
                ps_.funcnames = names
                return ps_
        defaults = func.args.defaults
        k = i - (n - len(defaults))
        if 0 <= k < len(defaults):
            d = defaults[k]
            if isinstance(d, (ast.List, ast.Dict, ast.Set)):
                return STATE('mutable default argument of %s' % getattr(func, 'name', 'lambda'))
            return IMMUT
        return HOST

    # -- events ---------------------------------------------------------------------------------
    def event(self, node, kind, receiver, detail, value=None, attr=None):
        if not self.record or receiver is None:
            return
        self.eff.events.append(Event(self.key, self.m, self.f, node, kind, receiver, detail, self.chain, value, attr))

    # -- statements -------------------------------------------------------------------------------
    def _scan_host_fed(self):
        """Local names of this function that an *escaping* nested function fills from its own parameters (the setter closure handed
        to listeners: ``result['value'] = new_value`` / ``nonlocal value; value = new_value``): what they hold is host-supplied,
        whichever statement of the outer function reads it."""
        self._fed_containers, self._fed_scalars = set(), set()
        if isinstance(self.f, ast.Lambda):
            return
        nested = [n for n in ast.walk(self.f) if isinstance(n, (ast.FunctionDef, ast.AsyncFunctionDef)) and n is not self.f]
        for g in nested:
            callees = set(id(c.func) for c in ast.walk(self.f) if isinstance(c, ast.Call))
            escapes = any(isinstance(x, ast.Name) and x.id == g.name and isinstance(x.ctx, ast.Load) and id(x) not in callees
                          for x in ast.walk(self.f))
            if not escapes:
                continue
            ps = set(a.arg for a in g.args.posonlyargs + g.args.args + g.args.kwonlyargs)
            if g.args.vararg:
                ps.add(g.args.vararg.arg)
            local = set(ps)
            nonlocals = set()
            for x in ast.walk(g):
                if isinstance(x, ast.Nonlocal):
                    nonlocals.update(x.names)
            for x in ast.walk(g):
                if isinstance(x, ast.Assign):
                    for t in x.targets:
                        if isinstance(t, ast.Name) and t.id not in nonlocals:
                            local.add(t.id)
            for x in ast.walk(g):
                if not isinstance(x, ast.Assign) or not any(isinstance(y, ast.Name) and y.id in ps for y in ast.walk(x.value)):
                    continue
                for t in x.targets:
                    if isinstance(t, (ast.Subscript, ast.Attribute)) and isinstance(t.value, ast.Name) and t.value.id not in local:
                        self._fed_containers.add(t.value.id)
                    if isinstance(t, ast.Name) and t.id in nonlocals:
                        self._fed_scalars.add(t.id)

    def run(self):
        body = self.f.body if not isinstance(self.f, ast.Lambda) else [ast.Return(value=self.f.body)]
        self._scan_host_fed()
        self.block(body, self.env)
        # nested functions may escape (callbacks handed to listeners): analyse them with host arguments
        for name, node in sorted(getattr(self, '_nested', {}).items()):
            key = (self.m.name, self.m.qualname_of(node))
            if key in self.chain:
                continue
            sub = _Interp(self.eff, key, self.m, node, [], self.chain + (key,), self.record)
            sub.closure_env = dict(self.closure_env or {})
            sub.closure_env.update(self.env)
            self.eff.analysed.add(key)
            sub.run()
        if self.is_gen:
            return FRESH(self.ret if self.ret is not None else IMMUT)
        return self.ret if self.ret is not None else IMMUT

    def block(self, stmts, env):
        for s in stmts:
            self.stmt(s, env)

    def _join_env(self, a, b):
        out = {}
        for k in set(a) | set(b):
            if k in a and k in b:
                out[k] = join(a[k], b[k])
            else:
                out[k] = a.get(k) or b.get(k)
        return out

    def stmt(self, s, env):
        if isinstance(s, ast.Assign):
            v = self.expr(s.value, env)
            for t in s.targets:
                self.assign(t, v, env, s)
        elif isinstance(s, ast.AnnAssign):
            if s.value is not None:
                self.assign(s.target, self.expr(s.value, env), env, s)
        elif isinstance(s, ast.AugAssign):
            v = self.expr(s.value, env)
            t = s.target
            if isinstance(t, ast.Name):
                cur = self.lookup(t.id, env)
                # in-place list operators mutate the object the name is bound to
                if isinstance(s.op, (ast.Add, ast.Mult, ast.BitOr, ast.BitAnd, ast.Sub, ast.BitXor)) and \
                        not (v.roots <= frozenset(['immut'])) and not isinstance(s.value, ast.Constant):
                    if isinstance(s.op, (ast.Add, ast.Mult)) and isinstance(s.value, (ast.List, ast.ListComp)) or \
                            (v.has('fresh') and isinstance(s.op, ast.Add)) or isinstance(s.value, (ast.List, ast.ListComp, ast.Set, ast.Dict)):
                        self.event(s, 'iop', cur, '%s %s= %s' % (t.id, type(s.op).__name__, src(s.value)))
                if t.id in self.globals_decl:
                    self.event(s, 'global', STATE('%s.%s' % (self.m.name, t.id)), 'global %s rebound' % t.id)
                if not cur.roots <= frozenset(['immut']):
                    # either the same object updated in place (list/set: it now also holds v's elements) or a new object; never v itself
                    env[t.id] = Own(cur.roots | frozenset(['fresh']), join(cur.element(), v.element()))
                elif v.roots <= frozenset(['immut']):
                    env[t.id] = IMMUT
                else:
                    # an immutable left operand: ``x += v`` rebinds x to the new object ``x + v`` (same value as the BinOp)
                    env[t.id] = FRESH(join(cur.element(), v.element())) if isinstance(s.op, ast.Add) else IMMUT
            else:
                base = self.expr(t.value, env)
                self.event(s, 'store', base, src(t))
        elif isinstance(s, ast.Delete):
            for t in s.targets:
                if isinstance(t, (ast.Subscript, ast.Attribute)):
                    self.event(s, 'delete', self.expr(t.value, env), 'del ' + src(t))
                elif isinstance(t, ast.Name):
                    env.pop(t.id, None)
        elif isinstance(s, ast.Expr):
            self.expr(s.value, env)
        elif isinstance(s, ast.Return):
            v = self.expr(s.value, env) if s.value is not None else IMMUT
            if not self.is_gen:
                self.ret = join(self.ret, v)
        elif isinstance(s, ast.If):
            self.expr(s.test, env)
            verdict = self.static_test(s.test, env)
            if verdict is True:
                self.block(s.body, env)
                return
            if verdict is False:
                self.block(s.orelse, env)
                return
            e1 = dict(env)
            e2 = dict(env)
            self.block(s.body, e1)
            self.block(s.orelse, e2)
            env.clear()
            env.update(self._join_env(e1, e2))
        elif hasattr(ast, 'Match') and isinstance(s, ast.Match):
            subj = self.expr(s.subject, env)
            envs = []
            for case in s.cases:
                e1 = dict(env)
                for x in ast.walk(case.pattern):
                    nm = getattr(x, 'name', None)
                    if isinstance(x, (ast.MatchAs, ast.MatchStar)) and nm:
                        e1[nm] = join(subj, subj.element())
                    if isinstance(x, ast.MatchMapping) and x.rest:
                        e1[x.rest] = FRESH(subj.element())
                if case.guard is not None:
                    self.expr(case.guard, e1)
                self.block(case.body, e1)
                envs.append(e1)
            merged = dict(env)
            for e1 in envs:
                merged = self._join_env(merged, e1)
            env.clear()
            env.update(merged)
        elif isinstance(s, (ast.For, ast.AsyncFor)):
            it = self.expr(s.iter, env)
            for _ in range(3):
                before = dict(env)
                self.assign(s.target, it.element(), env, s)
                self.block(s.body, env)
                merged = self._join_env(before, env)
                same = all(merged.get(k) == before.get(k) for k in merged)
                env.clear()
                env.update(merged)
                if same:
                    break
            self.block(s.orelse, env)
        elif isinstance(s, ast.While):
            for _ in range(3):
                before = dict(env)
                self.expr(s.test, env)
                self.block(s.body, env)
                merged = self._join_env(before, env)
                same = all(merged.get(k) == before.get(k) for k in merged)
                env.clear()
                env.update(merged)
                if same:
                    break
            self.block(s.orelse, env)
        elif isinstance(s, ast.Try):
            before = dict(env)
            self.block(s.body, env)
            after = self._join_env(before, env)
            outs = []
            e0 = dict(env)
            self.block(s.orelse, e0)
            outs.append(e0)
            for h in s.handlers:
                eh = dict(after)
                if h.name:
                    eh[h.name] = Own(['exception'])
                if h.type is not None:
                    self.expr(h.type, eh)
                self.block(h.body, eh)
                outs.append(eh)
            merged = outs[0]
            for o in outs[1:]:
                merged = self._join_env(merged, o)
            env.clear()
            env.update(merged)
            self.block(s.finalbody, env)
        elif isinstance(s, (ast.With, ast.AsyncWith)):
            for it in s.items:
                v = self.expr(it.context_expr, env)
                if it.optional_vars is not None:
                    self.assign(it.optional_vars, UNKNOWN, env, s)
            self.block(s.body, env)
        elif isinstance(s, ast.Raise):
            if s.exc is not None:
                self.expr(s.exc, env)
        elif isinstance(s, (ast.FunctionDef, ast.AsyncFunctionDef)):
            env[s.name] = IMMUT
            # the nested function is analysed when called; if it escapes (stored/passed), analyse it with host arguments
            self._nested = getattr(self, '_nested', {})
            self._nested[s.name] = s
        elif isinstance(s, ast.Assert):
            self.expr(s.test, env)
        elif isinstance(s, (ast.Pass, ast.Break, ast.Continue, ast.Global, ast.Nonlocal, ast.Import, ast.ImportFrom,
                            ast.ClassDef)):
            pass
        elif hasattr(ast, 'Match') and isinstance(s, ast.Match):
            self.expr(s.subject, env)
            for c in s.cases:
                self.block(c.body, env)

    def static_test(self, t, env):
        """Branch decisions that are fixed by the production alternative: comparisons of len(p) with constants."""
        if isinstance(t, ast.UnaryOp) and isinstance(t.op, ast.Not):
            v = self.static_test(t.operand, env)
            return None if v is None else (not v)
        if isinstance(t, ast.BoolOp):
            vals = [self.static_test(v, env) for v in t.values]
            if isinstance(t.op, ast.And):
                if any(v is False for v in vals):
                    return False
                return True if all(v is True for v in vals) else None
            if any(v is True for v in vals):
                return True
            return False if all(v is False for v in vals) else None
        if isinstance(t, ast.Compare) and len(t.ops) == 1:
            l, r = t.left, t.comparators[0]
            n = None
            c = None
            # the kind of a symbol:  p.slice[k].type in ('a', 'b')  /  str(p.slice[k]) in (...)  /  == 'a'
            kind = self._slice_kind(l, env)
            if kind is not None and isinstance(t.ops[0], (ast.In, ast.NotIn, ast.Eq, ast.NotEq)):
                try:
                    names = ast.literal_eval(r)
                except (ValueError, SyntaxError):
                    names = None
                if isinstance(names, str) and isinstance(t.ops[0], (ast.Eq, ast.NotEq)):
                    hit = kind == names
                    return hit if isinstance(t.ops[0], ast.Eq) else (not hit)
                if isinstance(names, (tuple, list, set, frozenset)) and isinstance(t.ops[0], (ast.In, ast.NotIn)):
                    hit = kind in names
                    return hit if isinstance(t.ops[0], ast.In) else (not hit)
            # a sequence the grammar built (a list) is never equal to the text of a separator token
            if isinstance(t.ops[0], (ast.Eq, ast.NotEq)):
                for a, b in ((l, r), (r, l)):
                    if isinstance(b, ast.Constant) and isinstance(b.value, str):
                        sym = self._p_symbol(a, env)
                        if sym is not None and self.eff.grammar is not None and sym in self.eff.grammar.nonterminals() \
                                and self.eff.symbol_is_sequence(sym):
                            return isinstance(t.ops[0], ast.NotEq)
            l = self._len_alias(l, env)
            r = self._len_alias(r, env)
            for a, b in ((l, r), (r, l)):
                if isinstance(a, ast.Call) and isinstance(a.func, ast.Name) and a.func.id == 'len' and len(a.args) == 1 \
                        and isinstance(a.args[0], ast.Name) and isinstance(env.get(a.args[0].id), _PSym) \
                        and isinstance(b, ast.Constant) and isinstance(b.value, int):
                    n = env[a.args[0].id].plen()
                    c = b.value
                    flipped = a is r
            if n is None or c is None:
                return None
            op = t.ops[0]
            if flipped:
                n, c = c, n
            if isinstance(op, ast.Eq):
                return n == c
            if isinstance(op, ast.NotEq):
                return n != c
            if isinstance(op, ast.Lt):
                return n < c
            if isinstance(op, ast.LtE):
                return n <= c
            if isinstance(op, ast.Gt):
                return n > c
            if isinstance(op, ast.GtE):
                return n >= c
        return None

    def _len_alias(self, e, env):
        """n  ->  len(p)  when the local n is bound exactly once, to len(p)."""
        if isinstance(e, ast.Name) and e.id not in env or isinstance(e, ast.Name) and not isinstance(env.get(e.id), _PSym):
            if isinstance(self.f, ast.Lambda):
                return e
            asg = sa.assignments_to(self.f, e.id)
            if len(asg) == 1 and asg[0][1] is not None:
                v = asg[0][1]
                if isinstance(v, ast.Call) and isinstance(v.func, ast.Name) and v.func.id == 'len' and len(v.args) == 1 and \
                        isinstance(v.args[0], ast.Name) and isinstance(env.get(v.args[0].id), _PSym):
                    return v
        return e

    def _p_index(self, e, env):
        """k when ``e`` is p[k] (or a local bound exactly once to p[k]) of the production parameter."""
        if isinstance(e, ast.Name) and not isinstance(self.f, ast.Lambda) and not isinstance(env.get(e.id), _PSym):
            asg = sa.assignments_to(self.f, e.id)
            if len(asg) == 1 and asg[0][1] is not None:
                e = asg[0][1]
        if isinstance(e, ast.Subscript) and isinstance(e.value, ast.Name) and isinstance(env.get(e.value.id), _PSym):
            k = _const_index(e.slice)
            if isinstance(k, int):
                return env[e.value.id], k
        return None

    def _p_symbol(self, e, env):
        pk = self._p_index(e, env)
        if pk is None or pk[0].prod is None or not 1 <= pk[1] <= len(pk[0].prod.syms):
            return None
        return pk[0].prod.syms[pk[1] - 1]

    def _slice_kind(self, e, env):
        """Grammar symbol named by  p.slice[k].type  /  str(p.slice[k])  for a known production alternative."""
        if isinstance(e, ast.Call) and isinstance(e.func, ast.Name) and e.func.id == 'str' and len(e.args) == 1:
            e = e.args[0]
        elif isinstance(e, ast.Attribute) and e.attr == 'type':
            e = e.value
        else:
            return None
        if isinstance(e, ast.Subscript) and isinstance(e.value, ast.Attribute) and e.value.attr == 'slice' and \
                isinstance(e.value.value, ast.Name) and isinstance(env.get(e.value.value.id), _PSym):
            ps = env[e.value.value.id]
            k = _const_index(e.slice)
            if ps.prod is not None and isinstance(k, int) and 1 <= k <= len(ps.prod.syms):
                return ps.prod.syms[k - 1]
        return None

    def assign(self, t, v, env, stmt):
        if isinstance(t, ast.Name):
            if t.id in self.globals_decl:
                self.event(stmt, 'global', STATE('%s.%s' % (self.m.name, t.id)), 'global %s rebound' % t.id)
            env[t.id] = v
        elif isinstance(t, (ast.Tuple, ast.List)):
            for e in t.elts:
                if isinstance(e, ast.Starred):
                    self.assign(e.value, FRESH(v.element()), env, stmt)
                else:
                    self.assign(e, v.element(), env, stmt)
        elif isinstance(t, ast.Subscript):
            base = self.expr(t.value, env)
            if isinstance(base, _PSym):
                k = _const_index(t.slice)
                if k == 0:
                    self.p0 = join(self.p0, v)
                    env['<p0>'] = v
                    return      # the framework's return channel
                self.event(stmt, 'store', HOST, src(t) + ' (production slot other than 0)')
                return
            self.expr(t.slice, env)
            self.event(stmt, 'store', base, src(t))
        elif isinstance(t, ast.Attribute):
            cls = self._package_class(t.value, env)
            if cls is not None:
                # Cls.attr = ...  rebinding a class attribute: state shared by every instance
                self.event(stmt, 'store', STATE('class attribute %s.%s' % (cls[1].name, t.attr)), src(t), value=v)
                return
            base = self.expr(t.value, env)
            if isinstance(base, _SelfOwn):
                self.event(stmt, 'store', STATE('%s.%s' % (base.owner[1].name, t.attr)), src(t), value=v,
                           attr=(base.owner[1].name, t.attr))
            else:
                self.event(stmt, 'store', base, src(t), value=v)
        elif isinstance(t, ast.Starred):
            self.assign(t.value, v, env, stmt)

    # -- names ----------------------------------------------------------------------------------------
    def lookup(self, name, env):
        if name in env:
            v = env[name]
            if name in getattr(self, '_fed_containers', ()):
                return Own(v.roots, join(v.element(), HOST))
            if name in getattr(self, '_fed_scalars', ()):
                return join(v, HOST)
            return v
        if self.closure_env is not None and name in self.closure_env:
            return self.closure_env[name]
        return self.module_name(self.m, name)

    def module_name(self, m, name):
        model = self.eff.model
        r = model.resolve(m, name)
        if r is None:
            return IMMUT if name in IMMUT_BUILTINS or name in COPYING or name in ELEMENT_RETURNING else UNKNOWN
        if r[0] in ('func', 'class', 'module', 'extattr'):
            return IMMUT
        if r[0] == 'const':
            return self.const_own(r[1], r[2], r[3])
        return UNKNOWN

    def const_own(self, m, name, node):
        if isinstance(node, (ast.Dict, ast.List, ast.Set, ast.ListComp, ast.DictComp, ast.SetComp)):
            return STATE('%s.%s' % (m.name, name))
        if isinstance(node, ast.Call):
            cn = sa.call_name(node) or ''
            r = self.eff.model.resolve_attr_chain(m, node.func)
            if r and r[0] == 'class':
                return STATE('%s.%s' % (m.name, name))      # module-level instance of a package class
            if cn.split('.')[-1] in ('dict', 'list', 'set', 'defaultdict', 'deque', 'OrderedDict', 'Counter',
                                     'WeakValueDictionary', 'WeakKeyDictionary', 'bytearray', 'local'):
                return STATE('%s.%s' % (m.name, name))
            return IMMUT
        return IMMUT

    # -- expressions ----------------------------------------------------------------------------------
    def expr(self, e, env):
        if e is None:
            return IMMUT
        meth = getattr(self, 'e_' + type(e).__name__, None)
        if meth is None:
            for c in ast.iter_child_nodes(e):
                if isinstance(c, ast.expr):
                    self.expr(c, env)
            return UNKNOWN
        return meth(e, env)

    def e_Constant(self, e, env):
        return IMMUT

    def e_JoinedStr(self, e, env):
        for v in e.values:
            self.expr(v, env)
        return IMMUT

    def e_FormattedValue(self, e, env):
        self.expr(e.value, env)
        return IMMUT

    def e_Name(self, e, env):
        return self.lookup(e.id, env)

    def e_Attribute(self, e, env):
        # module attribute?
        r = self.eff.model.resolve_attr_chain(self.m, e) if self._rooted_in_module(e, env) else None
        if r is not None:
            if r[0] == 'const':
                return self.const_own(r[1], r[2], r[3])
            return IMMUT
        cls = self._package_class(e.value, env)
        if cls is not None and not self.eff.model.lookup_method(cls[0], cls[1], e.attr):
            # Cls.attr read through the class: shared state unless it is an immutable constant that nobody rebinds
            ca = self.eff.model.class_attr(cls[0], cls[1], e.attr)
            rebound = (cls[1].name, e.attr) in self.eff.class_attr_stores()
            if ca is not None and not rebound and isinstance(ca[2], (ast.Constant, ast.Tuple)) and \
                    all(isinstance(x, (ast.Constant, ast.Tuple, ast.Load)) for x in ast.walk(ca[2])):
                return IMMUT
            if ca is not None or rebound:
                return STATE('class attribute %s.%s' % (cls[1].name, e.attr))
        base = self.expr(e.value, env)
        if isinstance(base, _SelfOwn):
            m, c = base.owner
            # a property: reading it runs the getter
            lp = self.eff.model.lookup_property(m, c, e.attr)
            if lp:
                pk = (lp[0].name, lp[0].qualname_of(lp[2]))
                if pk in self.eff.cg.funcs and pk not in self.chain:
                    return self._call_package(set([pk]), [base], e, [], {})
            # a method?  (bound method objects are immutable)
            if self.eff.model.lookup_method(m, c, e.attr):
                return IMMUT
            return STATE('%s.%s' % (c.name, e.attr))
        if base.roots <= frozenset(['immut']):
            return IMMUT
        if e.attr in ('real', 'imag', 'year', 'month', 'day', 'hour', 'minute', 'second', 'index', 'label',
                      'is_absolute', 'lexpos', 'lineno', 'type', '__name__', '__doc__'):
            # scalar fields
            return IMMUT if not base.has('host') else IMMUT
        return base.element() if base.has('fresh') and base.elem is not None else base

    def _package_class(self, node, env):
        """(Module, ClassDef) when ``node`` denotes a class of the package: a bare name (not a local), the first parameter of a
        classmethod, type(self) or self.__class__."""
        if isinstance(node, ast.Name) and node.id not in env and (self.closure_env is None or node.id not in self.closure_env):
            r = self.eff.model.resolve(self.m, node.id)
            if r is not None and r[0] == 'class':
                return r[1], r[2]
        owner = self.eff.cg.cls_of.get(self.key)
        if owner is None or isinstance(self.f, ast.Lambda):
            return None
        if isinstance(node, ast.Name) and any(src(d_) == 'classmethod' for d_ in self.f.decorator_list) and self.f.args.args and \
                self.f.args.args[0].arg == node.id:
            return owner
        me = sa.self_name(self.f)
        if me is not None:
            if isinstance(node, ast.Call) and sa.call_name(node) == 'type' and len(node.args) == 1 and isinstance(node.args[0], ast.Name) \
                    and node.args[0].id == me:
                return owner
            if isinstance(node, ast.Attribute) and node.attr == '__class__' and isinstance(node.value, ast.Name) and node.value.id == me:
                return owner
        return None

    def _rooted_in_module(self, e, env):
        while isinstance(e, ast.Attribute):
            e = e.value
        if isinstance(e, ast.Name) and e.id not in env and (self.closure_env is None or e.id not in self.closure_env):
            r = self.eff.model.resolve(self.m, e.id)
            return r is not None and r[0] == 'module'
        return False

    def e_Subscript(self, e, env):
        base = self.expr(e.value, env)
        if isinstance(e.slice, ast.Slice):
            for x in (e.slice.lower, e.slice.upper, e.slice.step):
                if x is not None:
                    self.expr(x, env)
            if isinstance(base, _PSym):
                return FRESH(base.sym_own(None))
            return FRESH(base.element())
        self.expr(e.slice, env)
        if isinstance(base, _PSym):
            k = _const_index(e.slice)
            if k == 0:
                return env.get('<p0>', self.p0 if self.p0 is not None else IMMUT)
            return base.sym_own(k)
        # reading a missing key of a module-level defaultdict inserts it: a read that writes shared state
        if isinstance(e.ctx, ast.Load) and isinstance(e.value, (ast.Name, ast.Attribute)) and \
                not (isinstance(e.value, ast.Name) and e.value.id in env):
            try:
                r = self.eff.model.resolve_attr_chain(self.m, e.value)
            except Exception:
                r = None
            if r and r[0] == 'const' and isinstance(r[3], ast.Call) and (sa.call_name(r[3]) or "").split('.')[-1] == 'defaultdict' \
                    and r[3].args and not (isinstance(r[3].args[0], ast.Constant) and r[3].args[0].value is None):
                self.event(e, 'store', base, '%s (a defaultdict: looking up a missing key inserts it)' % src(e))
        return base.element()

    def e_BinOp(self, e, env):
        a = self.expr(e.left, env)
        b = self.expr(e.right, env)
        if isinstance(e.op, ast.Add):
            if a.roots <= frozenset(['immut']) and b.roots <= frozenset(['immut']):
                return IMMUT
            return FRESH(join(a.element(), b.element()))
        if isinstance(e.op, ast.Mult):
            if isinstance(e.left, (ast.List, ast.Tuple)) or isinstance(e.right, (ast.List, ast.Tuple)):
                return FRESH(join(a.element(), b.element()))
            return IMMUT
        return IMMUT

    def e_UnaryOp(self, e, env):
        self.expr(e.operand, env)
        return IMMUT

    def e_BoolOp(self, e, env):
        return joinall([self.expr(v, env) for v in e.values])

    def e_Compare(self, e, env):
        self.expr(e.left, env)
        for c in e.comparators:
            self.expr(c, env)
        return IMMUT

    def e_IfExp(self, e, env):
        self.expr(e.test, env)
        return join(self.expr(e.body, env), self.expr(e.orelse, env))

    def e_List(self, e, env):
        return self._display(e.elts, env)

    e_Tuple = e_List
    e_Set = e_List

    def _display(self, elts, env):
        owns = []
        for x in elts:
            if isinstance(x, ast.Starred):
                owns.append(self.expr(x.value, env).element())
            else:
                owns.append(self.expr(x, env))
        return FRESH(joinall(owns) if owns else IMMUT)

    def e_Dict(self, e, env):
        owns = []
        for k, v in zip(e.keys, e.values):
            if k is not None:
                self.expr(k, env)
                owns.append(self.expr(v, env))
            else:
                owns.append(self.expr(v, env).element())
        return FRESH(joinall(owns) if owns else IMMUT)

    def _comp(self, e, elt_nodes, env):
        sub = dict(env)
        for g in e.generators:
            it = self.expr(g.iter, sub)
            self.assign(g.target, it.element(), sub, e)
            for c in g.ifs:
                self.expr(c, sub)
        owns = [self.expr(x, sub) for x in elt_nodes]
        return FRESH(joinall(owns))

    def e_ListComp(self, e, env):
        return self._comp(e, [e.elt], env)

    e_SetComp = e_ListComp
    e_GeneratorExp = e_ListComp

    def e_DictComp(self, e, env):
        return self._comp(e, [e.value], env)

    def e_Lambda(self, e, env):
        # analyse the body in place (free variables from env, parameters = host)
        sub = dict(env)
        for a in e.args.args:
            sub[a.arg] = HOST
        if e.args.vararg:
            sub[e.args.vararg.arg] = FRESH(HOST)
        self.expr(e.body, sub)
        return IMMUT

    def e_Starred(self, e, env):
        return self.expr(e.value, env)

    def e_Yield(self, e, env):
        v = self.expr(e.value, env) if e.value is not None else IMMUT
        self.ret = join(self.ret, v)
        return UNKNOWN

    def e_YieldFrom(self, e, env):
        v = self.expr(e.value, env)
        self.ret = join(self.ret, v.element())
        return UNKNOWN

    def e_NamedExpr(self, e, env):
        v = self.expr(e.value, env)
        env[e.target.id] = v
        return v

    def e_Await(self, e, env):
        return self.expr(e.value, env)

    def e_Slice(self, e, env):
        return IMMUT

    # -- calls ----------------------------------------------------------------------------------------
    def e_Call(self, e, env):
        fn = e.func
        args = []
        for a in e.args:
            if isinstance(a, ast.Starred):
                args.append(('*', self.expr(a.value, env)))
            else:
                args.append(('', self.expr(a, env)))
        kwargs = dict((k.arg, self.expr(k.value, env)) for k in e.keywords)
        pos = [o if s == '' else o.element() for s, o in args]
        # --- method-style calls
        if isinstance(fn, ast.Attribute):
            recv_is_module = self._rooted_in_module(fn, env)
            if not recv_is_module:
                recv = self.expr(fn.value, env)
                if isinstance(fn.value, ast.Call) and isinstance(fn.value.func, ast.Name) and fn.value.func.id == 'super':
                    ps0 = sa.params(self.f) if not isinstance(self.f, ast.Lambda) else []
                    if ps0:
                        recv = self.lookup(ps0[0], env)     # super().method(...) acts on self
                attr = fn.attr
                if attr in MUTATORS:
                    self.event(e, 'call', recv if not isinstance(recv, _SelfOwn) else STATE('self'), '%s(...)' % src(fn))
                    if attr in ('pop', 'popleft', 'popitem'):
                        return recv.element()
                    if attr == 'setdefault':
                        return join(recv.element(), pos[1] if len(pos) > 1 else IMMUT)
                    return IMMUT
                # package method on self / known object
                callees = self.eff.cg.sites.get((self._cg_key(), id(e)))
                if callees and not (attr in STR_METHODS and not isinstance(recv, _SelfOwn)):
                    return self._call_package(callees, [recv] + pos, e, args, kwargs)
                if attr in STR_METHODS:
                    return IMMUT
                if attr == 'copy':
                    return FRESH(recv.element())
                if attr == 'get':
                    return join(recv.element(), pos[1] if len(pos) > 1 else IMMUT)
                if attr in ('items', 'values', 'keys'):
                    return FRESH(recv.element() if attr != 'items' else FRESH(recv.element()))
                if attr in ('clone',):
                    return FRESH(IMMUT)
                if attr in ('with_traceback',):
                    return recv
                if recv.roots <= frozenset(['immut']):
                    return IMMUT
                return UNKNOWN
            # module function
            r = self.eff.model.resolve_attr_chain(self.m, fn)
            return self._call_resolved(r, e, pos, args, kwargs, env)
        if isinstance(fn, ast.Name):
            name = fn.id
            if name in env or (self.closure_env is not None and name in self.closure_env):
                nested = getattr(self, '_nested', {}).get(name)
                if nested is not None:
                    return self._call_nested(nested, pos, env)
                return UNKNOWN          # calling a value (callback / registry entry): host code
            r = self.eff.model.resolve(self.m, name)
            if r is None:
                return self._builtin(name, pos, e, env)
            return self._call_resolved(r, e, pos, args, kwargs, env)
        # calling the result of an expression (OPERATOR_DICT[op](a, b)): dunder dispatch on package objects
        self.expr(fn, env)
        callees = set()
        for a in e.args:
            if isinstance(a, ast.Call):
                r = self.eff.model.resolve_attr_chain(self.m, a.func)
                if r and r[0] == 'class':
                    for mm, cc in self.eff.model.mro(r[1], r[2]):
                        for node in cc.body:
                            if isinstance(node, ast.FunctionDef) and node.name.startswith('__') and node.name != '__init__':
                                callees.add((mm.name, mm.qualname_of(node)))
        for c in sorted(callees):
            self.eff.analyse(c, [FRESH(joinall(pos))] + [joinall(pos)], self.chain)
        return UNKNOWN if not callees else FRESH(joinall(pos).element())

    def _cg_key(self):
        # call sites are recorded under the enclosing *indexed* function (lambdas belong to it)
        return self.key

    def _call_resolved(self, r, e, pos, args, kwargs, env):
        if r is None:
            return UNKNOWN
        if r[0] == 'func':
            key = (r[1].name, r[1].qualname_of(r[2]))
            return self._call_package([key], pos, e, args, kwargs)
        if r[0] == 'class':
            init = self.eff.model.lookup_method(r[1], r[2], '__init__')
            obj = FRESH(joinall(pos + list(kwargs.values())) if (pos or kwargs) else IMMUT)
            if init:
                key = (init[0].name, init[0].qualname_of(init[2]))
                self._call_package([key], [obj] + pos, e, args, kwargs)
            return obj
        if r[0] == 'extattr':
            full = r[1] + '.' + r[2]
            top = r[1].split('.')[0]
            leaf = r[2].split('.')[-1]
            if full in ('itertools.chain', 'itertools.chain.from_iterable'):
                return FRESH(joinall([p.element() for p in pos]) if pos else IMMUT)
            if full.startswith('itertools.'):
                return FRESH(joinall([p.element() for p in pos]) if pos else IMMUT)
            if full in ('copy.copy',):
                return FRESH(pos[0].element() if pos else IMMUT)
            if full in ('copy.deepcopy',):
                return FRESH(IMMUT)
            if full in ('functools.reduce',):
                return join(pos[1].element() if len(pos) > 1 else IMMUT, pos[2] if len(pos) > 2 else IMMUT)
            if full in ('collections.ChainMap',):
                # a view: writes go to the first mapping, reads see all of them - it aliases its arguments
                return joinall(pos) if pos else FRESH(IMMUT)
            if top == 'collections':
                return FRESH(joinall([p.element() for p in pos]) if pos else IMMUT)
            if top in IMMUT_MODULES or top in ('dateutil', 'ply'):
                return IMMUT if top != 'ply' else UNKNOWN
            return UNKNOWN
        if r[0] == 'const':
            # calling a module-level value (e.g. a lambda constant or a namedtuple class)
            node = r[3]
            if isinstance(node, ast.Call) and (sa.call_name(node) or '').endswith('namedtuple'):
                return FRESH(joinall(pos + list(kwargs.values())) if (pos or kwargs) else IMMUT)
            return UNKNOWN
        return UNKNOWN

    def _call_package(self, callees, pos, e, args, kwargs):
        outs = []
        for key in sorted(callees):
            if key not in self.eff.cg.funcs:
                continue
            m, f = self.eff.cg.funcs[key]
            ps = sa.params(f)
            actual = list(pos)
            owner = self.eff.cg.cls_of.get(key)
            if owner is not None and actual and isinstance(actual[0], _SelfOwn):
                mine = [c for _, c in self.eff.model.mro(actual[0].owner[0], actual[0].owner[1])]
                subs = [c for _, c in self.eff.model.subclasses_of(actual[0].owner[0], actual[0].owner[1])]
                if owner[1] not in mine and owner[1] not in subs:
                    actual[0] = _SelfOwn(self.eff, owner) if self.eff.is_persistent_class(owner[1]) else FRESH(HOST)
            # keyword arguments into their slots
            full = []
            for i, p in enumerate(ps):
                if i < len(actual):
                    full.append(actual[i])
                elif p in kwargs:
                    full.append(kwargs[p])
                else:
                    full.append(None)
            n = len(ps)
            full2 = []
            for i, a in enumerate(full):
                if a is None:
                    d = f.args.defaults
                    k = i - (n - len(d))
                    if 0 <= k < len(d):
                        dn = d[k]
                        full2.append(STATE('mutable default argument of %s' % f.name) if isinstance(dn, (ast.List, ast.Dict, ast.Set)) else IMMUT)
                    else:
                        full2.append(HOST)
                else:
                    full2.append(a)
            rest = actual[len(ps):]
            outs.append(self.eff.analyse(key, full2 + rest, self.chain))
        return joinall(outs) if outs else UNKNOWN

    def _call_nested(self, node, pos, env):
        key = (self.m.name, self.m.qualname_of(node))
        m = self.m
        interp = _Interp(self.eff, key, m, node, pos, self.chain + (key,), self.record)
        interp.closure_env = dict(self.closure_env or {})
        interp.closure_env.update(env)
        return interp.run()

    def _builtin(self, name, pos, e, env):
        if name in COPYING:
            return FRESH(pos[0].element() if pos else IMMUT)
        if name in ('zip',):
            return FRESH(FRESH(joinall([p.element() for p in pos]) if pos else IMMUT))
        if name == 'enumerate':
            return FRESH(FRESH(pos[0].element() if pos else IMMUT))
        if name in ('map',):
            return FRESH(UNKNOWN)
        if name == 'filter':
            return FRESH(pos[1].element() if len(pos) > 1 else IMMUT)
        if name in ELEMENT_RETURNING:
            if len(pos) == 1:
                return pos[0].element()
            return joinall([p for p in pos]) if pos else IMMUT
        if name in ('getattr',):
            return pos[0] if pos else UNKNOWN
        if name in ('vars', 'globals', 'locals'):
            return STATE('%s()' % name)
        if name == 'setattr':
            if pos:
                self.event(e, 'store', pos[0], 'setattr(%s)' % src(e.args[0]))
            return IMMUT
        if name in ('delattr',):
            if pos:
                self.event(e, 'delete', pos[0], 'delattr(%s)' % src(e.args[0]))
            return IMMUT
        if name in IMMUT_BUILTINS:
            return IMMUT
        return UNKNOWN


def _const_index(node):
    if isinstance(node, ast.Constant) and isinstance(node.value, int):
        return node.value
    if isinstance(node, ast.UnaryOp) and isinstance(node.op, ast.USub) and isinstance(node.operand, ast.Constant):
        return -node.operand.value
    return None
