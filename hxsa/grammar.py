# -*- coding: utf-8 -*-
"""E6 - the grammar as data.

Everything is extracted with ``ast`` from the working tree (``p_*`` docstrings, ``precedence`` literal, ``tokens``
literal, ``t_*`` regex docstrings); ``ply.yacc`` is then used as a *table generator library* on that extracted data
(never on the repository's live objects): ``Grammar`` + ``LRGeneratedTable('LALR')``.
"""
import ast
import re
import os

from .model import AnalysisError


def _ply():
    try:
        from ply import yacc
        return yacc
    except ImportError:
        raise AnalysisError('ply is not importable in this interpreter (run with /venv/bin/python)')


class Production(object):
    def __init__(self, index, name, syms, funcname, funcnode, line, prec):
        self.index = index
        self.name = name
        self.syms = syms
        self.funcname = funcname
        self.func = funcnode
        self.line = line
        self.prec = prec        # explicit %prec token or None

    def __repr__(self):
        return '%s -> %s' % (self.name, ' '.join(self.syms) or '<empty>')


class TokenRegex(str):
    """Text of a lexer rule; ply compiles token rules with re.VERBOSE (lex.lex's default reflags)."""
    flags = re.VERBOSE


def const_string(module, node, depth=0):
    """Value of a constant string expression: literals, module-level names, concatenation (None if it is not one)."""
    if depth > 60:
        return None
    if isinstance(node, ast.Constant) and isinstance(node.value, str):
        return node.value
    if isinstance(node, ast.Name) and node.id in module.constants and module.assign_counts.get(node.id, 0) == 1:
        return const_string(module, module.constants[node.id], depth + 1)
    if isinstance(node, ast.BinOp) and isinstance(node.op, ast.Add):
        a, b = const_string(module, node.left, depth + 1), const_string(module, node.right, depth + 1)
        return None if a is None or b is None else a + b
    if isinstance(node, ast.JoinedStr):
        parts = []
        for v in node.values:
            if isinstance(v, ast.Constant):
                parts.append(str(v.value))
            elif isinstance(v, ast.FormattedValue) and v.conversion == -1 and v.format_spec is None:
                x = const_string(module, v.value, depth + 1)
                if x is None:
                    return None
                parts.append(x)
            else:
                return None
        return ''.join(parts)
    return None


class Token(object):
    def __init__(self, name, regex, node, order, is_func):
        self.name = name
        self.regex = regex
        self.node = node
        self.order = order
        self.is_func = is_func


class Grammar(object):
    def __init__(self, model):
        self.model = model
        yacc = _ply()
        self.yacc = yacc
        self.gm, self.gcls = self._find_grammar_class()
        self.lexer_module = self._find_lexer_module()
        self.tokens = self._tokens_literal()
        self.precedence, self.prec_node, self.prec_module = self._precedence_literal()
        self.lex_tokens = self._lex_tokens()
        self.productions = []
        self.action_funcs = {}          # p_ function name -> (Module, FunctionDef)
        self._extract_productions()
        self._build_tables()

    def nonterminals(self):
        nts = getattr(self, '_nts', None)
        if nts is None:
            nts = self._nts = set(p.name for p in self.productions)
        return nts

    # -- discovery --------------------------------------------------------------------------
    def _find_grammar_class(self):
        """Most derived class that owns p_* methods."""
        model = self.model
        cands = []
        for m in model.modules.values():
            for c in m.classes.values():
                # the actions may live on the class itself or on bases / mixins it combines
                own = [n for (_, bc) in model.mro(m, c) for n in bc.body
                       if isinstance(n, ast.FunctionDef) and n.name.startswith('p_') and n.name != 'p_error']
                if own:
                    cands.append((m, c))
        if not cands:
            raise AnalysisError('no class with p_* grammar actions found (anchor vanished)')
        # most derived: not a base of another candidate
        for m, c in cands:
            if not any(c is bc for (m2, c2) in cands if c2 is not c for (_, bc) in model.mro(m2, c2)[1:]):
                return m, c
        return cands[0]

    def _find_lexer_module(self):
        for m in self.model.modules.values():
            if 'tokens' in m.constants and any(f.startswith('t_') for f in m.functions):
                return m
        raise AnalysisError('lexer module (tokens + t_* functions) not found (anchor vanished)')

    def _tokens_literal(self):
        node = self.lexer_module.constants['tokens']
        try:
            toks = list(ast.literal_eval(node))
        except Exception:
            raise AnalysisError('lexer tokens is not a literal tuple')
        return toks

    def _precedence_literal(self):
        r = self.model.class_attr(self.gm, self.gcls, 'precedence')
        if r is None:
            raise AnalysisError('precedence table not found on the grammar class')
        m, c, node = r
        try:
            prec = [tuple(x) for x in ast.literal_eval(node)]
        except Exception:
            prec = self._evaluate_constant(m, node)
            if not (isinstance(prec, (list, tuple)) and prec and all(isinstance(x, (list, tuple)) and x and all(isinstance(y, str) for y in x) for x in prec)):
                raise AnalysisError('precedence is not a constant table of (assoc, token, ...) rows')
            prec = [tuple(x) for x in prec]
        return prec, node, m

    def _evaluate_constant(self, m, node):
        """Python value of a module/class-level constant expression (names of other constants, comprehensions, concatenation):
        evaluated by the abstract interpreter, which only ever sees constants here."""
        try:
            from .absint import Interp, Const, ListV
            v = Interp(self.model).const_expr(m, node)
        except Exception:
            return None

        def conv(x):
            if isinstance(x, Const):
                return x.value
            if isinstance(x, ListV) and not x.has_splice():
                items = [conv(i) for i in x.items]
                return None if any(i is None and not (isinstance(j, Const) and j.value is None) for i, j in zip(items, x.items)) else tuple(items)
            return None
        return conv(v)

    def _lex_tokens(self):
        """Lexer rules in ply's match order: function rules by definition line, then string rules by
        decreasing regex length."""
        lm = self.lexer_module
        funcs, strs = [], []
        for node in lm.tree.body:
            if isinstance(node, ast.FunctionDef) and node.name.startswith('t_') and node.name not in ('t_error', 't_eof', 't_ignore'):
                doc = None
                for d in node.decorator_list:
                    # @TOKEN(<constant string expression>) sets the rule's regex (ply.lex.TOKEN)
                    if isinstance(d, ast.Call) and (isinstance(d.func, ast.Name) and d.func.id in ('TOKEN', 'Token') or
                                                    isinstance(d.func, ast.Attribute) and d.func.attr in ('TOKEN', 'Token')) and len(d.args) == 1:
                        doc = const_string(lm, d.args[0])
                        if doc is None:
                            raise AnalysisError('regex of token rule %s is not a constant string expression' % node.name)
                if doc is None:
                    doc = ast.get_docstring(node, clean=False)
                if doc is None:
                    continue
                funcs.append((node.lineno, node.name[2:], TokenRegex(doc), node))
            elif isinstance(node, ast.Assign) and len(node.targets) == 1 and isinstance(node.targets[0], ast.Name) \
                    and node.targets[0].id.startswith('t_') and node.targets[0].id not in ('t_ignore',):
                val = const_string(lm, node.value)
                if val is not None:
                    strs.append((node.targets[0].id[2:], TokenRegex(val), node))
        funcs.sort(key=lambda x: x[0])
        strs.sort(key=lambda x: -len(x[1]))
        out = []
        for i, (ln, name, rx, node) in enumerate(funcs):
            out.append(Token(name, rx, node, i, True))
        for j, (name, rx, node) in enumerate(strs):
            out.append(Token(name, rx, node, len(funcs) + j, False))
        return out

    def lex_token(self, name):
        for t in self.lex_tokens:
            if t.name == name:
                return t
        return None

    def _extract_productions(self):
        yacc = self.yacc
        model = self.model
        funcs = {}
        for m, c in reversed(model.mro(self.gm, self.gcls)):
            for n in c.body:
                if isinstance(n, ast.FunctionDef) and n.name.startswith('p_') and n.name != 'p_error':
                    funcs[n.name] = (m, n)
        self.action_funcs = funcs
        # `p_x.__doc__ = <constant expression>` in the class body replaces the grammar text ply reads from the function
        self.doc_overrides = {}
        for m, c in reversed(model.mro(self.gm, self.gcls)):
            for n in c.body:
                if isinstance(n, ast.Assign) and len(n.targets) == 1 and isinstance(n.targets[0], ast.Attribute) \
                        and n.targets[0].attr == '__doc__' and isinstance(n.targets[0].value, ast.Name) \
                        and n.targets[0].value.id in funcs:
                    val = const_string(m, n.value)
                    if val is None:
                        val = self._evaluate_constant(m, n.value)
                    if not isinstance(val, str):
                        raise AnalysisError('grammar text assigned to %s.__doc__ is not a constant string expression'
                                            % n.targets[0].value.id)
                    self.doc_overrides[n.targets[0].value.id] = val
        self.p_error = None
        for m, c in model.mro(self.gm, self.gcls):
            for n in c.body:
                if isinstance(n, ast.FunctionDef) and n.name == 'p_error' and self.p_error is None:
                    self.p_error = (m, n)
        ordered = sorted(funcs.values(), key=lambda mf: (mf[1].lineno, mf[0].relpath, mf[1].name))
        g = yacc.Grammar(self.tokens)
        for level, p in enumerate(self.precedence):
            assoc = p[0]
            for t in p[1:]:
                try:
                    g.set_precedence(t, assoc, level + 1)
                except yacc.GrammarError as e:
                    raise AnalysisError('precedence table rejected by ply: %s' % e)
        idx = 1
        for m, f in ordered:
            doc = self.doc_overrides.get(f.name, ast.get_docstring(f, clean=False))
            if not doc:
                continue
            try:
                parsed = yacc.parse_grammar(doc, m.relpath, f.lineno)
            except SyntaxError as e:
                raise AnalysisError('cannot parse grammar docstring of %s: %s' % (f.name, e))
            for (file, line, prodname, syms) in parsed:
                orig = list(syms)       # ply strips "%prec X" from the list it is given
                try:
                    g.add_production(prodname, list(syms), f.name, file, line)
                except yacc.GrammarError as e:
                    raise AnalysisError('production rejected by ply: %s' % e)
                syms = orig
                prec = None
                clean = list(syms)
                if '%prec' in syms:
                    i = syms.index('%prec')
                    prec = syms[i + 1]
                    clean = syms[:i]
                self.productions.append(Production(idx, prodname, clean, f.name, f, line, prec))
                idx += 1
        try:
            g.set_start()
        except yacc.GrammarError as e:
            raise AnalysisError('grammar has no start symbol: %s' % e)
        self.g = g

    def _build_tables(self):
        yacc = self.yacc
        captured = {}

        class Capturing(yacc.LRGeneratedTable):
            def lr0_items(inner):
                if 'C' not in captured:
                    captured['C'] = yacc.LRGeneratedTable.lr0_items(inner)
                return captured['C']
        try:
            self.lr = Capturing(self.g, 'LALR')
        except Exception as e:
            raise AnalysisError('ply could not build the LALR table: %r' % e)
        self.items = captured.get('C', [])
        self.action = self.lr.lr_action
        self.goto = self.lr.lr_goto
        self.sr_conflicts = list(self.lr.sr_conflicts)
        self.rr_conflicts = list(self.lr.rr_conflicts)

    # -- parsetab -----------------------------------------------------------------------------
    def parsetab(self):
        """Static read of the generated table module in the working tree (or None)."""
        d = os.path.dirname(self.gm.path)
        for fn in sorted(os.listdir(d)):
            if fn.endswith('parsetab.py'):
                path = os.path.join(d, fn)
                try:
                    tree = ast.parse(open(path).read())
                except SyntaxError:
                    return {'path': path, 'error': 'syntax error'}
                vals = {}
                for n in tree.body:
                    if isinstance(n, ast.Assign) and isinstance(n.targets[0], ast.Name):
                        try:
                            vals[n.targets[0].id] = ast.literal_eval(n.value)
                        except Exception:
                            pass
                vals['path'] = path
                return vals
        return None

    def signature(self):
        """ply's grammar signature string, recomputed from extracted data (ParserReflect.signature)."""
        parts = []
        if self.precedence:
            parts.append(''.join([''.join(p) for p in self.precedence]))
        if self.tokens:
            parts.append(' '.join(sorted(self.tokens)))
        # pfuncs: (line, file, name, doc) sorted
        pf = []
        for name, (m, f) in self.action_funcs.items():
            doc = self.doc_overrides.get(name, _raw_doc(f))
            if doc:
                pf.append((f.lineno, m.path, name, doc))
        pf.sort(key=lambda p: (p[0], str(p[1]), p[2], p[3]))
        for f in pf:
            if f[3]:
                parts.append(f[3])
        return ''.join(parts)

    # -- LR driver on token-type strings ------------------------------------------------------
    def parse_types(self, types):
        """Parse a sequence of token *types*; returns a tree (prod index, children) or None on error."""
        stack = [0]
        vals = []
        toks = list(types) + ['$end']
        i = 0
        steps = 0
        while True:
            steps += 1
            if steps > 10000:
                return None
            st = stack[-1]
            la = toks[i]
            t = self.action[st].get(la)
            if t is None:
                # default reduction?
                dr = getattr(self.lr, 'lr_default_reductions', None)
                return None
            if t > 0:
                stack.append(t)
                vals.append(la)
                i += 1
            elif t < 0:
                p = self.g.Productions[-t]
                n = p.len
                kids = vals[len(vals) - n:] if n else []
                if n:
                    del vals[len(vals) - n:]
                    del stack[len(stack) - n:]
                vals.append((-t, kids))
                stack.append(self.goto[stack[-1]][p.name])
            else:
                return vals[-1]


def _raw_doc(f):
    if f.body and isinstance(f.body[0], ast.Expr) and isinstance(f.body[0].value, ast.Constant) \
            and isinstance(f.body[0].value.value, str):
        return f.body[0].value.value
    return None
