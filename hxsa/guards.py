# -*- coding: utf-8 -*-
"""Dominating-guard facts and the interval facts derived from them.

``facts_at(module, func, node)`` returns the branch decisions that hold on *every* path from the function entry to
``node``:

  * for an enclosing ``if C:`` whose body contains the node: C is true (false for the else branch);
  * for an earlier sibling ``if C: <every path exits>`` (return / raise / continue / break as appropriate):
    C is false afterwards - also when the sibling is an ``if/elif`` chain;
  * an enclosing ``while C:`` gives C at the top of the body (only if its variables are not reassigned before the node);
  * a fact is dropped if one of the names it mentions is (re)assigned between the guard and the node.

The facts are atomic (``a and b`` true / ``a or b`` false / ``not`` are decomposed).  ``Interval`` turns comparison
atoms against constants into bounds for one expression (keyed by its source text).
"""
import ast
from fractions import Fraction

from .model import src
from .paths import atoms, function_paths, walk_no_defs


def always_exits(stmts, loop_ok=False):
    """Every path through ``stmts`` leaves the enclosing block (return/raise; break/continue if loop_ok)."""
    if not stmts:
        return False
    for p in function_paths(list(stmts)):
        k = p.kind()
        if k in ('return', 'raise'):
            continue
        if loop_ok and k in ('break', 'continue'):
            continue
        return False
    return True


def assigned_names(node):
    out = set()
    for n in ast.walk(node):
        if isinstance(n, ast.Name) and isinstance(n.ctx, (ast.Store, ast.Del)):
            out.add(n.id)
        elif isinstance(n, ast.arg):
            pass
    return out


def _names(expr):
    return set(n.id for n in ast.walk(expr) if isinstance(n, ast.Name))


def facts_at(module, func, node, no_kill=()):
    """List of (atom expr, truth) that dominate ``node`` inside ``func``."""
    # chain of (block list, index in block, owner stmt) from the function body down to the node
    chain = []
    cur = node
    while cur is not func and cur is not None:
        par = module.parent(cur)
        if par is None:
            break
        for field in ('body', 'orelse', 'finalbody', 'handlers'):
            blk = getattr(par, field, None)
            if isinstance(blk, list) and cur in blk:
                chain.append((par, field, blk, blk.index(cur)))
                break
        cur = par
    chain.reverse()
    facts = []      # (atom, truth, names)

    def kill(names):
        names = set(names) - set(no_kill)
        facts[:] = [f for f in facts if not (f[2] & names)]

    rounded = {}        # no_kill name -> 'trunc' | 'floor' | 'ceil' | 'unknown': later tests speak about the rounded value

    def add(test, truth):
        # a name bound inside the test (x := ...) holds a new value from here on
        kill(n.target.id for n in ast.walk(test) if isinstance(n, ast.NamedExpr))
        for a, t in atoms(test, truth):
            hit = _names(a) & set(rounded)
            if hit:
                # a fact about int(x) is a (weaker or shifted) fact about x: translate it, or drop it when that is not possible
                a2 = _unround(a, t, rounded) if len(hit) == 1 else None
                if a2 is None:
                    continue
                a, t = a2
            facts.append((a, t, _names(a)))

    def note_rounding(sib):
        for nm in no_kill:
            if nm not in assigned_names(sib):
                continue
            kind = 'unknown'
            if isinstance(sib, ast.Assign) and len(sib.targets) == 1 and isinstance(sib.targets[0], ast.Name) and sib.targets[0].id == nm:
                v = sib.value
                if isinstance(v, ast.Call) and len(v.args) == 1 and isinstance(v.args[0], ast.Name) and v.args[0].id == nm and not v.keywords:
                    fn = v.func.attr if isinstance(v.func, ast.Attribute) else (v.func.id if isinstance(v.func, ast.Name) else None)
                    kind = {'int': 'trunc', 'trunc': 'trunc', 'floor': 'floor', 'ceil': 'ceil'}.get(fn)
                    if kind is None and fn in ('round', 'abs'):
                        kind = 'unknown'
                    if kind is None:
                        continue        # a conversion that keeps the value (parse_number, float, to_number ...)
                else:
                    if not any(isinstance(x, ast.Call) and isinstance(x.func, (ast.Name, ast.Attribute)) and
                               (x.func.id if isinstance(x.func, ast.Name) else x.func.attr) in ('int', 'trunc', 'floor', 'ceil', 'round', 'abs')
                               and any(isinstance(y, ast.Name) and y.id == nm for a_ in x.args for y in ast.walk(a_)) for x in ast.walk(v)):
                        continue
            else:
                if not any(isinstance(x, ast.Call) and isinstance(x.func, (ast.Name, ast.Attribute)) and
                           (x.func.id if isinstance(x.func, ast.Name) else x.func.attr) in ('int', 'trunc', 'floor', 'ceil', 'round', 'abs')
                           and any(isinstance(y, ast.Name) and y.id == nm for a_ in x.args for y in ast.walk(a_)) for x in ast.walk(sib)):
                    continue
            rounded[nm] = kind if nm not in rounded else 'unknown'

    for par, field, blk, idx in chain:
        # facts from the owner statement itself
        if isinstance(par, ast.If):
            if field == 'body':
                add(par.test, True)
            elif field == 'orelse':
                add(par.test, False)
        elif isinstance(par, (ast.While, ast.For, ast.AsyncFor)) and field == 'body':
            # names assigned anywhere in the loop are unknown at the top of a later iteration
            kill(assigned_names(par))
            if isinstance(par, ast.While):
                add(par.test, True)
        elif isinstance(par, ast.Try) and field in ('handlers', 'finalbody', 'orelse'):
            kill(assigned_names(ast.Module(body=par.body, type_ignores=[])))
        elif isinstance(par, ast.ExceptHandler):
            pass
        # earlier siblings in this block
        for sib in blk[:idx]:
            if isinstance(sib, ast.If):
                _chain_facts(sib, add, kill, in_loop=_in_loop(module, sib, func))
            else:
                kill(assigned_names(sib))
                note_rounding(sib)
                if isinstance(sib, ast.Assert):
                    add(sib.test, True)
    return [(a, t) for a, t, _ in facts]


def _unround(atom, truth, rounded):
    """(atom', truth') about x equivalent to ``atom`` = truth about int(x) / floor(x) / ceil(x); None when there is none.
    Only comparisons of the bare name with an integer constant are translated."""
    if not (isinstance(atom, ast.Compare) and len(atom.ops) == 1):
        return None
    l, r = atom.left, atom.comparators[0]
    op = type(atom.ops[0])
    flip = {ast.Lt: ast.Gt, ast.Gt: ast.Lt, ast.LtE: ast.GtE, ast.GtE: ast.LtE}
    if isinstance(r, ast.Name) and r.id in rounded and not isinstance(l, ast.Name):
        if op not in flip:
            return None
        l, r, op = r, l, flip[op]
    if not (isinstance(l, ast.Name) and l.id in rounded):
        return None
    c = const_number(r)
    if c is None or c.denominator != 1 or op not in flip:
        return None
    c = int(c)
    kind = rounded[l.id]
    # normalise to  R(x) <= k  or  R(x) >= k  (with the truth folded in)
    neg = {ast.Lt: ast.GtE, ast.GtE: ast.Lt, ast.Gt: ast.LtE, ast.LtE: ast.Gt}
    if not truth:
        op = neg[op]
    if op is ast.Lt:
        op, c = ast.LtE, c - 1
    elif op is ast.Gt:
        op, c = ast.GtE, c + 1
    if kind == 'trunc':
        if op is ast.LtE:
            new = (ast.Lt, c + 1) if c >= 0 else (ast.LtE, c)
        else:
            new = (ast.Gt, c - 1) if c <= 0 else (ast.GtE, c)
    elif kind == 'floor':
        new = (ast.Lt, c + 1) if op is ast.LtE else (ast.GtE, c)
    elif kind == 'ceil':
        new = (ast.LtE, c) if op is ast.LtE else (ast.Gt, c - 1)
    else:
        return None
    a2 = ast.Compare(left=ast.Name(id=l.id, ctx=ast.Load()), ops=[new[0]()],
                     comparators=[ast.Constant(value=new[1]) if new[1] >= 0 else ast.UnaryOp(op=ast.USub(), operand=ast.Constant(value=-new[1]))])
    ast.copy_location(a2, atom)
    ast.fix_missing_locations(a2)
    return a2, True


def _in_loop(module, node, func):
    p = module.parent(node)
    while p is not None and p is not func:
        if isinstance(p, (ast.For, ast.While)):
            return True
        p = module.parent(p)
    return False


def _chain_facts(ifnode, add, kill, in_loop):
    """After ``if C1: B1 elif C2: B2 else: B3``: every branch that always exits contributes the negation of the
    conjunction that leads to it; when *all earlier* branches exit, not C1, not C2 ... hold."""
    conds = []
    node = ifnode
    exited_all = True
    pending = []    # facts to add if chain so far exits
    survivors_assign = set()
    while True:
        body_exits = always_exits(node.body, loop_ok=in_loop)
        if body_exits and exited_all:
            pending.append((node.test, False))
        else:
            exited_all = False
            survivors_assign |= assigned_names(ast.Module(body=node.body, type_ignores=[]))
        if len(node.orelse) == 1 and isinstance(node.orelse[0], ast.If):
            node = node.orelse[0]
            continue
        if node.orelse:
            if not always_exits(node.orelse, loop_ok=in_loop):
                survivors_assign |= assigned_names(ast.Module(body=node.orelse, type_ignores=[]))
        break
    nd = ifnode
    while True:
        # names bound by a walrus in any test of the chain hold new values afterwards
        survivors_assign |= set(n.target.id for n in ast.walk(nd.test) if isinstance(n, ast.NamedExpr)) - \
            set(n.target.id for t_, _ in pending if t_ is nd.test for n in ast.walk(t_) if isinstance(n, ast.NamedExpr))
        if len(nd.orelse) == 1 and isinstance(nd.orelse[0], ast.If):
            nd = nd.orelse[0]
            continue
        break
    kill(survivors_assign)
    for test, truth in pending:
        # a test whose own variables are reassigned in a surviving branch is unreliable
        if _names(test) & survivors_assign:
            continue
        add(test, truth)


# ---------------------------------------------------------------------------------------------------
# intervals

NEG_INF = None
POS_INF = None


class Interval(object):
    """lo/hi are Fractions or None (unbounded); *_strict tells whether the bound is excluded; ``nonzero``."""

    def __init__(self):
        self.lo = None
        self.lo_strict = False
        self.hi = None
        self.hi_strict = False
        self.nonzero = False
        self.eq = None
        self.ne = set()

    def tighten_lo(self, v, strict):
        if self.lo is None or v > self.lo or (v == self.lo and strict and not self.lo_strict):
            self.lo, self.lo_strict = v, strict

    def tighten_hi(self, v, strict):
        if self.hi is None or v < self.hi or (v == self.hi and strict and not self.hi_strict):
            self.hi, self.hi_strict = v, strict

    def ge(self, c):
        """value >= c for every value in the interval?"""
        return self.lo is not None and (self.lo > c or (self.lo == c))

    def gt(self, c):
        return self.lo is not None and (self.lo > c or (self.lo == c and self.lo_strict))

    def le(self, c):
        return self.hi is not None and (self.hi < c or self.hi == c)

    def lt(self, c):
        return self.hi is not None and (self.hi < c or (self.hi == c and self.hi_strict))

    def int_ge(self, c):
        """every *integer* in the interval is >= c  (x > c-1 suffices)"""
        if self.lo is None:
            return False
        return self.lo >= c or (self.lo_strict and self.lo >= c - 1) or self.lo > c - 1

    def int_le(self, c):
        if self.hi is None:
            return False
        return self.hi <= c or (self.hi_strict and self.hi <= c + 1) or self.hi < c + 1

    def excludes(self, c):
        return self.gt(c) or self.lt(c) or c in self.ne or (self.nonzero and c == 0)

    def __repr__(self):
        l = '(' if self.lo_strict or self.lo is None else '['
        r = ')' if self.hi_strict or self.hi is None else ']'
        return '%s%s, %s%s%s' % (l, '-inf' if self.lo is None else self.lo, '+inf' if self.hi is None else self.hi, r,
                                 ' nonzero' if self.nonzero else '')


def const_number(node, consts=None):
    """Numeric value of a constant expression (int/float literal, unary minus, 2**39, resolved names)."""
    try:
        if isinstance(node, ast.Constant) and isinstance(node.value, (int, float)) and not isinstance(node.value, bool):
            return Fraction(node.value)
        if isinstance(node, ast.UnaryOp) and isinstance(node.op, ast.USub):
            v = const_number(node.operand, consts)
            return None if v is None else -v
        if isinstance(node, ast.BinOp):
            a, b = const_number(node.left, consts), const_number(node.right, consts)
            if a is None or b is None:
                return None
            if isinstance(node.op, ast.Add):
                return a + b
            if isinstance(node.op, ast.Sub):
                return a - b
            if isinstance(node.op, ast.Mult):
                return a * b
            if isinstance(node.op, ast.Pow) and b.denominator == 1 and 0 <= b <= 4096:
                return a ** int(b)
            if isinstance(node.op, ast.LShift) and a.denominator == 1 and b.denominator == 1 and 0 <= b <= 4096:
                return Fraction(int(a) << int(b))
            if isinstance(node.op, ast.FloorDiv) and b != 0:
                return Fraction((a / b).__floor__())
            if isinstance(node.op, ast.Div) and b != 0:
                return a / b
        if isinstance(node, ast.Name) and consts and node.id in consts:
            return consts[node.id]
        if isinstance(node, ast.Attribute) and consts and src(node) in consts:
            return consts[src(node)]
        if isinstance(node, ast.Call) and isinstance(node.func, ast.Name) and node.func.id == 'len' and len(node.args) == 1:
            a = node.args[0]
            if isinstance(a, ast.Constant) and isinstance(a.value, str):
                return Fraction(len(a.value))
            if isinstance(a, ast.Name) and consts and ('len:' + a.id) in consts:
                return consts['len:' + a.id]
    except (OverflowError, ZeroDivisionError):
        return None
    return None


def module_consts(module, model=None, _depth=0):
    """{name: Fraction} for module-level numeric constants (and 'len:NAME' for string constants); with ``model`` also the
    constants this module imports from other package modules (``from .utils import LIMIT`` / ``utils.LIMIT``)."""
    out = {}
    if model is not None and _depth < 2:
        for alias, imp in module.imports.items():
            if imp[0] == 'attr':
                tm = model.modules.get(imp[1])
                if tm is not None:
                    sub = module_consts(tm, model, _depth + 1)
                    if imp[2] in sub:
                        out[alias] = sub[imp[2]]
                    if ('len:' + imp[2]) in sub:
                        out['len:' + alias] = sub['len:' + imp[2]]
                tm2 = model.modules.get(imp[1] + '.' + imp[2])
                if tm2 is not None:
                    for kk, vv in module_consts(tm2, model, _depth + 1).items():
                        if not kk.startswith('len:'):
                            out['%s.%s' % (alias, kk)] = vv
            elif imp[0] == 'module':
                tm = model.modules.get(imp[1])
                if tm is not None:
                    for kk, vv in module_consts(tm, model, _depth + 1).items():
                        if not kk.startswith('len:'):
                            out['%s.%s' % (alias, kk)] = vv
    pool = [(name, node) for name, node in module.constants.items() if module.assign_counts.get(name, 0) == 1]
    cls_pool = list(module.class_constants().items()) if hasattr(module, 'class_constants') else []
    for _ in range(3):
        # constants of a namespace class: known as Cls.NAME everywhere and as NAME inside the class body itself
        for qn, node in cls_pool:
            cname, nm = qn.split('.', 1)
            local = dict(out)
            for q2, v2 in list(out.items()):
                if q2.startswith(cname + '.') and not q2.startswith('len:'):
                    local.setdefault(q2.split('.', 1)[1], v2)
            for q2, v2 in list(out.items()):
                if q2.startswith('len:' + cname + '.'):
                    local.setdefault('len:' + q2[len('len:' + cname + '.'):], v2)
            if isinstance(node, ast.Constant) and isinstance(node.value, str):
                out['len:' + qn] = Fraction(len(node.value))
                continue
            v = const_number(node, local)
            if v is not None:
                out[qn] = v
                out['cls.' + nm] = v
                out['self.' + nm] = v
        for name, node in pool:
            if module.assign_counts.get(name, 0) != 1:
                continue
            if isinstance(node, ast.Constant) and isinstance(node.value, str):
                out['len:' + name] = Fraction(len(node.value))
                continue
            v = const_number(node, out)
            if v is not None:
                out[name] = v
    return out


def interval_of(facts, expr_text, consts=None, truthy_is_nonzero=True):
    """Interval for the expression whose source text is ``expr_text`` implied by the atomic facts."""
    iv = Interval()
    for a, truth in facts:
        if isinstance(a, ast.Compare) and len(a.ops) >= 1:
            # chains: a < b < c  ->  pairwise
            operands = [a.left] + list(a.comparators)
            pairs = list(zip(operands[:-1], a.ops, operands[1:]))
            if not truth and len(pairs) > 1:
                continue        # negation of a chain is a disjunction
            for l, op, r in pairs:
                _apply(iv, l, op, r, truth, expr_text, consts)
        elif src(a) == expr_text:
            if truth and truthy_is_nonzero:
                iv.nonzero = True
            elif not truth:
                pass        # falsy: 0, None, '' ... not numeric knowledge
    return iv


def _apply(iv, l, op, r, truth, expr_text, consts):
    lt, rt = src(l), src(r)
    c = None
    flip = False
    if lt == expr_text:
        c = const_number(r, consts)
    elif rt == expr_text:
        c = const_number(l, consts)
        flip = True
    if c is None:
        return
    kind = type(op)
    if flip:
        kind = {ast.Lt: ast.Gt, ast.Gt: ast.Lt, ast.LtE: ast.GtE, ast.GtE: ast.LtE}.get(kind, kind)
    if not truth:
        kind = {ast.Lt: ast.GtE, ast.Gt: ast.LtE, ast.LtE: ast.Gt, ast.GtE: ast.Lt, ast.Eq: ast.NotEq, ast.NotEq: ast.Eq}.get(kind)
        if kind is None:
            return
    if kind is ast.Lt:
        iv.tighten_hi(c, True)
    elif kind is ast.LtE:
        iv.tighten_hi(c, False)
    elif kind is ast.Gt:
        iv.tighten_lo(c, True)
    elif kind is ast.GtE:
        iv.tighten_lo(c, False)
    elif kind is ast.Eq:
        iv.tighten_lo(c, False)
        iv.tighten_hi(c, False)
        iv.eq = c
    elif kind is ast.NotEq:
        iv.ne.add(c)
        if c == 0:
            iv.nonzero = True
