# -*- coding: utf-8 -*-
"""E1 - program model: every module of the package parsed with ``ast`` from the *current* working
tree, with an index of functions/classes/constants, import resolution and the function registry.

Nothing here imports or executes hotxlfp.
"""
import ast
import os
import hashlib


class AnalysisError(Exception):
    """The analysis cannot be carried out (anchor vanished, unsupported construct where an
    obligation depends on it).  Exit code 2 - never a VIOLATION."""


PKG = 'hotxlfp'


class _EraseAnnotations(ast.NodeTransformer):
    """Type annotations carry no run-time meaning for the properties (function annotations are evaluated once at
    definition time, variable annotations in function bodies never): parameters and returns lose theirs, an annotated
    assignment becomes the plain assignment (the annotation is kept on ``_annotation``), a bare local declaration becomes
    ``pass``.  Bare declarations in class bodies stay: they are the fields of NamedTuple / dataclass records."""

    def __init__(self):
        self.in_class = []

    def visit_ClassDef(self, node):
        self.in_class.append(True)
        self.generic_visit(node)
        self.in_class.pop()
        return node

    def _func(self, node):
        self.in_class.append(False)
        for a in node.args.posonlyargs + node.args.args + node.args.kwonlyargs + [node.args.vararg, node.args.kwarg]:
            if a is not None:
                a._annotation = a.annotation      # kept aside: functools.singledispatch registers by it
                a.annotation = None
        node.returns = None
        self.generic_visit(node)
        self.in_class.pop()
        return node

    visit_FunctionDef = _func
    visit_AsyncFunctionDef = _func

    def visit_AnnAssign(self, node):
        self.generic_visit(node)
        if node.value is not None:
            new = ast.copy_location(ast.Assign(targets=[node.target], value=node.value, type_comment=None), node)
            new._annotation = node.annotation
            return new
        if self.in_class and self.in_class[-1]:
            return node
        return ast.copy_location(ast.Pass(), node)


class FuncIndex(dict):
    """qualname -> FunctionDef of one module.  Looking a name up also follows module-level aliases of functions defined in the
    module (``extract_label = Labels.extract``): the alias finds the definition, iteration yields each definition once."""

    def __init__(self):
        dict.__init__(self)
        self.aliases = {}       # alias name -> qualname

    def __contains__(self, key):
        return dict.__contains__(self, key) or key in self.aliases

    def __getitem__(self, key):
        if dict.__contains__(self, key):
            return dict.__getitem__(self, key)
        return dict.__getitem__(self, self.aliases[key])

    def get(self, key, default=None):
        return self[key] if key in self else default

    def key_of(self, name):
        """The qualname a name or alias stands for."""
        return name if dict.__contains__(self, name) else self.aliases.get(name, name)


class Module(object):
    def __init__(self, name, path, relpath, source):
        self.name = name            # dotted, e.g. hotxlfp.formulas.utils
        self.path = path
        self.relpath = relpath      # relative to repo root
        self.source = source
        self.tree = ast.fix_missing_locations(_EraseAnnotations().visit(ast.parse(source, filename=path)))
        self.is_pkg = os.path.basename(path) == '__init__.py'
        self.imports = {}           # local alias -> ('module', dotted) | ('attr', dotted_module, attr)
        self.functions = FuncIndex()   # qualname -> FunctionDef / Lambda assigned at module level (aliases resolved on lookup)
        self.classes = {}           # name -> ClassDef
        self.constants = {}         # name -> value node (last module-level assignment)
        self.assign_counts = {}     # name -> number of module-level (re)bindings
        self.parents = {}           # id(node) -> parent node
        self._index()

    # -- indexing ---------------------------------------------------------------------------
    def package(self):
        return self.name if self.is_pkg else self.name.rsplit('.', 1)[0]

    def _resolve_relative(self, level, module):
        if level == 0:
            return module
        base = self.package().split('.')
        if level > 1:
            base = base[:len(base) - (level - 1)]
        if module:
            base = base + module.split('.')
        return '.'.join(base)

    def _index(self):
        for parent in ast.walk(self.tree):
            for child in ast.iter_child_nodes(parent):
                self.parents[id(child)] = parent
        # imports anywhere at module level (also the ones at the bottom of formulas/__init__)
        for node in self.tree.body:
            self._index_stmt(node)
        # functions (all nesting levels) by qualname
        self._index_funcs(self.tree.body, '')
        # module-level aliases of functions / methods defined in this module:  name = other  |  name = Class.method
        for nm, val in self.constants.items():
            if self.assign_counts.get(nm, 0) != 1 or dict.__contains__(self.functions, nm):
                continue
            q = None
            if isinstance(val, ast.Name) and dict.__contains__(self.functions, val.id):
                q = val.id
            elif isinstance(val, ast.Attribute) and isinstance(val.value, ast.Name) and val.value.id in self.classes \
                    and dict.__contains__(self.functions, '%s.%s' % (val.value.id, val.attr)):
                q = '%s.%s' % (val.value.id, val.attr)
            if q is not None:
                self.functions.aliases[nm] = q

    def _index_stmt(self, node):
        if isinstance(node, ast.Import):
            for a in node.names:
                if a.asname:
                    self.imports[a.asname] = ('module', a.name)
                else:
                    self.imports[a.name.split('.')[0]] = ('module', a.name.split('.')[0])
        elif isinstance(node, ast.ImportFrom):
            target = self._resolve_relative(node.level, node.module)
            for a in node.names:
                self.imports[a.asname or a.name] = ('attr', target, a.name)
        elif isinstance(node, ast.Assign):
            for t in node.targets:
                if isinstance(t, ast.Name):
                    self.constants[t.id] = node.value
                    self.assign_counts[t.id] = self.assign_counts.get(t.id, 0) + 1
                elif isinstance(t, (ast.Tuple, ast.List)):
                    for i_, e in enumerate(t.elts):
                        if isinstance(e, ast.Name):
                            self.assign_counts[e.id] = self.assign_counts.get(e.id, 0) + 1
                            # A, B = 'a', 'b'  /  A, B = range(2): the i-th name is the i-th item of the value
                            if isinstance(node.value, (ast.Tuple, ast.List)) and len(node.value.elts) == len(t.elts) and \
                                    not any(isinstance(x, ast.Starred) for x in list(node.value.elts) + list(t.elts)):
                                self.constants[e.id] = node.value.elts[i_]
                            elif not any(isinstance(x, ast.Starred) for x in t.elts):
                                item = ast.Subscript(value=node.value, slice=ast.Constant(value=i_), ctx=ast.Load())
                                ast.copy_location(item, node.value)
                                ast.fix_missing_locations(item)
                                self.constants[e.id] = item
        elif isinstance(node, ast.AugAssign) and isinstance(node.target, ast.Name):
            self.assign_counts[node.target.id] = self.assign_counts.get(node.target.id, 0) + 1
        elif isinstance(node, ast.ClassDef):
            self.classes[node.name] = node
        elif isinstance(node, (ast.If, ast.Try)):
            for sub in ast.iter_child_nodes(node):
                if isinstance(sub, ast.stmt):
                    self._index_stmt(sub)

    def _index_funcs(self, body, prefix):
        for node in body:
            if isinstance(node, (ast.FunctionDef, ast.AsyncFunctionDef)):
                q = prefix + node.name
                self.functions[q] = node
                node._hx_qualname = q
                node._hx_module = self
                self._index_funcs(node.body, q + '.<locals>.')
            elif isinstance(node, ast.ClassDef):
                self._index_funcs(node.body, prefix + node.name + '.')
            elif isinstance(node, (ast.If, ast.Try, ast.For, ast.While, ast.With)):
                subs = []
                for f in ('body', 'orelse', 'finalbody'):
                    subs.extend(getattr(node, f, []) or [])
                for h in getattr(node, 'handlers', []) or []:
                    subs.extend(h.body)
                self._index_funcs(subs, prefix)

    def class_constants(self):
        """{'Cls.NAME': value node} for names bound exactly once in a class body at module level (a class used as a namespace)."""
        out = {}
        for cname, c in self.classes.items():
            counts = {}
            for n in c.body:
                if isinstance(n, ast.Assign):
                    for t in n.targets:
                        if isinstance(t, ast.Name):
                            counts.setdefault(t.id, []).append(n.value)
            for nm, vals in counts.items():
                if len(vals) == 1:
                    out['%s.%s' % (cname, nm)] = vals[0]
        return out

    def parent(self, node):
        return self.parents.get(id(node))

    def enclosing_function(self, node):
        p = self.parent(node)
        while p is not None and not isinstance(p, (ast.FunctionDef, ast.AsyncFunctionDef, ast.Lambda)):
            p = self.parent(p)
        return p

    def enclosing_class(self, node):
        p = self.parent(node)
        while p is not None and not isinstance(p, ast.ClassDef):
            p = self.parent(p)
        return p

    def qualname_of(self, node):
        q = getattr(node, '_hx_qualname', None)
        if q:
            return q
        f = self.enclosing_function(node)
        if isinstance(node, ast.Lambda):
            base = self.qualname_of(f) + '.' if f is not None else ''
            return '%s<lambda@%d>' % (base, node.lineno)
        return '<module>' if f is None else self.qualname_of(f)

    def where(self, node):
        return '%s:%d' % (self.relpath, getattr(node, 'lineno', 0))


class Model(object):
    def __init__(self, repo):
        self.repo = os.path.abspath(repo)
        self.modules = {}
        self.digest = hashlib.sha256()
        root = os.path.join(self.repo, PKG)
        if not os.path.isdir(root):
            raise AnalysisError('package directory %s not found' % root)
        for dirpath, dirnames, filenames in os.walk(root):
            dirnames[:] = sorted(d for d in dirnames if d != '__pycache__')
            for fn in sorted(filenames):
                if not fn.endswith('.py'):
                    continue
                if fn.endswith('_parsetab.py') or fn == 'parsetab.py':
                    continue        # generated by ply; read separately by the grammar engine
                path = os.path.join(dirpath, fn)
                rel = os.path.relpath(path, self.repo)
                parts = rel[:-3].split(os.sep)
                if parts[-1] == '__init__':
                    parts = parts[:-1]
                name = '.'.join(parts)
                with open(path, 'rb') as fh:
                    raw = fh.read()
                self.digest.update(rel.encode() + b'\0' + raw)
                try:
                    self.modules[name] = Module(name, path, rel, raw.decode('utf-8'))
                except SyntaxError as e:
                    raise AnalysisError('cannot parse %s: %s' % (rel, e))
        self._registry = None
        self._class_index = None

    # -- lookup -----------------------------------------------------------------------------
    def module(self, dotted):
        m = self.modules.get(dotted)
        if m is None:
            raise AnalysisError('module %s not found in the working tree' % dotted)
        return m

    def has_module(self, dotted):
        return dotted in self.modules

    def func(self, dotted_module, qualname):
        m = self.module(dotted_module)
        f = m.functions.get(qualname)
        if f is None:
            raise AnalysisError('function %s.%s not found (anchor vanished)' % (dotted_module, qualname))
        return f

    def all_functions(self):
        for m in self.modules.values():
            for q, f in m.functions.items():
                yield m, q, f

    def resolve(self, module, name, _depth=0):
        """Resolve a bare name used in ``module``.
        -> ('func', Module, node) | ('class', Module, node) | ('const', Module, name, node)
         | ('module', dotted) | ('extattr', dotted_module, attr) | None"""
        if _depth > 8:
            return None
        if name in module.functions and '.' not in name:
            return ('func', module, module.functions[name])
        if name in module.classes:
            return ('class', module, module.classes[name])
        if name in module.constants:
            return ('const', module, name, module.constants[name])
        imp = module.imports.get(name)
        if imp is None:
            return None
        if imp[0] == 'module':
            return ('module', imp[1])
        _, target, attr = imp
        sub = target + '.' + attr
        if sub in self.modules:
            return ('module', sub)
        if target in self.modules:
            r = self.resolve(self.modules[target], attr, _depth + 1)
            if r is not None:
                return r
            return None
        return ('extattr', target, attr)

    def resolve_attr_chain(self, module, node):
        """Resolve ``a.b.c`` expressions statically (modules / module attributes only)."""
        if isinstance(node, ast.Name):
            return self.resolve(module, node.id)
        if isinstance(node, ast.Attribute):
            base = self.resolve_attr_chain(module, node.value)
            if base is None:
                return None
            if base[0] == 'module':
                dotted = base[1]
                sub = dotted + '.' + node.attr
                if sub in self.modules:
                    return ('module', sub)
                if dotted in self.modules:
                    return self.resolve(self.modules[dotted], node.attr)
                return ('extattr', dotted, node.attr)
            if base[0] == 'extattr':
                return ('extattr', base[1], base[2] + '.' + node.attr)
            if base[0] == 'class':
                # Cls.method / Cls.CONSTANT of a package class
                lm = self.lookup_method(base[1], base[2], node.attr)
                if lm:
                    return ('func', lm[0], lm[2])
                ca = self.class_attr(base[1], base[2], node.attr)
                if ca:
                    return ('const', ca[0], '%s.%s' % (ca[1].name, node.attr), ca[2])
        return None

    # -- classes ----------------------------------------------------------------------------
    def class_bases(self, module, cls):
        out = []
        for b in cls.bases:
            r = self.resolve_attr_chain(module, b)
            if r and r[0] == 'class':
                out.append((r[1], r[2]))
        return out

    def mro(self, module, cls):
        """Linearised (depth-first, left-to-right; enough for single inheritance) class list."""
        seen, out = set(), []

        def go(m, c):
            if id(c) in seen:
                return
            seen.add(id(c))
            out.append((m, c))
            for bm, bc in self.class_bases(m, c):
                go(bm, bc)
        go(module, cls)
        return out

    def lookup_method(self, module, cls, name):
        for m, c in self.mro(module, cls):
            for node in c.body:
                if isinstance(node, ast.FunctionDef) and node.name == name:
                    return m, c, node
                if isinstance(node, ast.Assign):
                    for t in node.targets:
                        if isinstance(t, ast.Name) and t.id == name:
                            # alias such as __radd__ = __add__
                            if isinstance(node.value, ast.Name):
                                return self.lookup_method(m, c, node.value.id)
        return None

    def lookup_property(self, module, cls, name):
        """(Module, ClassDef, FunctionDef) of a ``@property`` getter named ``name`` in the class or its bases."""
        for m, c in self.mro(module, cls):
            for node in c.body:
                if isinstance(node, ast.FunctionDef) and node.name == name:
                    for d in node.decorator_list:
                        if (isinstance(d, ast.Name) and d.id in ('property', 'cached_property')) or \
                                (isinstance(d, ast.Attribute) and d.attr in ('cached_property', 'getter')):
                            return m, c, node
                    return None
        return None

    def class_attr(self, module, cls, name):
        for m, c in self.mro(module, cls):
            for node in c.body:
                if isinstance(node, ast.Assign):
                    for t in node.targets:
                        if isinstance(t, ast.Name) and t.id == name:
                            return m, c, node.value
        return None

    def find_class(self, name):
        out = []
        for m in self.modules.values():
            if name in m.classes:
                out.append((m, m.classes[name]))
        return out

    def subclasses_of(self, module, cls):
        out = []
        for m in self.modules.values():
            for c in m.classes.values():
                if c is cls:
                    continue
                if any(bc is cls for _, bc in self.mro(m, c)[1:]):
                    out.append((m, c))
        return out

    # -- registry -----------------------------------------------------------------------------
    @property
    def registry(self):
        """{excel name: (Module, FunctionDef)} from ``@<dispatcher>.register_for('A', 'B')``."""
        if self._registry is None:
            reg = {}
            dup = []
            for m, q, f in self.all_functions():
                for d in getattr(f, 'decorator_list', []):
                    if isinstance(d, ast.Call) and isinstance(d.func, ast.Attribute) \
                            and d.func.attr == 'register_for':
                        for a in d.args:
                            if isinstance(a, ast.Constant) and isinstance(a.value, str):
                                if a.value in reg:
                                    dup.append(a.value)
                                reg[a.value] = (m, f)
            self._registry = reg
            self.registry_duplicates = dup
            self.registry_values = {}
            self._dynamic_registrations(reg)
            self._wrapping_registrations(reg)
        return self._registry

    def registering_methods(self):
        """Names of the methods of the dispatcher class (the one that defines register_for) that hand on to register_for: decorators
        that register what they wrap (``def register_numeric(self, *names): ... return self.register_for(*names)(wrapped)``)."""
        out = set()
        for m in self.modules.values():
            for c in m.classes.values():
                if not any(isinstance(n, ast.FunctionDef) and n.name == 'register_for' for n in c.body):
                    continue
                for n in c.body:
                    if isinstance(n, ast.FunctionDef) and n.name != 'register_for' and \
                            any(isinstance(x, ast.Attribute) and x.attr == 'register_for' for x in ast.walk(n)):
                        out.add(n.name)
        return out

    def _wrapping_registrations(self, reg):
        """``@dispatcher.register_numeric('ABS')``: the decorated function is the anchor for the syntactic rules; what is registered is
        whatever the decorator makes of it - the interpreter applies the decorator and keeps the value, or records that it could not."""
        names_ = self.registering_methods()
        if not names_:
            return
        todo = []
        for m, q, f in self.all_functions():
            for d in getattr(f, 'decorator_list', []):
                if isinstance(d, ast.Call) and isinstance(d.func, ast.Attribute) and d.func.attr in names_:
                    todo.append((m, f, d, [a.value for a in d.args if isinstance(a, ast.Constant) and isinstance(a.value, str)]))
        if not todo:
            return
        try:
            from .absint import Interp, Frame, State, Builtin, Func, Const, _Signal, Unmodelled
        except Exception:
            return
        keys = {}
        for m in self.modules.values():
            for c in m.classes.values():
                for n in c.body:
                    if isinstance(n, ast.FunctionDef) and n.name == 'register_for':
                        keys[(m.name, '%s.%s' % (c.name, n.name))] = True
        for m, f, d, names in todo:
            found = []

            def summary(interp, args, kwargs, found=found):
                nm = 'hx:register:%d' % len(interp.extern)

                def reg_(it, a, kw):
                    found.append(a[0])
                    return a[0]
                interp.extern[nm] = reg_
                return Builtin(nm)
            value = None
            try:
                it = Interp(self, opaque=dict((k_, summary) for k_ in keys))
                it.state, it.depth, it._decisions, it._dpos = State(), 0, [], 0
                dec = it.expr(d, Frame({}, None, m))
                it.call(dec, [Func(m, f)])
                if len(found) == 1 and not it.state.imprecise:
                    value = found[0]
            except (_Signal, Unmodelled, AnalysisError, RecursionError):
                value = None
            except Exception:
                value = None
            for nm_ in names:
                if nm_ not in reg:
                    reg[nm_] = (m, f)
                    self.registry_values[nm_] = value if value is not None else UNFOLLOWED

    def _dynamic_registrations(self, reg):
        """Registrations made by calling the decorator at import time (``f = d.register_for('A')(make(...))``, also inside a
        module-level loop over a table): the module-level statements that do so are abstractly executed with the registration
        summarised; the registered function *values* (closures included) are kept in ``registry_values``."""
        stmts = []
        for m in self.modules.values():
            for st in m.tree.body:
                if isinstance(st, (ast.FunctionDef, ast.ClassDef, ast.Import, ast.ImportFrom)):
                    continue
                if any(isinstance(x, ast.Attribute) and x.attr == 'register_for' for x in ast.walk(st)):
                    stmts.append((m, st))
        if not stmts:
            return
        try:
            from .absint import Interp, Frame, State, Builtin, Func, Const, _Signal, Unmodelled
        except Exception:
            return
        keys = {}
        for m in self.modules.values():
            for c in m.classes.values():
                for n in c.body:
                    if isinstance(n, ast.FunctionDef) and n.name == 'register_for':
                        keys[(m.name, '%s.%s' % (c.name, n.name))] = True
        found = []

        def summary(interp, args, kwargs):
            names = [a.value for a in args[1:] if isinstance(a, Const) and isinstance(a.value, str)]
            nm = 'hx:register:%d' % len(interp.extern)

            def reg_(it, a, kw, names=names):
                found.append((names, a[0]))
                return a[0]
            interp.extern[nm] = reg_
            return Builtin(nm)
        it = Interp(self, opaque=dict((k_, summary) for k_ in keys))
        for m, st in stmts:
            it.state, it.depth, it._decisions, it._dpos = State(), 0, [], 0
            try:
                it.block([st], Frame({}, None, m))
            except (_Signal, Unmodelled, AnalysisError, RecursionError):
                continue
            except Exception:
                continue
        for names, fv in found:
            if not isinstance(fv, Func) or not isinstance(fv.node, (ast.FunctionDef, ast.Lambda)):
                continue
            for nm_ in names:
                if nm_ not in reg:
                    reg[nm_] = (fv.module, fv.node)
                    self.registry_values[nm_] = fv

    def registered(self, excel_name):
        r = self.registry.get(excel_name)
        if r is None:
            raise AnalysisError('no function registered for %r (anchor vanished)' % excel_name)
        return r


UNFOLLOWED = 'hx:registered-through-a-decorator-the-interpreter-cannot-follow'


def const_value(node):
    """Literal value of a constant expression node, or raise ValueError."""
    return ast.literal_eval(node)


def src(node):
    try:
        return ast.unparse(node)
    except Exception:
        return '<%s>' % type(node).__name__
