# -*- coding: utf-8 -*-
"""E3 - syntax-directed enumeration of the acyclic paths of one function body.

A path is a list of items followed by a terminal:

  ('stmt', node)            a simple statement executed completely
  ('cond', test, truth)     a branch decision
  ('loop', node, n)         loop entered (n=1) or skipped / left normally (n=0)
  ('exc', node, handler)    control leaves ``node`` by an exception *before* it completes and enters ``handler``
                            (handler None = propagates out of the function)

  terminal: ('return', node) | ('raise', node) | ('end', None) | ('break', node) | ('continue', node)
            | ('propagate', node)  (uncaught exception edge out of a try body; only produced on request)

Loops contribute "zero iterations" and "one iteration" (the body once); rules that need more say so.
"""
import ast

MAX_PATHS = 20000


class TooManyPaths(Exception):
    pass


class Path(object):
    __slots__ = ('items', 'terminal')

    def __init__(self, items, terminal):
        self.items = items
        self.terminal = terminal

    def stmts(self):
        return [it[1] for it in self.items if it[0] == 'stmt']

    def conds(self):
        return [(it[1], it[2]) for it in self.items if it[0] == 'cond']

    def kind(self):
        return self.terminal[0]

    def nodes(self):
        """All AST nodes evaluated on this path, in order (statements and branch tests)."""
        out = []
        for it in self.items:
            if it[0] in ('stmt', 'cond'):
                out.append(it[1])
            elif it[0] == 'loop':
                out.append(it[1].iter if isinstance(it[1], ast.For) else it[1].test)
        return out

    def describe(self):
        out = []
        for it in self.items:
            if it[0] == 'cond':
                out.append('%s[%s]' % ('if' if it[2] else 'if-not', _u(it[1])))
            elif it[0] == 'exc':
                out.append('exc@%d->%s' % (getattr(it[1], 'lineno', 0),
                                           'handler@%d' % it[2].lineno if it[2] is not None else 'out'))
            elif it[0] == 'loop':
                out.append('loop@%d x%d' % (it[1].lineno, it[2]))
        t = self.terminal
        out.append('%s@%s' % (t[0], getattr(t[1], 'lineno', '-')))
        return ' ; '.join(out)


def _u(n):
    try:
        s = ast.unparse(n)
    except Exception:
        s = type(n).__name__
    return s if len(s) < 70 else s[:67] + '...'


def may_raise(node):
    """Can evaluating this statement/expression raise?  (syntactic over-approximation)"""
    for n in ast.walk(node):
        if isinstance(n, (ast.Call, ast.Subscript, ast.BinOp, ast.Attribute, ast.Compare, ast.UnaryOp,
                          ast.Raise, ast.Starred, ast.For, ast.Await, ast.Yield, ast.YieldFrom)):
            return True
    return False


def function_paths(func, exc_out=False):
    """All paths of a FunctionDef (or a list of statements)."""
    body = func.body if hasattr(func, 'body') and not isinstance(func, list) else func
    counter = [0]
    out = []
    for items, term in _seq(body, 0, counter, exc_out):
        if term is None:
            term = ('end', None)
        out.append(Path(items, term))
    return out


def _seq(stmts, i, counter, exc_out):
    if i >= len(stmts):
        yield [], None
        return
    for items, term in _stmt(stmts[i], counter, exc_out):
        if term is not None:
            counter[0] += 1
            if counter[0] > MAX_PATHS:
                raise TooManyPaths()
            yield items, term
        else:
            for items2, term2 in _seq(stmts, i + 1, counter, exc_out):
                yield items + items2, term2


def _stmt(node, counter, exc_out):
    if isinstance(node, ast.If):
        for items, term in _seq(node.body, 0, counter, exc_out):
            yield [('cond', node.test, True)] + items, term
        for items, term in _seq(node.orelse, 0, counter, exc_out):
            yield [('cond', node.test, False)] + items, term
    elif isinstance(node, (ast.For, ast.While, ast.AsyncFor)):
        # zero iterations
        for items, term in _seq(node.orelse, 0, counter, exc_out):
            yield [('loop', node, 0)] + items, term
        # one iteration
        for items, term in _seq(node.body, 0, counter, exc_out):
            if term is None or term[0] == 'continue':
                for items2, term2 in _seq(node.orelse, 0, counter, exc_out):
                    yield [('loop', node, 1)] + items + items2, term2
            elif term[0] == 'break':
                yield [('loop', node, 1)] + items, None
            else:
                yield [('loop', node, 1)] + items, term
    elif isinstance(node, ast.Try) or (hasattr(ast, 'TryStar') and isinstance(node, getattr(ast, 'TryStar'))):
        results = []
        seen = set()
        body_paths = list(_seq(node.body, 0, counter, exc_out))
        for items, term in body_paths:
            # normal completion of the body
            if term is None:
                for items2, term2 in _seq(node.orelse, 0, counter, exc_out):
                    results.append((items + items2, term2))
            else:
                results.append((items, term))
            # exception edges: before each evaluated node that may raise
            for k, it in enumerate(items):
                n = None
                if it[0] in ('stmt', 'cond'):
                    n = it[1]
                elif it[0] == 'loop':
                    n = it[1].iter if isinstance(it[1], ast.For) else it[1].test
                if n is None or not may_raise(n):
                    continue
                key = tuple(id(x[1]) if x[0] != 'cond' else (id(x[1]), x[2]) for x in items[:k]) + (id(n),)
                if key in seen:
                    continue
                seen.add(key)
                for h in node.handlers:
                    for hitems, hterm in _seq(h.body, 0, counter, exc_out):
                        results.append((items[:k] + [('exc', n, h)] + hitems, hterm))
                if exc_out:
                    results.append((items[:k] + [('exc', n, None)], ('propagate', n)))
            # an explicit raise terminal inside the body is caught as well
            if term is not None and term[0] == 'raise':
                key = tuple(id(x[1]) for x in items) + ('raise',)
                if key not in seen:
                    seen.add(key)
                    for h in node.handlers:
                        for hitems, hterm in _seq(h.body, 0, counter, exc_out):
                            results.append((items + [('exc', term[1], h)] + hitems, hterm))
        for items, term in results:
            if node.finalbody:
                for fitems, fterm in _seq(node.finalbody, 0, counter, exc_out):
                    yield items + fitems, (fterm if fterm is not None else term)
            else:
                yield items, term
    elif isinstance(node, (ast.With, ast.AsyncWith)):
        for items, term in _seq(node.body, 0, counter, exc_out):
            yield [('stmt', node)] + items, term
    elif hasattr(ast, 'Match') and isinstance(node, ast.Match):
        # one path per case (the subject is evaluated first), and the fall-through when no case is irrefutable
        irrefutable = False
        for case in node.cases:
            for items, term in _seq(case.body, 0, counter, exc_out):
                yield [('stmt', ast.Expr(value=node.subject))] + items, term
            pat = case.pattern
            if case.guard is None and isinstance(pat, ast.MatchAs) and pat.pattern is None:
                irrefutable = True
        if not irrefutable:
            yield [('stmt', ast.Expr(value=node.subject))], None
    elif isinstance(node, ast.Return):
        yield [('stmt', node)], ('return', node)
    elif isinstance(node, ast.Raise):
        yield [('stmt', node)], ('raise', node)
    elif isinstance(node, ast.Break):
        yield [], ('break', node)
    elif isinstance(node, ast.Continue):
        yield [], ('continue', node)
    elif hasattr(ast, 'Match') and isinstance(node, ast.Match):
        for case in node.cases:
            for items, term in _seq(case.body, 0, counter, exc_out):
                yield [('stmt', node)] + items, term
        yield [('stmt', node)], None
    else:
        yield [('stmt', node)], None


# ---------------------------------------------------------------------------------------------------
# helpers over conditions

class _Unwalrus(ast.NodeTransformer):
    def visit_NamedExpr(self, node):
        return ast.copy_location(ast.Name(id=node.target.id, ctx=ast.Load()), node)


def _unwalrus(test):
    """``f(x := e)`` as a fact that holds after the test: a fact about ``x`` (the name then holds that value).  Only when every
    name is bound at most once in the test and is not read before its binding - otherwise the test is left as written."""
    bound = [n for n in ast.walk(test) if isinstance(n, ast.NamedExpr)]
    if not bound:
        return test
    names = [n.target.id for n in bound]
    if len(set(names)) != len(names):
        return test
    for b in bound:
        pos = (b.lineno, b.col_offset)
        for n in ast.walk(test):
            if isinstance(n, ast.Name) and n.id == b.target.id and n is not b.target and (n.lineno, n.col_offset) < pos \
                    and not any(n is x for x in ast.walk(b.value)):
                return test
    import copy
    return ast.fix_missing_locations(_Unwalrus().visit(copy.deepcopy(test)))


def atoms(test, truth, _top=True):
    """Decompose a branch decision into atomic (expr, truth) facts that *must* hold.
    ``A and B`` true => A true, B true ; ``A or B`` false => A false, B false ; ``not A``."""
    out = []
    if _top:
        test = _unwalrus(test)
    if isinstance(test, ast.UnaryOp) and isinstance(test.op, ast.Not):
        return atoms(test.operand, not truth, False)
    if isinstance(test, ast.BoolOp):
        if isinstance(test.op, ast.And) and truth:
            for v in test.values:
                out.extend(atoms(v, True, False))
            return out
        if isinstance(test.op, ast.Or) and not truth:
            for v in test.values:
                out.extend(atoms(v, False, False))
            return out
        return [(test, truth)]
    return [(test, truth)]


def calls_in(node, include_nested_defs=False):
    """Call nodes inside ``node`` in source order (not descending into nested defs/lambdas)."""
    out = []

    def go(n):
        for c in ast.iter_child_nodes(n):
            if not include_nested_defs and isinstance(c, (ast.FunctionDef, ast.Lambda, ast.ClassDef,
                                                          ast.AsyncFunctionDef)):
                continue
            go(c)
            if isinstance(c, ast.Call):
                out.append(c)
    if isinstance(node, ast.Call):
        go(node)
        out.append(node)
    else:
        go(node)
    out.sort(key=lambda c: (getattr(c, 'end_lineno', 0), getattr(c, 'end_col_offset', 0)))
    return out


def walk_no_defs(node):
    """ast.walk that does not descend into nested function/class definitions or lambdas."""
    stack = [node]
    first = True
    while stack:
        n = stack.pop()
        if not first and isinstance(n, (ast.FunctionDef, ast.Lambda, ast.ClassDef, ast.AsyncFunctionDef)):
            yield n
            continue
        first = False
        yield n
        stack.extend(reversed(list(ast.iter_child_nodes(n))))


def names_in(node):
    return set(n.id for n in ast.walk(node) if isinstance(n, ast.Name))
