"""Region lint RP: two Python constructs that make a function's outcome depend on something other than its arguments' values.

RP.identity  ``a is b`` / ``a is not b`` where one operand is provably a number or a text computed in the function (a counter, a
             length, an index, the result of arithmetic or of a text method).  Identity of such values is an accident of the
             interpreter (small-integer cache, interning): the comparison is true for 3 and false for 300, false for 2.0 against 2.
             Literal operands for which CPython guarantees one object (None, True, False, ..., integers -5..256, '' and one-character
             texts) are not reported: there the comparison is the same for every run.
RP.shared    a mutable default argument (``def f(x, out=[])``) or an empty module-level container that the function hands out
             (returns, yields, stores) or edits in place: one object is shared by every call, so what one caller does with its result
             changes what the next caller gets.

Both are decided on the syntax tree of the functions of the region (every function reachable from the property's entry points in the
resolved call graph); the evidence for "is a number / a text" is positive (every binding of the name in the function is a literal, an
arithmetic expression, or a call of a builtin / text method whose result type is fixed), parameters are never assumed to be numbers.
"""
import ast

from .model import src
from .paths import walk_no_defs

RULE = 'RP'
RULE_TEXT = ('region lint: no identity comparison (is / is not) of computed numbers or texts, no mutable default or empty module-level '
             'container handed out or edited in place')

NUM_CALLS = {'len', 'int', 'float', 'round', 'abs', 'ord', 'sum', 'hash', 'divmod', 'pow'}
STR_CALLS = {'str', 'repr', 'hex', 'oct', 'bin', 'chr', 'format'}
NUM_METHODS = {'find', 'rfind', 'index', 'rindex', 'count', 'bit_length', 'total_seconds', 'toordinal', 'weekday', 'isoweekday'}
STR_METHODS = {'lower', 'upper', 'strip', 'lstrip', 'rstrip', 'replace', 'join', 'format', 'title', 'capitalize', 'casefold', 'swapcase',
               'zfill', 'rjust', 'ljust', 'center', 'translate', 'expandtabs', 'isoformat', 'strftime'}
ARITH = (ast.Add, ast.Sub, ast.Mult, ast.Div, ast.FloorDiv, ast.Mod, ast.Pow, ast.LShift, ast.RShift, ast.BitAnd, ast.BitOr, ast.BitXor)
MUTATORS = {'append', 'extend', 'add', 'update', 'insert', 'pop', 'popitem', 'clear', 'remove', 'discard', 'setdefault', 'sort', 'reverse',
            'appendleft', 'extendleft', '__setitem__', '__delitem__'}


def _guaranteed_single_object(c):
    """Literals for which ``is`` is the same on every run of CPython."""
    v = c.value
    if v is None or v is True or v is False or v is Ellipsis:
        return True
    if isinstance(v, int):
        return -5 <= v <= 256
    if isinstance(v, (str, bytes)):
        return len(v) <= 1
    return False


def _params(f):
    a = f.args
    names = [x.arg for x in a.posonlyargs + a.args + a.kwonlyargs]
    if a.vararg:
        names.append(a.vararg.arg)
    if a.kwarg:
        names.append(a.kwarg.arg)
    return set(names)


def _bindings(f):
    """{name: [('assign'|'aug'|'for-int'|'other', value node or None)]} for the stores of the function (nested defs excluded)."""
    out = {}

    def add(name, kind, v):
        out.setdefault(name, []).append((kind, v))

    def target(t, kind, v):
        if isinstance(t, ast.Name):
            add(t.id, kind, v)
        elif isinstance(t, (ast.Tuple, ast.List)):
            for e in t.elts:
                target(e.value if isinstance(e, ast.Starred) else e, 'other', None)
    for n in walk_no_defs(f):
        if isinstance(n, ast.Assign):
            for t in n.targets:
                target(t, 'assign', n.value)
        elif isinstance(n, ast.AugAssign):
            target(n.target, 'aug', n.value)
        elif isinstance(n, ast.NamedExpr):
            target(n.target, 'assign', n.value)
        elif isinstance(n, (ast.For, ast.AsyncFor)):
            it = n.iter
            if isinstance(n.target, ast.Name) and isinstance(it, ast.Call) and isinstance(it.func, ast.Name) and it.func.id == 'range':
                add(n.target.id, 'for-int', None)
            elif isinstance(n.target, ast.Tuple) and len(n.target.elts) == 2 and isinstance(it, ast.Call) and isinstance(it.func, ast.Name) \
                    and it.func.id == 'enumerate' and isinstance(n.target.elts[0], ast.Name):
                add(n.target.elts[0].id, 'for-int', None)
                target(n.target.elts[1], 'other', None)
            else:
                target(n.target, 'other', None)
        elif isinstance(n, ast.comprehension):
            target(n.target, 'other', None)
        elif isinstance(n, (ast.With, ast.AsyncWith)):
            for it in n.items:
                if it.optional_vars is not None:
                    target(it.optional_vars, 'other', None)
        elif isinstance(n, ast.ExceptHandler) and n.name:
            add(n.name, 'other', None)
        elif isinstance(n, (ast.Import, ast.ImportFrom)):
            for al in n.names:
                add((al.asname or al.name).split('.')[0], 'other', None)
        elif isinstance(n, (ast.Global, ast.Nonlocal)):
            for nm in n.names:
                add(nm, 'other', None)
    return out


def _value_kind(f, e, binds, params, shadowed, depth=0):
    """'number' / 'text' when ``e`` is provably a computed number / text, else None."""
    if depth > 4:
        return None
    if isinstance(e, ast.Constant):
        v = e.value
        if isinstance(v, bool) or v is None or v is Ellipsis:
            return None
        if isinstance(v, (int, float, complex)):
            return 'number'
        if isinstance(v, (str, bytes)):
            return 'text'
        return None
    if isinstance(e, ast.JoinedStr):
        return 'text'
    if isinstance(e, ast.UnaryOp) and isinstance(e.op, (ast.USub, ast.UAdd, ast.Invert)):
        return _value_kind(f, e.operand, binds, params, shadowed, depth + 1)
    if isinstance(e, ast.BinOp) and isinstance(e.op, ARITH):
        l = _value_kind(f, e.left, binds, params, shadowed, depth + 1)
        r = _value_kind(f, e.right, binds, params, shadowed, depth + 1)
        if isinstance(e.op, ast.Mod) and l == 'text':
            return 'text'
        if l == 'number' and r == 'number':
            return 'number'
        if l == 'text' and r == 'text' and isinstance(e.op, ast.Add):
            return 'text'
        if (l == 'number' or r == 'number') and not isinstance(e.op, (ast.Mult, ast.Add, ast.Mod)):
            return 'number'         # x - 1, x // 2, x ** 2: only numbers support these with a number
        if isinstance(e.op, ast.Add) and (l == 'number' or r == 'number'):
            return 'number'         # number + x is a number or a TypeError
        return None
    if isinstance(e, ast.Call):
        if isinstance(e.func, ast.Name) and e.func.id not in shadowed and e.func.id not in binds and e.func.id not in params:
            if e.func.id in NUM_CALLS:
                return 'number'
            if e.func.id in STR_CALLS:
                return 'text'
        if isinstance(e.func, ast.Attribute):
            if e.func.attr in NUM_METHODS:
                return 'number'
            if e.func.attr in STR_METHODS:
                return 'text'
        return None
    if isinstance(e, ast.Name):
        if e.id in params or e.id not in binds:
            return None
        kinds = set()
        for kind, v in binds[e.id]:
            if kind == 'for-int':
                kinds.add('number')
            elif kind == 'assign':
                if isinstance(v, ast.Name) and v.id == e.id:
                    continue
                kinds.add(_value_kind(f, v, binds, params, shadowed, depth + 1))
            elif kind == 'aug':
                continue        # x += k keeps the kind the other bindings establish (or raises)
            else:
                kinds.add(None)
        if len(kinds) == 1 and None not in kinds:
            return kinds.pop()
        return None
    return None


def _mutable_literal(e, empty_only=False):
    if isinstance(e, (ast.List, ast.Set)):
        return not empty_only or not e.elts
    if isinstance(e, ast.Dict):
        return not empty_only or not e.keys
    if isinstance(e, (ast.ListComp, ast.SetComp, ast.DictComp)):
        return not empty_only
    if isinstance(e, ast.Call) and isinstance(e.func, ast.Name) and e.func.id in ('list', 'dict', 'set', 'bytearray') and not e.keywords:
        return not e.args or not empty_only
    if isinstance(e, ast.Call) and isinstance(e.func, (ast.Name, ast.Attribute)) and \
            (e.func.id if isinstance(e.func, ast.Name) else e.func.attr) in ('defaultdict', 'OrderedDict', 'deque', 'Counter'):
        return not empty_only or (not e.args or (len(e.args) == 1 and isinstance(e.args[0], ast.Name)))
    return False


def _handed_out(f, name):
    """How the object bound to ``name`` leaves the function or is edited in place: [(node, description)]."""
    out = []

    def direct(e):
        """``e`` evaluates to the very object (not a copy): the name, or a conditional / boolean choice containing it."""
        if isinstance(e, ast.Name) and e.id == name:
            return True
        if isinstance(e, ast.IfExp):
            return direct(e.body) or direct(e.orelse)
        if isinstance(e, ast.BoolOp):
            return any(direct(v) for v in e.values)
        if isinstance(e, (ast.Tuple, ast.List)):
            return any(direct(v) for v in e.elts)
        return False
    for n in walk_no_defs(f):
        if isinstance(n, ast.Return) and n.value is not None and direct(n.value):
            out.append((n, 'returned'))
        elif isinstance(n, (ast.Yield, ast.YieldFrom)) and n.value is not None and isinstance(n, ast.Yield) and direct(n.value):
            out.append((n, 'yielded'))
        elif isinstance(n, ast.Assign) and direct(n.value) and any(isinstance(t, (ast.Attribute, ast.Subscript)) for t in n.targets):
            out.append((n, 'stored in %s' % src([t for t in n.targets if isinstance(t, (ast.Attribute, ast.Subscript))][0])))
        elif isinstance(n, ast.Call) and isinstance(n.func, ast.Attribute) and isinstance(n.func.value, ast.Name) and n.func.value.id == name \
                and n.func.attr in MUTATORS:
            out.append((n, 'edited in place (.%s)' % n.func.attr))
        elif isinstance(n, ast.Call) and isinstance(n.func, ast.Attribute) and n.func.attr in ('append', 'add', 'insert', 'appendleft') and \
                any(direct(a) for a in n.args):
            out.append((n, 'stored through .%s' % n.func.attr))
        elif isinstance(n, (ast.Assign, ast.AugAssign, ast.Delete)):
            tg = n.targets if not isinstance(n, ast.AugAssign) else [n.target]
            for t in tg:
                if isinstance(t, ast.Subscript) and isinstance(t.value, ast.Name) and t.value.id == name:
                    out.append((n, 'edited in place (item assignment)'))
                if isinstance(n, ast.AugAssign) and isinstance(t, ast.Name) and t.id == name:
                    out.append((n, 'edited in place (augmented assignment)'))
    return out


def check(res, ctx, keys, label, kinds=('identity', 'shared')):
    """Run RP over the functions ``keys`` of a region.  Returns the number of constructs examined."""
    if RULE not in res.rules:
        res.rule(RULE, RULE_TEXT)
    n = 0
    for key in sorted(k_ for k_ in keys if k_ in ctx.cg.funcs):
        m, f = ctx.cg.funcs[key]
        if not isinstance(f, (ast.FunctionDef, ast.AsyncFunctionDef)):
            continue
        params = _params(f)
        binds = _bindings(f)
        shadowed = set(m.functions) | set(m.constants)
        # RP.identity
        for node in (walk_no_defs(f) if 'identity' in kinds else ()):
            if not isinstance(node, ast.Compare):
                continue
            operands = [node.left] + list(node.comparators)
            for i, op in enumerate(node.ops):
                if not isinstance(op, (ast.Is, ast.IsNot)):
                    continue
                a, b = operands[i], operands[i + 1]
                if any(isinstance(x, ast.Constant) and _guaranteed_single_object(x) for x in (a, b)):
                    continue
                kinds = [_value_kind(f, x, binds, params, shadowed) for x in (a, b)]
                if not any(kinds):
                    continue
                n += 1
                which = a if kinds[0] else b
                kind = kinds[0] or kinds[1]
                res.ob(RULE, '%s.%s' % key, 'identity comparison %s' % src(node), False)
                res.violation(RULE, '%s:%s:identity-of-values:%s' % (key[0], key[1], _norm(src(node))), m.where(node),
                              '%s compares by identity (%s): %s is a computed %s, and whether two equal %ss are one object is an accident of the '
                              'interpreter (true for 3, false for 300 or for 2.0 against 2) - equal values must compare equal'
                              % (label, src(node), src(which), kind, kind), func=key[1])
        if 'shared' not in kinds:
            continue
        # RP.shared: mutable defaults
        a = f.args
        pos = a.posonlyargs + a.args
        pairs = list(zip(pos[len(pos) - len(a.defaults):], a.defaults)) + [(p, d) for p, d in zip(a.kwonlyargs, a.kw_defaults) if d is not None]
        for p, d in pairs:
            if not _mutable_literal(d):
                continue
            n += 1
            if p.arg in binds:
                res.ob(RULE, '%s.%s' % key, 'mutable default %s=%s' % (p.arg, src(d)), True, 'undecided: the parameter is rebound')
                continue
            uses = _handed_out(f, p.arg)
            res.ob(RULE, '%s.%s' % key, 'mutable default %s=%s' % (p.arg, src(d)), not uses, '; '.join(w for _, w in uses))
            if uses:
                node, how = uses[0]
                res.violation(RULE, '%s:%s:shared-default:%s' % (key[0], key[1], p.arg), m.where(node),
                              '%s: the default of parameter %s is one %s object created when the function was defined, and it is %s - every '
                              'call that relies on the default shares it, so what one caller does with the result changes what later calls return'
                              % (label, p.arg, src(d), how), func=key[1])
        # RP.shared: empty module-level containers
        for nm, cnode in m.constants.items():
            if '.' in nm or nm in binds or nm in params:
                continue
            empty = _mutable_literal(cnode, empty_only=True)
            # ... or a list / dict / set of constants: a *value* written once at module level (`THREE_BLANKS = [None, None, None]`)
            value_like = isinstance(cnode, (ast.List, ast.Set)) and all(isinstance(e_, ast.Constant) for e_ in cnode.elts) or \
                isinstance(cnode, ast.Dict) and all(isinstance(e_, ast.Constant) for e_ in list(cnode.keys) + list(cnode.values) if e_ is not None)
            if not (empty or value_like):
                continue
            if not any(isinstance(x, ast.Name) and x.id == nm for x in walk_no_defs(f)):
                continue
            uses = [(nd, how) for nd, how in _handed_out(f, nm) if how in ('returned', 'yielded')]
            # stored into a slot of a parameter (the return channel of a grammar action: p[0] = X; an output argument)
            for nd, how in _handed_out(f, nm):
                if how.startswith('stored in ') and isinstance(nd, ast.Assign):
                    for t in nd.targets:
                        if isinstance(t, ast.Subscript) and isinstance(t.value, ast.Name) and t.value.id in params:
                            uses.append((nd, 'handed out through %s' % src(t)))
            if not uses:
                continue
            # a registry that the module itself fills is a table, not an empty result
            filled = False
            for y in ast.walk(m.tree):
                if isinstance(y, ast.Call) and isinstance(y.func, ast.Attribute) and isinstance(y.func.value, ast.Name) and \
                        y.func.value.id == nm and y.func.attr in MUTATORS:
                    filled = True
                if isinstance(y, (ast.Assign, ast.AugAssign)):
                    for t in (y.targets if isinstance(y, ast.Assign) else [y.target]):
                        if isinstance(t, ast.Subscript) and isinstance(t.value, ast.Name) and t.value.id == nm:
                            filled = True
            n += 1
            res.ob(RULE, '%s.%s' % key, 'module-level empty container %s handed out' % nm, filled, 'a table the module fills' if filled else '')
            if not filled:
                node, how = uses[0]
                res.violation(RULE, '%s:%s:shared-empty:%s' % (key[0], key[1], nm), m.where(node),
                              '%s: the module-level %s = %s is %s as the result - one object shared by every call, so what one caller does '
                              'with its result changes what later calls return' % (label, nm, src(cnode)[:60], how), func=key[1])
        # RP.shared: a closure made once at import (name = factory(...) at module level) that hands out a mutable of the factory's scope
        for nm, cnode in m.constants.items():
            if '.' in nm or not isinstance(cnode, ast.Call) or not isinstance(cnode.func, ast.Name) or cnode.func.id not in m.functions:
                continue
            if not any(isinstance(x, ast.Name) and x.id == nm and isinstance(x.ctx, ast.Load) for x in walk_no_defs(f)):
                continue
            g = m.functions[cnode.func.id]
            if not isinstance(g, ast.FunctionDef):
                continue
            gbinds = _bindings(g)
            for lname, stores in gbinds.items():
                if len(stores) != 1 or stores[0][0] != 'assign' or stores[0][1] is None:
                    continue
                lit = stores[0][1]
                value_like = isinstance(lit, (ast.List, ast.Set)) and all(isinstance(e_, ast.Constant) for e_ in lit.elts) or \
                    isinstance(lit, ast.Dict) and all(isinstance(e_, ast.Constant) for e_ in list(lit.keys) + list(lit.values) if e_ is not None)
                if not (_mutable_literal(lit, empty_only=True) or value_like):
                    continue
                for h in [x for x in ast.walk(g) if isinstance(x, ast.FunctionDef) and x is not g]:
                    if lname in _bindings(h) or lname in _params(h):
                        continue
                    uses = [(nd, how) for nd, how in _handed_out(h, lname) if how in ('returned', 'yielded')]
                    for nd, how in _handed_out(h, lname):
                        if how.startswith('stored in ') and isinstance(nd, ast.Assign):
                            for t in nd.targets:
                                if isinstance(t, ast.Subscript) and isinstance(t.value, ast.Name) and t.value.id in _params(h):
                                    uses.append((nd, 'handed out through %s' % src(t)))
                    if not uses:
                        continue
                    n += 1
                    node, how = uses[0]
                    res.ob(RULE, '%s.%s' % key, 'closure %s = %s(...) hands out %s of its factory' % (nm, g.name, lname), False)
                    res.violation(RULE, '%s:%s:shared-closure:%s' % (key[0], g.name, lname), m.where(node),
                                  '%s: %s is a closure made once when the module is imported (%s = %s), and the %s = %s of its enclosing scope is %s - '
                                  'one object shared by every call of the closure, so what one caller does with the result changes what later '
                                  'calls return' % (label, nm, nm, src(cnode)[:40], lname, src(lit)[:40], how), func=key[1])
        # RP.shared: a decorator (factory) of the package applied to this function: the closure it puts in the function's place is made once,
        # when the module is imported, and a mutable of the decorator's scopes that the closure hands out is shared by every call
        for d in getattr(f, 'decorator_list', []):
            target = d.func if isinstance(d, ast.Call) else d
            r = ctx.model.resolve_attr_chain(m, target) if isinstance(target, (ast.Name, ast.Attribute)) else None
            if r is None or r[0] != 'func' or not isinstance(r[2], ast.FunctionDef):
                continue
            gm, g = r[1], r[2]
            scopes = [g] + [x for x in ast.walk(g) if isinstance(x, ast.FunctionDef) and x is not g]
            for sc in scopes:
                inner = [x for x in ast.walk(sc) if isinstance(x, ast.FunctionDef) and x is not sc]
                if not inner:
                    continue
                for lname, stores in _bindings(sc).items():
                    if len(stores) != 1 or stores[0][0] != 'assign' or stores[0][1] is None:
                        continue
                    lit = stores[0][1]
                    value_like = isinstance(lit, (ast.List, ast.Set)) and all(isinstance(e_, ast.Constant) for e_ in lit.elts) or \
                        isinstance(lit, ast.Dict) and all(isinstance(e_, ast.Constant) for e_ in list(lit.keys) + list(lit.values) if e_ is not None)
                    if not (_mutable_literal(lit, empty_only=True) or value_like):
                        continue
                    for h in inner:
                        if lname in _bindings(h) or lname in _params(h):
                            continue
                        uses = [(nd, how) for nd, how in _handed_out(h, lname) if how in ('returned', 'yielded')]
                        for nd, how in _handed_out(h, lname):
                            if how.startswith('stored in ') and isinstance(nd, ast.Assign):
                                for t in nd.targets:
                                    if isinstance(t, ast.Subscript) and isinstance(t.value, ast.Name) and t.value.id in _params(h):
                                        uses.append((nd, 'handed out through %s' % src(t)))
                        if not uses:
                            continue
                        n += 1
                        node, how = uses[0]
                        res.ob(RULE, '%s.%s' % key, 'decorator %s: its closure hands out %s' % (g.name, lname), False)
                        res.violation(RULE, '%s:%s:shared-closure:%s' % (gm.name, g.name, lname), gm.where(node),
                                      '%s: %s is replaced, when the module is imported, by a closure of the decorator %s, and the %s = %s of the '
                                      'decorator\'s scope is %s - one object shared by every call, so what one caller does with the result changes '
                                      'what later calls return' % (label, f.name, g.name, lname, src(lit)[:40], how), func=key[1])
    return n


def _norm(s):
    return ''.join(ch if ch.isalnum() or ch in '._[]' else '_' for ch in s)[:60]
