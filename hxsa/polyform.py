# -*- coding: utf-8 -*-
"""Polynomial / rational normal forms of abstract arithmetic results.

An ``Atom`` tree built from add/sub/mul/truediv/neg/pow over symbols and constants is normalised to a rational function
(numerator and denominator polynomials with exact rational coefficients).  Everything else (math functions, powers with
a symbolic exponent, ...) becomes an opaque variable named by the canonical form of its arguments, so that
``math.log(x + 1)`` and ``math.log(1 + x)`` are the same variable.  Two expressions are identical as rational functions
iff  n1*d2 - n2*d1  is the zero polynomial - an algebraic identity, decided without evaluating anything.
"""
from fractions import Fraction

from .absint import Atom, Const, Sym, Aff


class Poly(object):
    def __init__(self, terms=None):
        self.terms = dict((m, c) for m, c in (terms or {}).items() if c != 0)

    @staticmethod
    def const(c):
        return Poly({(): Fraction(c)})

    @staticmethod
    def var(name):
        return Poly({((name, 1),): Fraction(1)})

    def __add__(self, o):
        t = dict(self.terms)
        for m, c in o.terms.items():
            t[m] = t.get(m, 0) + c
        return Poly(t)

    def __neg__(self):
        return Poly(dict((m, -c) for m, c in self.terms.items()))

    def __sub__(self, o):
        return self + (-o)

    def __mul__(self, o):
        t = {}
        for m1, c1 in self.terms.items():
            for m2, c2 in o.terms.items():
                d = dict(m1)
                for v, e in m2:
                    d[v] = d.get(v, 0) + e
                m = tuple(sorted((v, e) for v, e in d.items() if e != 0))
                t[m] = t.get(m, 0) + c1 * c2
        return Poly(t)

    def is_zero(self):
        return not self.terms

    def is_const(self):
        return all(m == () for m in self.terms)

    def key(self):
        return tuple(sorted((m, c) for m, c in self.terms.items()))

    def __repr__(self):
        if not self.terms:
            return '0'
        out = []
        for m, c in sorted(self.terms.items()):
            mono = '*'.join('%s%s' % (v, '' if e == 1 else '^%d' % e) for v, e in m)
            out.append('%s%s' % (c if (c != 1 or not mono) else '', ('*' if (c != 1 and mono) else '') + mono))
        return ' + '.join(out)


class Rat(object):
    def __init__(self, num, den=None):
        self.num = num
        self.den = den if den is not None else Poly.const(1)

    def __add__(self, o):
        return Rat(self.num * o.den + o.num * self.den, self.den * o.den)

    def __sub__(self, o):
        return Rat(self.num * o.den - o.num * self.den, self.den * o.den)

    def __mul__(self, o):
        return Rat(self.num * o.num, self.den * o.den)

    def __truediv__(self, o):
        return Rat(self.num * o.den, self.den * o.num)

    def __neg__(self):
        return Rat(-self.num, self.den)

    def equals(self, o):
        return (self.num * o.den - o.num * self.den).is_zero()

    def is_zero(self):
        return self.num.is_zero()

    def canon(self):
        """Canonical text (used to name opaque variables): normalise the leading denominator coefficient."""
        if self.den.is_const() and self.den.terms:
            c = list(self.den.terms.values())[0]
            n = Poly(dict((m, v / c) for m, v in self.num.terms.items()))
            return repr(n)
        return '(%r)/(%r)' % (self.num, self.den)

    def __repr__(self):
        return self.canon()


class NotPolynomial(Exception):
    pass


def const(c):
    return Rat(Poly.const(c))


def var(name):
    return Rat(Poly.var(name))


def ratform(v, env=None):
    """Rational normal form of an abstract value."""
    env = env or {}
    if isinstance(v, Const):
        if isinstance(v.value, bool) or not isinstance(v.value, (int, float)):
            raise NotPolynomial('constant %r' % (v.value,))
        return const(Fraction(v.value))
    if isinstance(v, Sym):
        return env.get(v.name, var(v.name))
    if isinstance(v, Aff):
        r = const(v.const)
        for name, c in v.coeffs.items():
            r = r + const(c) * var(name)
        return r
    if isinstance(v, Atom):
        if v.op in ('add', 'sub', 'mul', 'truediv') and len(v.args) == 2:
            a, b = ratform(v.args[0], env), ratform(v.args[1], env)
            if v.op == 'add':
                return a + b
            if v.op == 'sub':
                return a - b
            if v.op == 'mul':
                return a * b
            return a / b
        if v.op == 'neg':
            return -ratform(v.args[0], env)
        if v.op == 'pow' and len(v.args) == 2:
            b = v.args[1]
            if isinstance(b, Const) and isinstance(b.value, int) and not isinstance(b.value, bool) and 0 <= b.value <= 8:
                base = ratform(v.args[0], env)
                r = const(1)
                for _ in range(b.value):
                    r = r * base
                return r
            return var('pow(%s, %s)' % (ratform(v.args[0], env).canon(), ratform(b, env).canon()))
        if v.op in ('int', 'float') and len(v.args) == 1:
            # numeric conversion of a value that already is a number
            return var('%s(%s)' % (v.op, ratform(v.args[0], env).canon()))
        if v.op in ('math.pi', 'math.e', 'pi', 'e'):
            return var(v.op if v.op.startswith('math.') else 'math.' + v.op)
        args = []
        for a in v.args:
            try:
                args.append(ratform(a, env).canon())
            except NotPolynomial:
                args.append(repr(a))
        return var('%s(%s)' % (v.op, ', '.join(args)))
    raise NotPolynomial(repr(v))
