# -*- coding: utf-8 -*-
"""Shared purity rules on top of E5 (effects): no persistent write, no host mutation, no memo decorator
inside a region of the call graph.  Used by C02 for everything reachable from parse() and by the other properties
for the functions that implement them (a cache or a shared flag in that region makes the outcome depend on history,
which every one of these properties excludes by quantifying over all inputs *in any order*)."""
import ast

from .model import src
from .callgraph import fmt
from . import sa

MEMO_DECORATORS = ('lru_cache', 'cache', 'cached_property', 'functools.lru_cache', 'functools.cache',
                   'functools.cached_property')


def emitter_allow(ctx):
    """(class node ids, storage attr) of the emitter: its own listener bookkeeping is allow-listed."""
    from .rules import c20
    out = []
    try:
        for m, c in c20.find_emitter(ctx.model):
            methods = dict((n.name, n) for n in c.body if isinstance(n, ast.FunctionDef))
            out.append((c.name, c20.storage_attr(m, c, methods)))
    except Exception:
        pass
    return out


_SINGLETON_NAMES = {}


def _is_error_singleton(state):
    """``state`` names one of the module-level XLError instances (any other object of that module is ordinary state)."""
    if not state.startswith('hotxlfp.formulas.error.'):
        return False
    leaf = state.split('.')[-1]
    if _SINGLETON_NAMES.get('names') is not None:
        return leaf in _SINGLETON_NAMES['names']
    return leaf.isupper() and not leaf.startswith('_')


def classify(ev, allow):
    """-> (kind, description) with kind in 'state' | 'host' | None (not reportable)."""
    r = ev.receiver
    if r.has('state'):
        states = r.states()
        # emitter bookkeeping: on/once/off (and the once wrapper) edit their own per-name lists
        fq = ev.key[1]
        for cname, store in allow:
            if fq.startswith(cname + '.') and fq.split('.')[1] in ('on', 'once', 'off') and \
                    all(s in ('%s.%s' % (cname, store), 'self') for s in states):
                return None, None
            # emit() materialising the (empty) per-name list - what reading a defaultdict(list) does as well - adds no listener
            nd = getattr(ev, 'node', None)
            if fq.startswith(cname + '.') and fq.split('.')[1] == 'emit' and all(s == 'self' or s.endswith('.' + store) for s in states) and \
                    isinstance(nd, ast.Call) and isinstance(nd.func, ast.Attribute) and nd.func.attr == 'setdefault' and len(nd.args) == 2 and \
                    isinstance(nd.args[1], (ast.List, ast.Tuple)) and not nd.args[1].elts:
                return None, None
        # the XLError singletons are shared objects, but only attribute stores can change them
        real = [s for s in states if not _is_error_singleton(s) or ev.kind in ('store', 'delete')]
        if ev.kind in ('call', 'iop') and not real:
            pass
        else:
            return 'state', ', '.join(states)
    if r.has('host'):
        return 'host', 'a value supplied by the host (argument / operand / variable, cell or range value)'
    return None, None


def check_region(res, ctx, rule_state, rule_host, keys, label, lints=('identity', 'shared')):
    """Obligations: no event in ``keys`` writes persistent state (rule_state) or mutates a host value (rule_host)."""
    eff = ctx.effects
    allow = emitter_allow(ctx)
    try:
        from .rules.c01 import error_singletons
        _SINGLETON_NAMES['names'] = set(error_singletons(ctx.model)[1])
    except Exception:
        _SINGLETON_NAMES['names'] = None
    keys = set(keys)
    seen = set()
    n_events = 0
    for ev in eff.events:
        if ev.key not in keys:
            continue
        ident = (ev.key, id(ev.node), ev.kind)
        kind, desc = classify(ev, allow)
        if kind is None:
            if ident not in seen:
                seen.add(ident)
                n_events += 1
                res.ob(rule_state if rule_state else rule_host, fmt(ev.key), '%s %s on %r' % (ev.kind, ev.detail, ev.receiver), True)
            continue
        seen.add(ident)
        n_events += 1
        if kind == 'state' and rule_state:
            res.ob(rule_state, fmt(ev.key), '%s %s' % (ev.kind, ev.detail), False, desc)
            res.violation(rule_state, '%s:%s:persistent-write:%s' % (ev.key[0], ev.key[1], _norm(ev.detail)), ev.where(),
                          '%s writes state that outlives the evaluation (%s via %s): the outcome of later evaluations - on this or '
                          'another parser - can depend on earlier ones, and memory can grow per evaluation'
                          % (label, desc, ev.detail), case=' -> '.join(fmt(k) for k in ev.chain[-4:]), func=ev.key[1])
        elif kind == 'host' and rule_host:
            res.ob(rule_host, fmt(ev.key), '%s %s' % (ev.kind, ev.detail), False, desc)
            res.violation(rule_host, '%s:%s:host-mutation:%s' % (ev.key[0], ev.key[1], _norm(ev.detail)), ev.where(),
                          '%s mutates %s in place (%s)' % (label, desc, ev.detail),
                          case=' -> '.join(fmt(k) for k in ev.chain[-4:]), func=ev.key[1])
    from . import pitfalls
    n_events += pitfalls.check(res, ctx, keys, label, lints)
    return n_events


def _norm(s):
    return ''.join(ch if ch.isalnum() or ch in '._[]' else '_' for ch in s)[:60]


def check_memo(res, ctx, rule, keys, label):
    """No memoising decorator (or wrapped assignment) on a function of the region, unless bounded *and* typed."""
    model = ctx.model
    n = 0
    keys = set(keys)
    for k in sorted(keys):
        if k not in ctx.cg.funcs:
            continue
        m, f = ctx.cg.funcs[k]
        for d in getattr(f, 'decorator_list', []):
            bad, why = memo_decorator(m, d, model)
            if bad is None:
                continue
            n += 1
            res.ob(rule, fmt(k), 'decorator %s' % src(d), not bad, why)
            if bad:
                res.violation(rule, '%s:%s:memo-decorator' % k, m.where(d),
                              '%s is memoised (%s): %s' % (label, src(d), why), func=k[1])
    # wrapped form:  name = lru_cache(...)(func)  at module level
    for m in model.modules.values():
        for node in m.tree.body:
            if isinstance(node, ast.Assign) and isinstance(node.value, ast.Call):
                inner = node.value.func
                target = None
                dec = None
                if isinstance(inner, ast.Call) and _is_memo_name(m, inner.func, model):
                    dec = inner
                    target = node.value.args[0] if node.value.args else None
                elif _is_memo_name(m, inner, model) and node.value.args and isinstance(node.value.args[0], (ast.Name, ast.Attribute)):
                    dec = node.value
                    target = node.value.args[0]
                if dec is None or target is None:
                    continue
                r = model.resolve_attr_chain(m, target)
                if r and r[0] == 'func' and (r[1].name, r[1].qualname_of(r[2])) in keys:
                    bad, why = memo_decorator(m, dec if dec is not node.value else ast.Name(id='cache', ctx=ast.Load()), model)
                    n += 1
                    res.ob(rule, '%s:%s' % (m.name, src(node.targets[0])), 'wrapped %s' % src(node.value), not bad, why)
                    if bad:
                        res.violation(rule, '%s:%s:memo-wrapper' % (m.name, src(node.targets[0])), m.where(node),
                                      '%s is memoised (%s): %s' % (label, src(node.value), why))
    return n


def _is_memo_name(m, node, model):
    name = None
    if isinstance(node, ast.Name):
        name = node.id
    elif isinstance(node, ast.Attribute):
        name = src(node)
    if name is None:
        return False
    r = model.resolve_attr_chain(m, node)
    if r and r[0] == 'extattr':
        full = r[1] + '.' + r[2]
        return full in ('functools.lru_cache', 'functools.cache', 'functools.cached_property')
    return name in MEMO_DECORATORS


def memo_decorator(m, d, model):
    """-> (bad?, why) ; (None, None) if ``d`` is not a memo decorator."""
    call = d if isinstance(d, ast.Call) else None
    name_node = d.func if call else d
    if not _is_memo_name(m, name_node, model):
        return None, None
    leaf = src(name_node).split('.')[-1]
    if leaf in ('cache',):
        return True, 'unbounded cache keyed by ==/hash: retains every distinct argument forever and conflates 1, 1.0 and TRUE'
    maxsize = 128
    typed = False
    if call:
        if call.args:
            a = call.args[0]
            maxsize = a.value if isinstance(a, ast.Constant) else 'expr'
        for k in call.keywords:
            if k.arg == 'maxsize':
                maxsize = k.value.value if isinstance(k.value, ast.Constant) else 'expr'
            if k.arg == 'typed':
                typed = isinstance(k.value, ast.Constant) and k.value.value is True
    if maxsize is None:
        return True, 'lru_cache(maxsize=None) is an unbounded memo: memory grows with every distinct argument'
    if not typed:
        return True, ('lru_cache without typed=True conflates arguments that compare equal but are different Excel values '
                      '(1, 1.0, TRUE; 0, FALSE): the result then depends on which was evaluated first')
    return False, 'bounded and typed'
