# -*- coding: utf-8 -*-
"""Shared purity rules on top of E5 (effects): no persistent write, no host mutation, no memo decorator
inside a region of the call graph.  Used by C02 for everything reachable from parse() and by the other properties
for the functions that implement them (a cache or a shared flag in that region makes the outcome depend on history,
which every one of these properties excludes by quantifying over all inputs *in any order*)."""
import ast

from .model import src
from .callgraph import fmt
from . import sa

MEMO_DECORATORS = ('lru_cache', 'cache', 'cached_property', 'functools.lru_cache', 'functools.cache',
                   'functools.cached_property')


def emitter_allow(ctx):
    """(class node ids, storage attr) of the emitter: its own listener bookkeeping is allow-listed."""
    from .rules import c20
    out = []
    try:
        for m, c in c20.find_emitter(ctx.model):
            methods = dict((n.name, n) for n in c.body if isinstance(n, ast.FunctionDef))
            out.append((c.name, c20.storage_attr(m, c, methods)))
    except Exception:
        pass
    return out


_SINGLETON_NAMES = {}


def _is_error_singleton(state):
    """``state`` names one of the module-level XLError instances (any other object of that module is ordinary state)."""
    if not state.startswith('hotxlfp.formulas.error.'):
        return False
    leaf = state.split('.')[-1]
    if _SINGLETON_NAMES.get('names') is not None:
        return leaf in _SINGLETON_NAMES['names']
    return leaf.isupper() and not leaf.startswith('_')


def classify(ev, allow):
    """-> (kind, description) with kind in 'state' | 'host' | None (not reportable)."""
    r = ev.receiver
    if r.has('state'):
        states = r.states()
        # emitter bookkeeping: on/once/off (and the once wrapper) edit their own per-name lists
        fq = ev.key[1]
        for cname, store in allow:
            if fq.startswith(cname + '.') and fq.split('.')[1] in ('on', 'once', 'off') and \
                    all(s in ('%s.%s' % (cname, store), 'self') for s in states):
                return None, None
            # emit() materialising the (empty) per-name list - what reading a defaultdict(list) does as well - adds no listener
            nd = getattr(ev, 'node', None)
            if fq.startswith(cname + '.') and fq.split('.')[1] == 'emit' and all(s == 'self' or s.endswith('.' + store) for s in states) and \
                    isinstance(nd, ast.Call) and isinstance(nd.func, ast.Attribute) and nd.func.attr == 'setdefault' and len(nd.args) == 2 and \
                    isinstance(nd.args[1], (ast.List, ast.Tuple)) and not nd.args[1].elts:
                return None, None
        # the XLError singletons are shared objects, but only attribute stores can change them
        real = [s for s in states if not _is_error_singleton(s) or ev.kind in ('store', 'delete')]
        if ev.kind in ('call', 'iop') and not real:
            pass
        else:
            return 'state', ', '.join(states)
    if r.has('host'):
        return 'host', 'a value supplied by the host (argument / operand / variable, cell or range value)'
    return None, None


def check_region(res, ctx, rule_state, rule_host, keys, label, lints=('identity', 'shared')):
    """Obligations: no event in ``keys`` writes persistent state (rule_state) or mutates a host value (rule_host)."""
    eff = ctx.effects
    allow = emitter_allow(ctx)
    try:
        from .rules.c01 import error_singletons
        _SINGLETON_NAMES['names'] = set(error_singletons(ctx.model)[1])
    except Exception:
        _SINGLETON_NAMES['names'] = None
    keys = set(keys)
    seen = set()
    n_events = 0
    for ev in eff.events:
        if ev.key not in keys:
            continue
        ident = (ev.key, id(ev.node), ev.kind)
        kind, desc = classify(ev, allow)
        if kind is None:
            if ident not in seen:
                seen.add(ident)
                n_events += 1
                res.ob(rule_state if rule_state else rule_host, fmt(ev.key), '%s %s on %r' % (ev.kind, ev.detail, ev.receiver), True)
            continue
        seen.add(ident)
        n_events += 1
        if kind == 'state' and rule_state:
            res.ob(rule_state, fmt(ev.key), '%s %s' % (ev.kind, ev.detail), False, desc)
            res.violation(rule_state, '%s:%s:persistent-write:%s' % (ev.key[0], ev.key[1], _norm(ev.detail)), ev.where(),
                          '%s writes state that outlives the evaluation (%s via %s): the outcome of later evaluations - on this or '
                          'another parser - can depend on earlier ones, and memory can grow per evaluation'
                          % (label, desc, ev.detail), case=' -> '.join(fmt(k) for k in ev.chain[-4:]), func=ev.key[1])
        elif kind == 'host' and rule_host:
            res.ob(rule_host, fmt(ev.key), '%s %s' % (ev.kind, ev.detail), False, desc)
            res.violation(rule_host, '%s:%s:host-mutation:%s' % (ev.key[0], ev.key[1], _norm(ev.detail)), ev.where(),
                          '%s mutates %s in place (%s)' % (label, desc, ev.detail),
                          case=' -> '.join(fmt(k) for k in ev.chain[-4:]), func=ev.key[1])
    from . import pitfalls
    n_events += pitfalls.check(res, ctx, keys, label, lints)
    rule = rule_state if rule_state else rule_host
    # the other half of a lasting write: a function of this region consults it
    from . import ambient
    ambient.check(res, ctx, rule, keys, label)
    # functions of this region are in the registry when the package has been imported, not from the first evaluation that asks
    check_registration_at_import(res, ctx, rule, keys, label)
    return n_events


def registering_modules(model):
    return sorted(mm.name for mm in model.modules.values()
                  if any(isinstance(n_, ast.Attribute) and n_.attr == 'register_for' for n_ in ast.walk(mm.tree)) and
                  not any(isinstance(x, ast.FunctionDef) and x.name == 'register_for' for x in ast.walk(mm.tree)))


def imports_of(model, rname):
    """(top, lazy): import statements of module ``rname`` at module level / inside a function (importlib calls count as lazy)."""
    leaf = rname.split('.')[-1]
    top, lazy = [], []
    for mm in model.modules.values():
        if mm.name == rname:
            continue
        for st in ast.walk(mm.tree):
            names = []
            dynamic = False
            if isinstance(st, ast.ImportFrom):
                names = [a.name for a in st.names] + ([st.module.split('.')[-1]] if st.module else [])
            elif isinstance(st, ast.Import):
                names = [a.name.split('.')[-1] for a in st.names]
            elif isinstance(st, ast.Call) and ((sa.call_name(st) or '').endswith('import_module') or sa.call_name(st) == '__import__'):
                names = [a.value.split('.')[-1] for a in st.args if isinstance(a, ast.Constant) and isinstance(a.value, str)]
                dynamic = not names
            if dynamic:
                lazy.append((mm, st, True))
                continue
            if leaf not in names:
                continue
            fn_ = mm.enclosing_function(st)
            (lazy if fn_ is not None else top).append((mm, st, False))
    return top, lazy


def check_registration_at_import(res, ctx, rule, keys, label):
    model = ctx.model
    mods = set(k[0] for k in keys)
    for rname in registering_modules(model):
        if rname not in mods:
            continue
        top, lazy = imports_of(model, rname)
        if top:
            res.ob(rule, rname, 'the registering module is imported when the package is imported', True)
            continue
        named = [x for x in lazy if not x[2]] or lazy
        if not named:
            continue        # imported by nobody we can see: the registry model would not list its functions either
        mm, st, _ = named[0]
        res.ob(rule, rname, 'the registering module is imported when the package is imported', False, src(st)[:60])
        res.violation(rule, '%s:lazy-registration' % rname, mm.where(st),
                      'the module %s registers its functions when it is imported, and no module imports it at import time (only %s in %s '
                      'does, at run time): whether %s is found under every one of its names depends on what was evaluated before - the '
                      'registry fills during the first evaluations' % (rname, src(st)[:50], mm.qualname_of(st), label),
                      func=mm.qualname_of(st))


def _norm(s):
    return ''.join(ch if ch.isalnum() or ch in '._[]' else '_' for ch in s)[:60]


def check_memo(res, ctx, rule, keys, label):
    """No memoising decorator (or wrapped assignment) on a function of the region, unless bounded *and* typed."""
    model = ctx.model
    n = 0
    keys = set(keys)
    for k in sorted(keys):
        if k not in ctx.cg.funcs:
            continue
        m, f = ctx.cg.funcs[k]
        for d in getattr(f, 'decorator_list', []):
            bad, why = memo_decorator(m, d, model)
            if bad is None:
                bad, why = handmade_memo(m, d, model)
            if bad is None:
                continue
            n += 1
            res.ob(rule, fmt(k), 'decorator %s' % src(d), not bad, why)
            if bad:
                res.violation(rule, '%s:%s:memo-decorator' % k, m.where(d),
                              '%s is memoised (%s): %s' % (label, src(d), why), func=k[1])
    # wrapped form:  name = lru_cache(...)(func)  at module level
    for m in model.modules.values():
        for node in m.tree.body:
            if isinstance(node, ast.Assign) and isinstance(node.value, ast.Call):
                inner = node.value.func
                target = None
                dec = None
                if isinstance(inner, ast.Call) and _is_memo_name(m, inner.func, model):
                    dec = inner
                    target = node.value.args[0] if node.value.args else None
                elif _is_memo_name(m, inner, model) and node.value.args and isinstance(node.value.args[0], (ast.Name, ast.Attribute)):
                    dec = node.value
                    target = node.value.args[0]
                if dec is None and node.value.args and isinstance(node.value.args[0], (ast.Name, ast.Attribute)):
                    # name = handmade_cache(func)
                    hb, hw = handmade_memo(m, inner, model)
                    r = model.resolve_attr_chain(m, node.value.args[0])
                    if hb is not None and r and r[0] == 'func' and (r[1].name, r[1].qualname_of(r[2])) in keys:
                        n += 1
                        res.ob(rule, '%s:%s' % (m.name, src(node.targets[0])), 'wrapped %s' % src(node.value), not hb, hw)
                        if hb:
                            res.violation(rule, '%s:%s:memo-wrapper' % (m.name, src(node.targets[0])), m.where(node),
                                          '%s is memoised (%s): %s' % (label, src(node.value), hw))
                    continue
                if dec is None or target is None:
                    continue
                r = model.resolve_attr_chain(m, target)
                if r and r[0] == 'func' and (r[1].name, r[1].qualname_of(r[2])) in keys:
                    bad, why = memo_decorator(m, dec if dec is not node.value else ast.Name(id='cache', ctx=ast.Load()), model)
                    n += 1
                    res.ob(rule, '%s:%s' % (m.name, src(node.targets[0])), 'wrapped %s' % src(node.value), not bad, why)
                    if bad:
                        res.violation(rule, '%s:%s:memo-wrapper' % (m.name, src(node.targets[0])), m.where(node),
                                      '%s is memoised (%s): %s' % (label, src(node.value), why))
    return n


STORE_METHODS = ('setdefault', 'update', 'append', 'add', 'insert', 'extend', '__setitem__')
EVICT_METHODS = ('pop', 'popitem', 'clear', 'remove', 'discard', 'popleft')


def handmade_memo(m, d, model):
    """A decorator defined in the package whose wrapper keeps results in a container created when the function is decorated (the
    decorator's own local, a default argument, a module-level container): a cache that lives as long as the function.
    -> (bad?, why) ; (None, None) when ``d`` is not such a decorator."""
    name_node = d.func if isinstance(d, ast.Call) else d
    r = model.resolve_attr_chain(m, name_node) if isinstance(name_node, (ast.Name, ast.Attribute)) else None
    if r is None or r[0] != 'func':
        return None, None
    dm, dec = r[1], r[2]
    inner = [n for n in ast.walk(dec) if isinstance(n, (ast.FunctionDef, ast.Lambda)) and n is not dec]
    if not inner:
        return None, None
    # containers born in the decorator's own scopes (not in the innermost wrapper that runs per call)
    born = {}
    scopes = [dec] + [n for n in inner if any(isinstance(x, (ast.FunctionDef, ast.Lambda)) and x is not n for x in ast.walk(n))]
    for sc in scopes:
        for st in ast.walk(sc):
            if isinstance(st, ast.Assign) and len(st.targets) == 1 and isinstance(st.targets[0], ast.Name):
                v = st.value
                fresh = isinstance(v, (ast.Dict, ast.List, ast.Set)) or (
                    isinstance(v, ast.Call) and (sa.call_name(v) or '').split('.')[-1] in
                    ('dict', 'list', 'set', 'OrderedDict', 'defaultdict', 'deque', 'WeakValueDictionary', 'WeakKeyDictionary'))
                if fresh and dm.enclosing_function(st) is sc:
                    born[st.targets[0].id] = st
    for c_name, c_node in dm.constants.items():
        if isinstance(c_node, (ast.Dict, ast.List, ast.Set)) and not (getattr(c_node, 'keys', None) or getattr(c_node, 'elts', None)):
            born.setdefault(c_name, c_node)
    wrappers = [n for n in inner if n not in scopes or n is not dec]
    for w in inner:
        local = set(sa.params(w)) if isinstance(w, ast.FunctionDef) else set(a.arg for a in w.args.args)
        stores, evicts, typed = [], False, False
        for n in ast.walk(w):
            tgt = None
            if isinstance(n, ast.Assign):
                for t in n.targets:
                    if isinstance(t, ast.Subscript) and isinstance(t.value, ast.Name):
                        tgt = t.value.id
                    for t2 in ast.walk(t):       # chained:  value = known[args] = fn(...)
                        if isinstance(t2, ast.Subscript) and isinstance(t2.value, ast.Name) and isinstance(t2.ctx, ast.Store):
                            tgt = t2.value.id
            elif isinstance(n, ast.Call) and isinstance(n.func, ast.Attribute) and isinstance(n.func.value, ast.Name):
                if n.func.attr in STORE_METHODS:
                    tgt = n.func.value.id
                elif n.func.attr in EVICT_METHODS and n.func.value.id in born:
                    evicts = True
            elif isinstance(n, ast.Delete):
                for t in n.targets:
                    if isinstance(t, ast.Subscript) and isinstance(t.value, ast.Name) and t.value.id in born:
                        evicts = True
            if isinstance(n, ast.Call) and sa.call_name(n) == 'type':
                typed = True
            if tgt is not None and tgt in born and tgt not in local:
                stores.append((tgt, n))
        if stores:
            tgt, n = stores[0]
            if evicts and typed:
                return False, 'hand-made cache %s in %s: evicts entries and keys on the argument types' % (tgt, dec.name)
            why = []
            if not evicts:
                why.append('it is never emptied, so memory grows with every distinct argument')
            if not typed:
                why.append('its keys compare by == / hash, so 1, 1.0 and TRUE (or calls that differ only in what the key leaves out) '
                           'share one entry and the answer depends on which was evaluated first')
            return True, 'the decorator %s keeps results in %s, a container that lives as long as the function (%s); %s' % (
                dec.name, tgt, src(n)[:50], '; '.join(why))
    return None, None


def _is_memo_name(m, node, model):
    name = None
    if isinstance(node, ast.Name):
        name = node.id
    elif isinstance(node, ast.Attribute):
        name = src(node)
    if name is None:
        return False
    r = model.resolve_attr_chain(m, node)
    if r and r[0] == 'extattr':
        full = r[1] + '.' + r[2]
        return full in ('functools.lru_cache', 'functools.cache', 'functools.cached_property')
    return name in MEMO_DECORATORS


def memo_decorator(m, d, model):
    """-> (bad?, why) ; (None, None) if ``d`` is not a memo decorator."""
    call = d if isinstance(d, ast.Call) else None
    name_node = d.func if call else d
    if not _is_memo_name(m, name_node, model):
        return None, None
    leaf = src(name_node).split('.')[-1]
    if leaf in ('cache',):
        return True, 'unbounded cache keyed by ==/hash: retains every distinct argument forever and conflates 1, 1.0 and TRUE'
    maxsize = 128
    typed = False
    if call:
        if call.args:
            a = call.args[0]
            maxsize = a.value if isinstance(a, ast.Constant) else 'expr'
        for k in call.keywords:
            if k.arg == 'maxsize':
                maxsize = k.value.value if isinstance(k.value, ast.Constant) else 'expr'
            if k.arg == 'typed':
                typed = isinstance(k.value, ast.Constant) and k.value.value is True
    if maxsize is None:
        return True, 'lru_cache(maxsize=None) is an unbounded memo: memory grows with every distinct argument'
    if not typed:
        return True, ('lru_cache without typed=True conflates arguments that compare equal but are different Excel values '
                      '(1, 1.0, TRUE; 0, FALSE): the result then depends on which was evaluated first')
    return False, 'bounded and typed'
