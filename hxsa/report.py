# -*- coding: utf-8 -*-
"""Findings, obligations, evidence files, known-findings matching and the exit protocol."""
import json
import os
import re
import time

VERIF = os.path.dirname(os.path.dirname(os.path.abspath(__file__)))
EVIDENCE_DIR = os.environ.get('HXSA_EVIDENCE_DIR') or os.path.join(VERIF, 'evidence')   # override: self-validation runs on scratch copies
REPLAY_DIR = os.path.join(EVIDENCE_DIR, 'replay')
KNOWN = os.path.join(VERIF, 'known_findings.json')


class Finding(object):
    """A refuted obligation: a concrete construct of the analysed tree breaks a rule."""

    def __init__(self, rule, construct, where, why, case=None, func=None):
        self.rule = rule                # e.g. 'R3'
        self.construct = construct      # stable key: module:qualname:what   (never a line number)
        self.where = where              # file:line for humans
        self.why = why
        self.case = case
        self.func = func

    def key(self):
        return '%s|%s' % (self.rule, self.construct)

    def as_dict(self, prop):
        return {'property': prop, 'rule': self.rule, 'construct': self.construct, 'where': self.where,
                'function': self.func, 'abstract_case': self.case, 'why': self.why}


class Result(object):
    def __init__(self, prop):
        self.prop = prop
        self.findings = []
        self.obligations = []       # dicts: rule, site, case, verdict
        self.analysed = {}          # free-form counts: what was analysed
        self.rules = {}             # rule id -> one-line description
        self.assumptions = []
        self.trusted = []
        self.explanation = ''
        self.notes = []
        self.floors = []            # (what, measured, floor)

    def rule(self, rid, text):
        self.rules[rid] = text

    def ob(self, rule, site, case, ok, detail=None):
        """Record one obligation examined. ``ok`` True = discharged."""
        o = {'rule': rule, 'site': site, 'case': case, 'verdict': 'discharged' if ok else 'refuted'}
        if detail:
            o['detail'] = detail
        self.obligations.append(o)
        return ok

    def violation(self, rule, construct, where, why, case=None, func=None):
        # de-duplicate by key (several abstract cases may refute the same construct)
        for f in self.findings:
            if f.rule == rule and f.construct == construct:
                if case is not None and f.case is not None and len(str(f.case)) < 400 and str(case) not in str(f.case):
                    f.case = '%s ; %s' % (f.case, case)
                return f
        f = Finding(rule, construct, where, why, case, func)
        self.findings.append(f)
        return f

    def soft_floor(self, what, measured, floor):
        """Floor on the number of abstract traces / events an interpretive rule managed to examine: falling below it means
        the rule could not look at the construct in its present shape - recorded as undecided, not an error."""
        self.analysed[what] = measured
        self.floors.append((what, measured, floor))
        if measured < floor:
            self.notes.append('undecided: %s = %d < %d (construct not in a shape the interpreter can follow)' % (what, measured, floor))
            self.ob('floor', what, 'traces examined', True, 'undecided: %d < %d' % (measured, floor))
        return measured >= floor

    def absorb(self, rule, tmp, prefix=''):
        """Re-emit under ``rule`` the obligations and findings a rule group of another property recorded into ``tmp``
        (cross-property borrowing: the construct is a necessary condition of both properties)."""
        for o in tmp.obligations:
            self.ob(rule, o['site'], o['case'], o['verdict'] == 'discharged', o.get('detail'))
        for f in tmp.findings:
            self.violation(rule, f.construct, f.where, (prefix + f.why) if prefix else f.why, case=f.case, func=f.func)
        self.notes.extend(tmp.notes)
        for (w, m_, fl) in tmp.floors:
            self.analysed[w] = m_

    def floor(self, what, measured, floor):
        """Instance floor: fewer instances than confirmed by hand => the rule would pass vacuously."""
        from .model import AnalysisError
        self.floors.append((what, measured, floor))
        self.analysed[what] = measured
        if measured < floor:
            raise AnalysisError('instance floor: %s = %d < %d (rule would pass vacuously)' % (what, measured, floor))


def load_known():
    if not os.path.exists(KNOWN):
        return []
    with open(KNOWN) as fh:
        return json.load(fh)


def _slug(s):
    return re.sub(r'[^A-Za-z0-9_.-]+', '_', s)[:120]


def finish(result, tier, seed, t0, level='other'):
    """Print the verdict lines, write evidence (and replay files), return the exit code."""
    prop = result.prop
    known = [k for k in load_known() if k.get('property') == prop]
    open_known = {(k['rule'], k['construct']): k for k in known if k.get('status') == 'open'}
    os.makedirs(REPLAY_DIR, exist_ok=True)
    # stale replay files of this property
    for fn in os.listdir(REPLAY_DIR):
        if fn.startswith(prop + '-'):
            try:
                os.remove(os.path.join(REPLAY_DIR, fn))
            except OSError:
                pass
    new, listed = [], []
    for f in result.findings:
        if (f.rule, f.construct) in open_known:
            listed.append(f)
        else:
            new.append(f)
    for f in listed:
        k = open_known[(f.rule, f.construct)]
        print('KNOWN-FINDING: property=%s rule=%s construct=%s %s' % (prop, f.rule, f.construct, k.get('what', f.why)))
    for f in new:
        path = os.path.join(REPLAY_DIR, '%s-%s-%s.json' % (prop, f.rule, _slug(f.construct)))
        with open(path, 'w') as fh:
            json.dump(f.as_dict(prop), fh, indent=1, sort_keys=True)
        print('VIOLATION property=%s replay=%s' % (prop, path))
        print('  %s %s - %s.%s - %s%s' % (f.where, f.func or '', prop, f.rule, f.why,
                                           (' - case: %s' % (f.case,)) if f.case else ''))
    n_ob = len(result.obligations)
    n_dis = sum(1 for o in result.obligations if o['verdict'] == 'discharged')
    distinct = len(set((o['rule'], o['site'], json.dumps(o['case'], sort_keys=True, default=str))
                       for o in result.obligations))
    # samples: up to 3 obligations per rule, refuted ones first
    samples, per_rule = [], {}
    for o in sorted(result.obligations, key=lambda o: o['verdict'] != 'refuted'):
        c = per_rule.get(o['rule'], 0)
        if c < 3:
            per_rule[o['rule']] = c + 1
            samples.append(o)
    ev = {
        'property_id': prop,
        'tier': tier,
        'seed': seed,
        'level': level,
        'wall_s': round(time.time() - t0, 3),
        'violations': len(new),
        'assumptions': result.assumptions,
        'coverage': {
            'explanation': result.explanation,
            'rules': result.rules,
            'analysed': result.analysed,
            'instance_floors': [{'what': w, 'measured': m, 'floor': fl} for (w, m, fl) in result.floors],
            'obligations': n_ob,
            'discharged': n_dis,
            'refuted_known_findings': len(listed),
            'refuted_new': len(new),
            'evaluations': n_ob,
            'distinct_nontrivial': distinct,
            'rule': 'one obligation = one (rule, construct of /repo found by role, abstract case) triple that the '
                    'analysis evaluated on the current source; distinct = distinct triples; every obligation inspects '
                    'at least one real construct (rules with no instance fail the instance floor instead)',
            'samples': samples,
            'checker_cmd': '/venv/bin/python -m hxsa check %s --tier %s' % (prop, tier),
            'trusted_base': result.trusted,
            'exhaustive': True,
            'notes': result.notes,
        },
    }
    os.makedirs(EVIDENCE_DIR, exist_ok=True)
    with open(os.path.join(EVIDENCE_DIR, prop + '.json'), 'w') as fh:
        json.dump(ev, fh, indent=1, sort_keys=True, default=str)
    status = 'FAIL' if new else 'ok'
    print('%s %s tier=%s obligations=%d discharged=%d known=%d new=%d wall=%.2fs' % (
        prop, status, tier, n_ob, n_dis, len(listed), len(new), time.time() - t0))
    return 1 if new else 0
