# -*- coding: utf-8 -*-
"""Anchors found by role (through the grammar and the registry), not by position or internal name."""
import ast

from .model import AnalysisError
from .paths import walk_no_defs
from . import sa

ARITH_TOKENS = ['PLUS', 'MINUS', 'MULT', 'DIV']
COMPARISON_TOKENS = ['GREATER', 'LESS', 'GREATEREQ', 'LESSEQ', 'EQUAL', 'NOTEQUAL']


def _p_index(node, pname):
    if isinstance(node, ast.Subscript) and isinstance(node.value, ast.Name) and node.value.id == pname and \
            isinstance(node.slice, ast.Constant) and isinstance(node.slice.value, int):
        return node.slice.value
    return None


def binary_actions(g):
    """{'arith': (Module, FunctionDef), 'logic': ..., 'concat': ..., 'uminus': ..., 'paren': ...} action functions."""
    out = {}
    E = None
    for p in g.productions:
        if len(p.syms) == 3 and p.syms[0] == p.syms[2] == p.name and p.syms[1] in ARITH_TOKENS:
            E = p.name
    if E is None:
        raise AnalysisError('no arithmetic production found (anchor vanished)')
    for p in g.productions:
        mf = g.action_funcs[p.funcname]
        if p.syms == [E, 'PLUS', E]:
            out['arith'] = mf
        elif p.syms == [E, 'EQUAL', E]:
            out['logic'] = mf
        elif p.syms == [E, 'AMP', E]:
            out['concat'] = mf
        elif p.syms == ['MINUS', E]:
            out['uminus'] = mf
        elif p.syms == ['LPAREN', E, 'RPAREN']:
            out['paren'] = mf
    for need in ('arith', 'logic', 'concat', 'uminus'):
        if need not in out:
            raise AnalysisError('grammar action for %s not found (anchor vanished)' % need)
    out['E'] = E
    return out


def operator_callees(model, g):
    """Package functions that the binary-operator actions hand (p[1], p[3]) to:
    {'arith': (Module, FunctionDef) | None, 'logic': ..., 'concat': ...}"""
    acts = binary_actions(g)
    out = {}
    for kind in ('arith', 'logic', 'concat'):
        m, f = acts[kind]
        pn = sa.params(f)[1]
        found = []
        for n in walk_no_defs(f):
            if isinstance(n, ast.Call):
                idx = [_p_index(a, pn) for a in n.args]
                if 1 in idx and 3 in idx:
                    r = model.resolve_attr_chain(m, n.func) if isinstance(n.func, (ast.Name, ast.Attribute)) else None
                    if r and r[0] == 'func':
                        found.append((r[1], r[2], n))
        out[kind] = found
    return acts, out


def operator_lexemes(g, tokens):
    from . import rx
    out = {}
    for t in tokens:
        lt = g.lex_token(t)
        if lt is None:
            raise AnalysisError('token %s has no lexer rule' % t)
        l = rx.literal_lexeme(lt.regex)
        if l is None:
            raise AnalysisError('token %s is not a literal lexeme' % t)
        out[t] = l
    return out
