# -*- coding: utf-8 -*-
"""C01 - parse() is total: it always returns a well-formed result/error record, in bounded time."""
import ast

from ..model import AnalysisError, src
from ..paths import function_paths, walk_no_defs, calls_in, atoms
from ..callgraph import fmt
from .. import abshelp as H, sa, ctx as ctxmod, guards

NINE = ['#ERROR!', '#DIV/0!', '#NAME?', '#N/A', '#NULL!', '#NUM!', '#REF!', '#VALUE!', '#GETTING_DATA']
CATCH_ALL = ('Exception', 'BaseException')
SAFE_CALLS = ('isinstance', 'str', 'repr', 'type', 'id', 'print', 'bool', 'len', 'callable')
SAFE_PREFIXES = ('traceback.', 'logging.', 'warnings.')
INFINITE_PRODUCERS = ('itertools.count', 'itertools.cycle', 'itertools.repeat', 'count', 'cycle', 'repeat')
FINITE_CALLS = ('range', 'enumerate', 'zip', 'sorted', 'reversed', 'list', 'tuple', 'set', 'dict', 'frozenset',
                'iter', 'map', 'filter', 'str', 'len', 'min', 'max', 'sum', 'any', 'all')


def run(model, res, tier):
    c = ctxmod.get(model)
    cg = c.cg
    res.explanation = (
        'Path rules over the public parse(): R1 every call on every path is inside a try whose handlers cover Exception and whose '
        'handler bodies themselves cannot raise (only allow-listed non-raising calls, package callees checked recursively for '
        'raising constructs), R2 every return is a dict display with exactly the keys result/error and the end of the function is '
        'unreachable, R3 closed table of the nine codes (key == constructor message == statement list, default #ERROR!), '
        'who-may-construct XLError, error is None or str(from_message(.)), R4 path-sensitive coupling error set => result None and '
        'result never an error object. R5 every loop reachable from parse() is bounded: for-loops over finite-by-construction '
        'iterables, while-loops matching a variant idiom whose numeric preconditions are established by dominating guards. '
        'Not decided: cost of finite big-integer arithmetic and of regex backtracking (see R6 for the lexer regexes).')
    res.rule('R1', 'catch-all: no call in parse() can raise out of it')
    res.rule('R2', 'every return is {result, error}; function end unreachable')
    res.rule('R3', 'error codes: closed nine-entry table, constructions only in the error module, error = None | str(from_message(.))')
    res.rule('R4', 'error set => result None; result is never an error object')
    res.rule('R5', 'every reachable loop has a termination argument')
    res.rule('R6', 'no regular expression used by the lexer or by reachable code is exponentially ambiguous')
    res.rule('R8', 'turning an error object into its code cannot raise: a __str__ the error class defines returns text for every way an '
             'error object can have been built (no argument, a non-text argument, several arguments)')
    res.rule('R7', 'event delivery runs over a snapshot of the listener list: a listener that subscribes (itself) during delivery cannot make the evaluation run forever (shared with C20.R1)')
    res.rule('R9', 'no lock that its holder cannot take a second time (threading.Lock, a semaphore of one) is held while listeners or custom '
             'functions run: a callback that evaluates on the same parser would wait for ever (lock analysis shared with C03.R2)')
    res.assumptions += ['A1 host lists are finite; str() of a raised exception does not raise',
                        'A4 stdlib iterables other than itertools.count/cycle/repeat are finite',
                        'A6 KeyboardInterrupt/SystemExit are not "raising callbacks"']
    res.trusted += ['CPython ast', 'exception-class hierarchy of the builtins named in handlers']
    root = c.root
    m, f = cg.funcs[root]
    H.safely(res, 'R1', 'r1', _r1, model, res, c, m, f, root)
    H.safely(res, 'R2', 'r2', _r2, model, res, c, m, f, root)
    H.safely(res, 'R3', 'r3', _r3, model, res, c, m, f, root)
    H.safely(res, 'R4', 'r4', _r4, model, res, c, m, f, root)
    H.safely(res, 'R5', 'r5', _r5, model, res, c)
    H.safely(res, 'R6', 'r6', _r6, model, res, c)
    H.safely(res, 'R6', 'r6 dynamic', _r6_dynamic, model, res, c)
    H.safely(res, 'R8', 'error text', _r8, model, res, c)
    from . import c20

    def delivery(tmp):
        for em_m, em_c in c20.find_emitter(model):
            methods = dict((n.name, n) for n in em_c.body if isinstance(n, ast.FunctionDef))
            c20._r1(model, tmp, em_m, em_c, methods, c20.storage_attr(em_m, em_c, methods))
    H.borrow(res, 'R7', 'event delivery', delivery)
    from . import c03
    H.borrow(res, 'R9', 'locks', lambda tmp: c03.shared_locks(model, tmp, c, 'R9', reentry=True))


# ---------------------------------------------------------------------------------------------------
# R1

def catch_all_rule(model, tmp, c):
    """R1 as a unit (borrowed by the properties whose functions answer 'an error rather than a value' through an exception that parse()
    turns into #ERROR!): the catch-all of parse() covers every exception class."""
    root = c.root
    m, f = c.cg.funcs[root]
    _r1(model, tmp, c, m, f, root)


def _handler_covers_all(h):
    if h.type is None:
        return True
    types = h.type.elts if isinstance(h.type, ast.Tuple) else [h.type]
    return any(src(t).split('.')[-1] in CATCH_ALL for t in types)


def _noraise_call(model, c, m, f, call, depth, seen):
    """None if ``call`` cannot raise (under A1), else a reason."""
    name = sa.call_name(call)
    if name in SAFE_CALLS:
        return None
    if name and any(name.startswith(p) for p in SAFE_PREFIXES):
        return None
    if sa.is_logger_call(model, m, call):
        return None         # logger.debug(...) on a module-level logging.getLogger(...) object
    # .get on a dict (display-bound local or module-level dict)
    if isinstance(call.func, ast.Attribute) and call.func.attr == 'get':
        base = sa.resolve_local(f, call.func.value)
        if isinstance(base, ast.Dict):
            return None
        if isinstance(base, ast.Name):
            r = model.resolve(m, base.id)
            if r and r[0] == 'const' and isinstance(r[3], ast.Dict):
                return None
    r = model.resolve_attr_chain(m, call.func) if isinstance(call.func, (ast.Name, ast.Attribute)) else None
    if r and r[0] == 'func':
        key = (r[1].name, r[1].qualname_of(r[2]))
        if key in seen or depth > 4:
            return 'recursive/deep callee %s' % fmt(key)
        why = noraise_function(model, c, r[1], r[2], depth + 1, seen | set([key]))
        return None if why is None else 'callee %s may raise: %s' % (fmt(key), why)
    # a method of the same class called through self / cls / the class name (a helper that builds the record)
    if isinstance(call.func, ast.Attribute) and isinstance(call.func.value, ast.Name):
        owner = m.parent(f)
        while owner is not None and not isinstance(owner, ast.ClassDef):
            owner = m.parent(owner) if not isinstance(owner, ast.Module) else None
        if isinstance(owner, ast.ClassDef) and call.func.value.id in (sa.self_name(f), 'cls', owner.name):
            lm = model.lookup_method(m, owner, call.func.attr)
            if lm and isinstance(lm[2], ast.FunctionDef):
                key = (lm[0].name, lm[0].qualname_of(lm[2]))
                if key in seen or depth > 4:
                    return 'recursive/deep callee %s' % fmt(key)
                why = noraise_function(model, c, lm[0], lm[2], depth + 1, seen | set([key]))
                return None if why is None else 'callee %s may raise: %s' % (fmt(key), why)
    return 'call to %s, which is not known to be non-raising' % (name or src(call.func))


def noraise_function(model, c, m, f, depth=0, seen=frozenset()):
    """None if no construct in ``f`` can raise (conservative syntactic judgement), else the first reason."""
    for n in walk_no_defs(f):
        if n is f:
            continue
        why = _raising_construct(model, c, m, f, n, depth, seen)
        if why:
            if _interp_noraise(model, m, f):
                return None
            return '%s (%s)' % (why, m.where(n))
    return None


def _interp_noraise(model, m, f):
    """Second opinion for a construct the syntactic judgement cannot clear: abstractly run the function on arbitrary arguments;
    it is non-raising when every trace returns and none depends on an unmodelled construct."""
    from ..absint import Interp, Func, Sym, Unmodelled
    if not isinstance(f, ast.FunctionDef) or f.args.vararg or f.args.kwarg or sa.self_name(f) in ('self', 'cls') and m.parent(f) is not m.tree:
        return False
    key = (m.name, f.name)
    cache = model.__dict__.setdefault('_interp_noraise', {})
    if key not in cache:
        try:
            outs = Interp(model).run(lambda interp, st: interp.call(Func(m, f), [Sym(None, 'A%d' % i) for i in range(len(sa.params(f)))]))
            cache[key] = bool(outs) and all(o.kind == 'return' and not o.imprecise for o in outs)
        except (Unmodelled, AnalysisError, RecursionError):
            cache[key] = False
        except Exception:
            cache[key] = False
    return cache[key]


def _raising_construct(model, c, m, f, n, depth, seen, caught=None):
    if isinstance(n, ast.Raise):
        return 'raise statement'
    if isinstance(n, ast.Call):
        return _noraise_call(model, c, m, f, n, depth, seen)
    if isinstance(n, ast.Subscript) and isinstance(n.ctx, ast.Load):
        base = sa.resolve_local(f, n.value)
        if isinstance(base, ast.Dict) and isinstance(n.slice, ast.Constant):
            keys = [k.value for k in base.keys if isinstance(k, ast.Constant)]
            if n.slice.value in keys:
                return None
        return 'subscript %s can raise IndexError/KeyError/TypeError' % src(n)
    if isinstance(n, ast.Attribute) and isinstance(n.ctx, ast.Load):
        # module attributes, self attributes and attributes of the caught exception are fine
        root = n
        while isinstance(root, ast.Attribute):
            root = root.value
        if isinstance(root, ast.Name):
            if root.id == sa.self_name(f) or root.id == caught:
                return None
            r = model.resolve(m, root.id)
            if r and r[0] in ('module', 'extattr', 'class', 'func'):
                return None
            if isinstance(m.parent(n), ast.Call) and m.parent(n).func is n:
                return None     # judged as a call
        return 'attribute access %s can raise AttributeError' % src(n)
    if isinstance(n, ast.BinOp) and not isinstance(n.op, (ast.BitOr, ast.BitAnd)):
        if isinstance(n.left, ast.Constant) and isinstance(n.right, ast.Constant):
            return None
        return 'operator in %s can raise' % src(n)
    if isinstance(n, (ast.For, ast.While, ast.With, ast.Assert, ast.Delete, ast.Import, ast.ImportFrom, ast.Await,
                      ast.Yield, ast.YieldFrom, ast.Starred)):
        return '%s statement/expression can raise' % type(n).__name__
    if isinstance(n, ast.Compare) and any(isinstance(o, (ast.Lt, ast.LtE, ast.Gt, ast.GtE, ast.In, ast.NotIn)) for o in n.ops):
        return 'comparison %s can raise TypeError' % src(n)
    if isinstance(n, (ast.Tuple, ast.List)) and isinstance(getattr(n, 'ctx', None), ast.Store):
        return 'unpacking can raise'
    return None


def _r1(model, res, c, m, f, root):
    site = fmt(root)
    tries = [n for n in walk_no_defs(f) if isinstance(n, ast.Try)]
    guarded = set()       # ids of nodes inside the body of a catch-all try
    for t in tries:
        if any(_handler_covers_all(h) for h in t.handlers):
            for st in t.body:
                for x in ast.walk(st):
                    guarded.add(id(x))
    n_calls = 0
    for n in walk_no_defs(f):
        if n is f or isinstance(n, (ast.FunctionDef, ast.Lambda)):
            continue
        if id(n) in guarded:
            if isinstance(n, ast.Call):
                n_calls += 1
                res.ob('R1', site, 'call %s' % src(n), True, 'inside a try whose handler covers Exception')
            continue
        # unguarded code: handler bodies, else/finally, code after the try
        caught = None
        p = m.parent(n)
        while p is not None and p is not f:
            if isinstance(p, ast.ExceptHandler):
                caught = p.name
                break
            p = m.parent(p)
        why = _raising_construct(model, c, m, f, n, 0, frozenset([root]), caught)
        if isinstance(n, ast.Assert) and why and assert_always_holds(f, n):
            why = None      # an invariant of the bookkeeping, true on every path that reaches it
        if why and any(isinstance(a_, ast.Assert) and any(x is n for x in ast.walk(a_)) and assert_always_holds(f, a_)
                       for a_ in walk_no_defs(f) if isinstance(a_, ast.Assert)):
            why = None      # part of the test of such an assert
        if isinstance(n, ast.Call):
            n_calls += 1
        if isinstance(n, (ast.Call, ast.Raise, ast.Subscript, ast.BinOp, ast.For, ast.While)) or why:
            res.ob('R1', site, 'unguarded %s' % src(n)[:80], why is None, why)
        if why:
            res.violation('R1', '%s:%s:unguarded:%s' % (root[0], root[1], _norm(src(n))), m.where(n),
                          'parse() can raise instead of returning a record: %s is outside any catch-all try and %s' % (src(n)[:80], why),
                          func=root[1])
    res.floor('calls examined in parse()', n_calls, 3)
    # at least one catch-all try, and it contains the evaluation call
    has = any(any(_handler_covers_all(h) for h in t.handlers) for t in tries)
    res.ob('R1', site, 'a try with a handler covering Exception exists', has)
    if not has:
        res.violation('R1', '%s:%s:no-catch-all' % root, m.where(f),
                      'no handler in parse() covers Exception: an exception raised by a host callback, a built-in function or the '
                      'grammar propagates to the caller', func=root[1])
    # handlers narrower than Exception next to the catch-all are fine; a try with only narrow handlers around calls is reported above
    # handler paths complete without raise
    for t in tries:
        for h in t.handlers:
            for p in function_paths(h.body):
                ok = p.kind() != 'raise'
                res.ob('R1', site, 'handler %s path %s' % (src(h.type) if h.type is not None else 'bare', p.describe()), ok)
                if not ok:
                    res.violation('R1', '%s:%s:handler-raises' % root, m.where(h),
                                  'an exception handler in parse() raises (re-raises): parse does not return normally', func=root[1])


def _norm(s):
    return ''.join(ch if ch.isalnum() or ch in '._' else '_' for ch in s)[:50]


# ---------------------------------------------------------------------------------------------------
# R2

def _record_keys(model, m, f, node, depth=0):
    """Set of constant keys of the record expression, following one helper call; None if not a record."""
    node = sa.resolve_local(f, node) if isinstance(node, ast.Name) else node
    if isinstance(node, ast.Dict):
        keys = []
        for k in node.keys:
            if k is None or not isinstance(k, ast.Constant):
                return None
            keys.append(k.value)
        return keys
    if isinstance(node, ast.Call) and sa.call_name(node) == 'dict' and not node.args:
        return [k.arg for k in node.keywords]
    if isinstance(node, ast.Call) and depth < 2:
        r = model.resolve_attr_chain(m, node.func) if isinstance(node.func, (ast.Name, ast.Attribute)) else None
        target = None
        if r and r[0] == 'func':
            target = (r[1], r[2])
        elif isinstance(node.func, ast.Attribute) and isinstance(node.func.value, ast.Name) and node.func.value.id == sa.self_name(f):
            cls = m.enclosing_class(f)
            lm = model.lookup_method(m, cls, node.func.attr) if cls is not None else None
            if lm:
                target = (lm[0], lm[2])
        if target:
            allkeys = None
            for n in walk_no_defs(target[1]):
                if isinstance(n, ast.Return):
                    ks = _record_keys(model, target[0], target[1], n.value, depth + 1) if n.value is not None else None
                    if ks is None:
                        return None
                    if allkeys is not None and sorted(allkeys) != sorted(ks):
                        return None
                    allkeys = ks
            return allkeys
    return None


def _r2(model, res, c, m, f, root):
    site = fmt(root)
    rets = [n for n in walk_no_defs(f) if isinstance(n, ast.Return)]
    res.floor('return statements in parse()', len(rets), 1)
    for r in rets:
        keys = _record_keys(model, m, f, r.value) if r.value is not None else None
        ok = keys is not None and sorted(keys) == ['error', 'result']
        res.ob('R2', site, 'return %s' % (src(r.value) if r.value is not None else 'None'), ok, 'keys=%s' % (keys,))
        if not ok:
            res.violation('R2', '%s:%s:record-shape' % root, m.where(r),
                          'parse() returns something other than a record with exactly the entries result and error (keys: %s)' % (keys,),
                          case=src(r), func=root[1])
    for p in function_paths(f):
        if p.kind() == 'end':
            res.ob('R2', site, 'path reaches the end of parse() without return: %s' % p.describe(), False)
            res.violation('R2', '%s:%s:falls-off-end' % root, m.where(f),
                          'a path through parse() ends without returning a record (returns None)', case=p.describe(), func=root[1])
            break
    else:
        res.ob('R2', site, 'no path falls off the end', True)


# ---------------------------------------------------------------------------------------------------
# R3

def find_error_module(model):
    for m in model.modules.values():
        if 'XLError' in m.classes:
            return m
    raise AnalysisError('module defining XLError not found (anchor vanished)')


def error_singletons(model):
    """{module-level name: message} for XLError('<msg>') constants of the error module."""
    em = find_error_module(model)
    out = {}
    for name, node in em.constants.items():
        if isinstance(node, ast.Call):
            r = model.resolve_attr_chain(em, node.func)
            if r and r[0] == 'class' and any(bc.name == 'XLError' for _, bc in model.mro(r[1], r[2])):
                if len(node.args) == 1 and isinstance(node.args[0], ast.Constant) and isinstance(node.args[0].value, str) \
                        and not node.keywords:
                    out[name] = node.args[0].value
                else:
                    out[name] = None
    return em, out


def _r3(model, res, c, m, f, root):
    em, singles = error_singletons(model)
    res.floor('XLError singletons', len(singles), 9)
    # (a) the table
    fm = em.functions.get('from_message')
    if fm is None:
        raise AnalysisError('from_message not found in %s (anchor vanished)' % em.name)
    site = '%s:from_message' % em.name
    if _r3_table_interp(model, res, c, em, fm, site, singles):
        _r3_constructions(model, res, em, singles, m, f, root)
        return
    dicts = [n for n in walk_no_defs(fm) if isinstance(n, ast.Dict)]
    if len(dicts) != 1:
        # maybe a module-level table
        dicts = []
        for n in walk_no_defs(fm):
            if isinstance(n, ast.Name):
                r = model.resolve(em, n.id)
                if r and r[0] == 'const' and isinstance(r[3], ast.Dict):
                    dicts.append(r[3])
    if len(dicts) < 1:
        raise AnalysisError('error-code table of from_message not found')
    table = dicts[0]
    seen = {}
    for k, v in zip(table.keys, table.values):
        kv = k.value if isinstance(k, ast.Constant) else None
        name = v.id if isinstance(v, ast.Name) else (v.attr if isinstance(v, ast.Attribute) else None)
        msg = singles.get(name)
        ok = kv is not None and msg == kv and kv in NINE
        seen[kv] = ok
        res.ob('R3', site, 'table entry %r -> %s (%r)' % (kv, name, msg), ok)
        if not ok:
            res.violation('R3', '%s:table-entry:%s' % (site, kv), em.where(k),
                          'error table entry %r maps to %s whose message is %r; key, singleton message and the canonical list must agree'
                          % (kv, name, msg), func='from_message')
    missing = [x for x in NINE if x not in seen]
    extra = [x for x in seen if x not in NINE]
    res.ob('R3', site, 'table covers exactly the nine canonical codes', not missing and not extra, 'missing=%s extra=%s' % (missing, extra))
    if missing:
        res.violation('R3', '%s:table-missing' % site, em.where(table),
                      'canonical code(s) %s missing from the table: such an error is reported as #ERROR!' % missing, func='from_message')
    # default and lookup key
    gets = [n for n in walk_no_defs(fm) if isinstance(n, ast.Call) and isinstance(n.func, ast.Attribute) and n.func.attr == 'get']
    rets = [n for n in walk_no_defs(fm) if isinstance(n, ast.Return)]
    okd = False
    for g in gets:
        if len(g.args) == 2:
            d = g.args[1]
            name = d.id if isinstance(d, ast.Name) else (d.attr if isinstance(d, ast.Attribute) else None)
            keyarg = g.args[0]
            key_ok = isinstance(keyarg, ast.Call) and sa.call_name(keyarg) == 'str' and len(keyarg.args) == 1 and \
                isinstance(keyarg.args[0], ast.Name) and keyarg.args[0].id in sa.params(fm)
            okd = singles.get(name) == '#ERROR!' and key_ok
            res.ob('R3', site, 'lookup %s' % src(g), okd, 'default=%s key=%s' % (name, src(keyarg)))
    if not okd:
        res.violation('R3', '%s:default' % site, em.where(fm),
                      'from_message must look up str(<its argument>) and default to the #ERROR! singleton for everything else',
                      func='from_message')
    for r in rets:
        ok = r.value is not None and any(r.value is g or any(x is g for x in ast.walk(r.value)) for g in gets) and \
            (isinstance(r.value, ast.Call) and r.value in gets)
        res.ob('R3', site, 'return %s' % src(r), ok)
        if not ok:
            res.violation('R3', '%s:return' % site, em.where(r),
                          'from_message returns something other than the table lookup (%s): a non-canonical value can reach the '
                          'error field' % src(r), func='from_message')
    why = noraise_function(model, c, em, fm, 0, frozenset())
    res.ob('R3', site, 'from_message cannot raise', why is None, why)
    if why:
        res.violation('R3', '%s:may-raise' % site, em.where(fm),
                      'from_message is called inside parse()\'s exception handler and can itself raise: %s' % why, func='from_message')
    _r3_constructions(model, res, em, singles, m, f, root)


def _r3_table_interp(model, res, c, em, fm, site, singles):
    """from_message decided on its own code: it is run on an arbitrary argument; the traces enumerate the table (one per key the
    lookup can hit, plus the default).  Returns False when the function is not in a shape the interpreter follows precisely."""
    from ..absint import Interp, Func, Sym, Err, Unmodelled, Atom, Const
    try:
        outs = Interp(model).run(lambda interp, st: interp.call(Func(em, fm), [Sym(None, 'X')]))
    except Unmodelled:
        return False
    except AnalysisError:
        return False
    if not outs or any(o.imprecise for o in outs):
        return False
    hits = {}
    default = []
    for o in outs:
        key = None
        eq_seen = False
        for (t, alt, subj) in o.notes:
            if ' hits' in t:
                key = alt
            elif t.endswith(' is key') and isinstance(subj, tuple) and subj and subj[0] == 'dict-key' and 'X' in repr(subj[1]):
                # `text in table` / `table[text]`: one decision per key, or none of them
                key = alt if alt != '<missing>' else '<default>'
            elif isinstance(subj, Atom) and subj.op == 'eq' and len(subj.args) == 2:
                # a search that compares the known codes one by one with str(argument)
                cs = [a for a in subj.args if isinstance(a, Const) and isinstance(a.value, str)]
                other = [a for a in subj.args if not isinstance(a, Const)]
                if len(cs) == 1 and len(other) == 1 and 'X' in repr(other[0]):
                    eq_seen = True
                    if alt is True:
                        key = repr(cs[0].value)
        if key is None and eq_seen:
            key = '<default>'
        if o.kind != 'return':
            res.ob('R3', site, 'trace %s' % key, False, 'raises %r' % (o.value,))
            res.violation('R3', '%s:may-raise' % site, em.where(fm),
                          'from_message is called inside parse()\'s exception handler and can itself raise: %r' % (o.value,), func='from_message')
            continue
        if key is None:
            # a trace that never consulted the table
            if isinstance(o.value, Err) and o.value.message in NINE:
                res.ob('R3', site, 'trace %s' % [t for (t, a_, s_) in o.notes], True, 'returns the singleton %r' % (o.value,))
                continue
            conds = ' & '.join('%s=%s' % (t, a_) for (t, a_, s_) in o.notes)
            res.ob('R3', site, 'trace %s' % conds, False, 'returns %r' % (o.value,))
            res.violation('R3', '%s:not-canonical' % site, em.where(fm),
                          'from_message returns %r without consulting the table (when %s): a value that is not one of the nine canonical '
                          'singletons - e.g. an XLError built by a host callback - reaches the error field with its own message'
                          % (o.value, conds or 'always'), func='from_message')
            continue
        if key == '<default>':
            default.append(o.value)
        else:
            try:
                kv = ast.literal_eval(key)
            except Exception:
                return False
            hits.setdefault(kv, []).append(o.value)
    for kv, vals in sorted(hits.items(), key=lambda x: str(x[0])):
        v = vals[0]
        msg = v.message if isinstance(v, Err) else None
        ok = len(vals) == 1 and isinstance(v, Err) and msg == kv and kv in NINE
        res.ob('R3', site, 'table entry %r -> %r' % (kv, v), ok)
        if not ok:
            res.violation('R3', '%s:table-entry:%s' % (site, kv), em.where(fm),
                          'error table entry %r maps to %r whose message is %r; key, singleton message and the canonical list must agree'
                          % (kv, v, msg), func='from_message')
    missing = [x for x in NINE if x not in hits]
    res.ob('R3', site, 'table covers exactly the nine canonical codes', not missing, 'missing=%s' % missing)
    if missing:
        res.violation('R3', '%s:table-missing' % site, em.where(fm),
                      'canonical code(s) %s missing from the table: such an error is reported as #ERROR!' % missing, func='from_message')
    okd = bool(default) and all(isinstance(v, Err) and v.message == '#ERROR!' for v in default)
    res.ob('R3', site, 'anything else maps to the #ERROR! singleton', okd, repr(default))
    if not okd:
        res.violation('R3', '%s:default' % site, em.where(fm),
                      'from_message must look up str(<its argument>) and default to the #ERROR! singleton for everything else (default: %r)' % (default,),
                      func='from_message')
    # the lookup key is str(argument): with a key that is not a str (the raw exception object) nothing ever hits
    keyed = False
    for n in walk_no_defs(fm):
        if isinstance(n, ast.Call) and sa.call_name(n) == 'str' and len(n.args) == 1 and isinstance(n.args[0], ast.Name) and n.args[0].id in sa.params(fm):
            keyed = True
    res.ob('R3', site, 'lookup key is str(<argument>)', keyed)
    if not keyed:
        res.violation('R3', '%s:default' % site, em.where(fm),
                      'from_message must look up str(<its argument>) and default to the #ERROR! singleton for everything else', func='from_message')
    why = noraise_function(model, c, em, fm, 0, frozenset())
    res.ob('R3', site, 'from_message cannot raise', why is None, why)
    if why:
        res.violation('R3', '%s:may-raise' % site, em.where(fm),
                      'from_message is called inside parse()\'s exception handler and can itself raise: %s' % why, func='from_message')
    return True


def _r3_constructions(model, res, em, singles, m, f, root):
    # (b) who may construct
    n_ctor = 0
    for mm in model.modules.values():
        for n in ast.walk(mm.tree):
            if isinstance(n, ast.Call):
                r = model.resolve_attr_chain(mm, n.func) if isinstance(n.func, (ast.Name, ast.Attribute)) else None
                if r and r[0] == 'class' and any(bc.name == 'XLError' for _, bc in model.mro(r[1], r[2])):
                    n_ctor += 1
                    par = mm.parent(n)
                    ok = mm is em and isinstance(par, ast.Assign) and mm.parent(par) is mm.tree and \
                        len(n.args) == 1 and isinstance(n.args[0], ast.Constant) and n.args[0].value in NINE
                    res.ob('R3', '%s:%s' % (mm.name, mm.qualname_of(n)), 'construction %s' % src(n), ok)
                    if not ok:
                        res.violation('R3', '%s:%s:xlerror-constructed' % (mm.name, mm.qualname_of(n)), mm.where(n),
                                      'an XLError is constructed outside the closed set of module-level singletons (%s): error values are '
                                      'recognised by identity and reported by message, both break for such an object' % src(n),
                                      func=mm.qualname_of(n))
    res.floor('XLError constructions', n_ctor, 9)
    dup = [msg for msg in set(singles.values()) if list(singles.values()).count(msg) > 1]
    res.ob('R3', em.name, 'one singleton per message', not dup, dup)
    if dup:
        res.violation('R3', '%s:duplicate-singleton' % em.name, em.where(em.tree), 'two singletons share the message %s' % dup)
    # (c) error value forms in parse()
    fm_names = ('from_message',)
    rets = [n for n in walk_no_defs(f) if isinstance(n, ast.Return)]
    err_vars = set()
    for r in rets:
        v = sa.resolve_local(f, r.value) if isinstance(r.value, ast.Name) else r.value
        if isinstance(v, ast.Dict):
            for k, val in zip(v.keys, v.values):
                if isinstance(k, ast.Constant) and k.value == 'error':
                    if isinstance(val, ast.Name):
                        err_vars.add(val.id)
                    else:
                        _check_error_form(model, res, m, f, root, val, r)
    for name in sorted(err_vars):
        for stmt, val in sa.assignments_to(f, name):
            _check_error_form(model, res, m, f, root, val, stmt)


def _check_error_form(model, res, m, f, root, val, stmt):
    ok = False
    if val is None:
        ok = False
    elif isinstance(val, ast.Constant) and val.value is None:
        ok = True
    elif isinstance(val, ast.Constant) and val.value in NINE:
        ok = True
    elif isinstance(val, ast.Call) and sa.call_name(val) == 'str' and len(val.args) == 1:
        inner = val.args[0]
        if isinstance(inner, ast.Name):
            inner = sa.resolve_local(f, inner)      # x = from_message(e); error = str(x)
        if isinstance(inner, ast.Call) and (sa.call_name(inner) or '').split('.')[-1] == 'from_message':
            ok = True
        else:
            # str(<singleton name>)
            r = model.resolve_attr_chain(m, inner) if isinstance(inner, (ast.Name, ast.Attribute)) else None
            if r and r[0] == 'const' and isinstance(r[3], ast.Call):
                ok = True
    elif isinstance(val, ast.Call) and isinstance(val.func, (ast.Name, ast.Attribute)):
        # a package helper every return of which is str(from_message(<its parameter>))
        r = model.resolve_attr_chain(m, val.func)
        if r and r[0] == 'func':
            hm, hf = r[1], r[2]
            rets = [x for x in walk_no_defs(hf) if isinstance(x, ast.Return)]
            good = bool(rets)
            for x in rets:
                v = x.value
                good = good and isinstance(v, ast.Call) and sa.call_name(v) == 'str' and len(v.args) == 1 and isinstance(v.args[0], ast.Call) \
                    and (sa.call_name(v.args[0]) or '').split('.')[-1] == 'from_message' and len(v.args[0].args) == 1 \
                    and isinstance(v.args[0].args[0], ast.Name) and v.args[0].args[0].id in sa.params(hf)
            ok = good
    res.ob('R3', fmt(root), 'error := %s' % (src(val) if val is not None else '?'), ok)
    if not ok:
        res.violation('R3', '%s:%s:error-not-canonical:%s' % (root[0], root[1], _norm(src(val) if val is not None else 'x')), m.where(stmt),
                      'the error entry is set to %s, which is not None nor str(from_message(...)): a message outside the nine canonical '
                      'codes (e.g. from an XLError built by a host callback) would be reported verbatim' % (src(val) if val is not None else '?'),
                      func=root[1])


# ---------------------------------------------------------------------------------------------------
# R4 - path-sensitive coupling of result and error

NONE, NOTERR, ERR, TOP, SET = 'none', 'not-an-error', 'error-object', 'unknown', 'set'


def _env_along(items, stop=None):
    """Abstract values of the local names after the path items (up to, not including, statement ``stop``); None = infeasible path."""
    env = {}
    for it in items:
        if stop is not None and it[0] == 'stmt' and it[1] is stop:
            return env
        env = _env_step(env, it)
        if env is None:
            return None
    return env if stop is None else False       # False: the path does not run through ``stop``


def _env_step(env, it):
    if True:
        if True:
            if it[0] == 'stmt' and isinstance(it[1], ast.Assign):
                st = it[1]
                for t in st.targets:
                    if isinstance(t, ast.Name):
                        env[t.id] = _abs_value(st.value, env)
            elif it[0] == 'cond':
                for a, truth in atoms(it[1], it[2]):
                    if isinstance(a, ast.Call) and sa.call_name(a) == 'isinstance' and len(a.args) == 2 and \
                            isinstance(a.args[0], ast.Name) and 'XLError' in src(a.args[1]):
                        cur = env.get(a.args[0].id)
                        if (truth and cur in (NONE, NOTERR, SET)) or (not truth and cur == ERR):
                            return None         # the test cannot come out this way on this path
                        env[a.args[0].id] = ERR if truth else (NOTERR if cur in (TOP, None, NOTERR) else cur)
                    if isinstance(a, ast.Compare) and len(a.ops) == 1 and isinstance(a.ops[0], (ast.Is, ast.IsNot)) and \
                            isinstance(a.left, ast.Name) and isinstance(a.comparators[0], ast.Constant) and a.comparators[0].value is None:
                        is_none = isinstance(a.ops[0], ast.Is) == truth
                        if is_none:
                            env[a.left.id] = NONE
                        elif env.get(a.left.id) == NONE:
                            return None
    return env


def _test3(t, env):
    """True / False / None (unknown) of a test built from ``is None``, ``isinstance(x, str)``, and / or / not over local names."""
    if isinstance(t, ast.BoolOp):
        vals = [_test3(v, env) for v in t.values]
        if isinstance(t.op, ast.Or):
            return True if any(v is True for v in vals) else (False if all(v is False for v in vals) else None)
        return False if any(v is False for v in vals) else (True if all(v is True for v in vals) else None)
    if isinstance(t, ast.UnaryOp) and isinstance(t.op, ast.Not):
        v = _test3(t.operand, env)
        return None if v is None else (not v)
    if isinstance(t, ast.Compare) and len(t.ops) == 1 and isinstance(t.ops[0], (ast.Is, ast.IsNot)) and isinstance(t.left, ast.Name) and \
            isinstance(t.comparators[0], ast.Constant) and t.comparators[0].value is None:
        a = env.get(t.left.id, TOP)
        v = True if a == NONE else (False if a in (NOTERR, ERR, SET) else None)
        return v if (v is None or isinstance(t.ops[0], ast.Is)) else (not v)
    if isinstance(t, ast.Call) and sa.call_name(t) == 'isinstance' and len(t.args) == 2 and isinstance(t.args[0], ast.Name):
        a = env.get(t.args[0].id, TOP)
        what = src(t.args[1])
        if what in ('str', 'string_types') and a == SET:
            return True
        if a == NONE:
            return False
        if 'XLError' in what and a in (ERR, NOTERR):
            return a == ERR
    return None


def assert_always_holds(f, node):
    """An ``assert`` of parse() whose test is true on every path that reaches it (decided on the abstract values the result / error
    bookkeeping of the path has established): evaluating it neither raises nor fails."""
    if not all(isinstance(x, (ast.BoolOp, ast.UnaryOp, ast.Compare, ast.Call, ast.Name, ast.Constant, ast.Is, ast.IsNot, ast.Or, ast.And, ast.Not,
                              ast.Load, ast.Attribute)) for x in ast.walk(node.test)):
        return False
    seen = False
    try:
        paths = function_paths(f)
    except Exception:
        return False
    for p in paths:
        env = _env_along(p.items, stop=node)
        if env is False or env is None:
            continue
        seen = True
        if _test3(node.test, env) is not True:
            return False
    return seen


def _r4(model, res, c, m, f, root):
    site = fmt(root)
    n = 0
    for p in function_paths(f):
        if p.kind() != 'return':
            continue
        env = {}
        for it in p.items:
            if it[0] == 'stmt' and isinstance(it[1], ast.Assign):
                st = it[1]
                for t in st.targets:
                    if isinstance(t, ast.Name):
                        env[t.id] = _abs_value(st.value, env)
            elif it[0] == 'exc':
                pass        # control left the statement before its assignment completed: env unchanged
            elif it[0] == 'cond':
                for a, truth in atoms(it[1], it[2]):
                    if isinstance(a, ast.Call) and sa.call_name(a) == 'isinstance' and len(a.args) == 2 and \
                            isinstance(a.args[0], ast.Name) and 'XLError' in src(a.args[1]):
                        env[a.args[0].id] = ERR if truth else (NOTERR if env.get(a.args[0].id) in (TOP, None, NOTERR) else env.get(a.args[0].id))
                    if isinstance(a, ast.Compare) and len(a.ops) == 1 and isinstance(a.ops[0], (ast.Is, ast.IsNot)) and \
                            isinstance(a.left, ast.Name) and isinstance(a.comparators[0], ast.Constant) and a.comparators[0].value is None:
                        is_none = isinstance(a.ops[0], ast.Is) == truth
                        if is_none:
                            env[a.left.id] = NONE
                        elif env.get(a.left.id) == NONE:
                            env = None
                            break
            if env is None:
                break
        if env is None:
            continue            # infeasible path
        ret = p.terminal[1]
        rec = sa.resolve_local(f, ret.value) if isinstance(ret.value, ast.Name) else ret.value
        if isinstance(rec, ast.Call):
            # the record built by a helper (self._failure(e)): its single dict-literal return, read with the helper's parameters bound to
            # what the call site hands over
            helper = _record_helper(model, m, f, rec)
            if helper is not None:
                hf, hrec = helper
                hps = [a.arg for a in hf.args.args]
                if hps and hps[0] in ('self', 'cls') and isinstance(rec.func, ast.Attribute) and not any(
                        src(d_) == 'staticmethod' for d_ in hf.decorator_list):
                    hps = hps[1:]
                elif hps and hps[0] in ('self', 'cls') and any(src(d_) == 'classmethod' for d_ in hf.decorator_list):
                    hps = hps[1:]
                henv = dict((pn, _abs_value(a, env)) for pn, a in zip(hps, rec.args))
                env, rec = henv, hrec
        if not isinstance(rec, ast.Dict):
            continue
        vals = {}
        for k, v in zip(rec.keys, rec.values):
            if isinstance(k, ast.Constant):
                vals[k.value] = _abs_value(v, env)
        r, e = vals.get('result', TOP), vals.get('error', TOP)
        n += 1
        ok1 = not (e != NONE and r != NONE)
        ok2 = r in (NONE, NOTERR)
        res.ob('R4', site, {'path': p.describe(), 'result': r, 'error': e}, ok1 and ok2)
        if not ok1:
            res.violation('R4', '%s:%s:error-with-result' % root, m.where(ret),
                          'on a path through parse() the error entry may be set while the result is not empty (result=%s, error=%s)' % (r, e),
                          case=p.describe(), func=root[1])
        if not ok2:
            res.violation('R4', '%s:%s:result-may-be-error-object' % root, m.where(ret),
                          'on a path through parse() the result entry may itself be an error object (result=%s): an error value '
                          'returned by the evaluation is not converted into the error entry' % r, case=p.describe(), func=root[1])
    res.floor('return paths of parse() examined', n, 4)


def _record_helper(model, m, f, call):
    """(FunctionDef, Dict node) when ``call`` is a call of a function / same-class method whose only return is a dict literal."""
    target = None
    if isinstance(call.func, ast.Attribute) and isinstance(call.func.value, ast.Name):
        owner = m.parent(f)
        while owner is not None and not isinstance(owner, ast.ClassDef):
            owner = m.parent(owner) if not isinstance(owner, ast.Module) else None
        if isinstance(owner, ast.ClassDef) and call.func.value.id in (sa.self_name(f), 'cls', owner.name):
            lm = model.lookup_method(m, owner, call.func.attr)
            if lm and isinstance(lm[2], ast.FunctionDef):
                target = lm[2]
    if target is None and isinstance(call.func, (ast.Name, ast.Attribute)):
        r = model.resolve_attr_chain(m, call.func)
        if r and r[0] == 'func' and isinstance(r[2], ast.FunctionDef):
            target = r[2]
    if target is None:
        return None
    rets = [n for n in walk_no_defs(target) if isinstance(n, ast.Return)]
    if len(rets) == 1 and isinstance(rets[0].value, ast.Dict):
        return target, rets[0].value
    return None


def _abs_value(v, env):
    if isinstance(v, ast.Constant):
        return NONE if v.value is None else NOTERR
    if isinstance(v, ast.Name):
        return env.get(v.id, TOP)
    if isinstance(v, ast.Call) and sa.call_name(v) == 'str':
        return SET
    if isinstance(v, (ast.JoinedStr, ast.List, ast.Tuple, ast.Dict)):
        return NOTERR
    return TOP


# ---------------------------------------------------------------------------------------------------
# R5 - loops

def _r5(model, res, c):
    cg = c.cg
    n_loops = 0
    n_while = 0
    for k in sorted(c.reach):
        m, f = cg.funcs[k]
        consts = guards.module_consts(m, model)
        for n in walk_no_defs(f):
            if isinstance(n, ast.While):
                n_while += 1
                n_loops += 1
                verdict, why = while_verdict(model, m, f, n, consts)
                res.ob('R5', fmt(k), 'while %s' % src(n.test), verdict is not False, why)
                if verdict is False:
                    res.violation('R5', '%s:%s:while:%s' % (k[0], k[1], _norm(src(n.test))), m.where(n),
                                  'loop "while %s" has no termination argument: %s' % (src(n.test), why), func=k[1])
                elif verdict is None:
                    res.notes.append('C01.R5: %s while %s: %s' % (fmt(k), src(n.test), why))
            elif isinstance(n, (ast.For, ast.comprehension)):
                n_loops += 1
                it = n.iter
                bad = _infinite_iterable(model, m, f, it)
                res.ob('R5', fmt(k), 'for ... in %s' % src(it)[:60], bad is None, bad)
                if bad:
                    res.violation('R5', '%s:%s:for:%s' % (k[0], k[1], _norm(src(it))), m.where(it),
                                  'iteration over an unbounded producer (%s) without a bound' % bad, func=k[1])
    res.floor('loops and comprehensions in reachable code', n_loops, 40)
    res.floor('while loops in reachable code', n_while, 2)
    # recursion: a cycle in the call graph needs a variant too; today the only cycles go through the grammar/registry
    # (bounded by the finite input) and the comparator's swap (None on the left -> non-None on the left)
    res.analysed['while loops'] = n_while


def _infinite_iterable(model, m, f, it):
    it = sa.resolve_local(f, it) if isinstance(it, ast.Name) else it
    for n in ast.walk(it):
        if isinstance(n, ast.Call):
            name = sa.call_name(n) or ''
            r = model.resolve_attr_chain(m, n.func) if isinstance(n.func, (ast.Name, ast.Attribute)) else None
            full = (r[1] + '.' + r[2]) if (r and r[0] == 'extattr') else name
            if full in INFINITE_PRODUCERS:
                if full.endswith('repeat') and len(n.args) + len(n.keywords) >= 2:
                    continue
                # bounded by islice / zip with a finite partner?
                par = m.parent(n)
                if isinstance(par, ast.Call) and (sa.call_name(par) or '').split('.')[-1] in ('islice', 'zip', 'takewhile'):
                    continue
                return full
            if name == 'iter' and len(n.args) == 2:
                return 'iter(callable, sentinel)'
    return None


def while_verdict(model, m, f, w, consts):
    """True = terminates by a recognised idiom; False = recognised update but missing precondition (refuted);
    None = shape not recognised (undecided)."""
    test = w.test
    # W1: while True + next() under except StopIteration: return/break
    if isinstance(test, ast.Constant) and test.value in (True, 1):
        drains = False
        for t in [x for x in walk_no_defs(w) if isinstance(x, ast.Try)]:
            calls_next = any(isinstance(x, ast.Call) and sa.call_name(x) == 'next' for st in t.body for x in ast.walk(st))
            stops = any(h.type is not None and 'StopIteration' in src(h.type) and guards.always_exits(h.body, loop_ok=False)
                        or (h.type is not None and 'StopIteration' in src(h.type) and any(isinstance(x, ast.Break) for x in h.body))
                        for h in t.handlers)
            if calls_next and stops and t in w.body:
                drains = True
        if drains:
            return True, 'W1 iterator drain: every iteration advances a finite iterator (A1/A4) and StopIteration leaves the loop'
        # unconditional exits?
        exits = [x for x in walk_no_defs(w) if isinstance(x, (ast.Break, ast.Return, ast.Raise))]
        if not exits:
            return False, 'while True without any exit'
        return None, 'while True with exits but no recognised variant'
    # W3: a stack of open iterators (depth-first walk of nested finite lists):  while stack: try: x = next(stack[-1])
    #     except StopIteration: stack.pop(); continue ... stack.append(iter(x))
    if isinstance(test, ast.Name):
        S = test.id
        pops_on_stop = False
        for t in [x for x in walk_no_defs(w) if isinstance(x, ast.Try) and x in w.body]:
            nexts = [x for st in t.body for x in ast.walk(st) if isinstance(x, ast.Call) and sa.call_name(x) == 'next' and x.args and
                     isinstance(x.args[0], ast.Subscript) and isinstance(x.args[0].value, ast.Name) and x.args[0].value.id == S]
            for h in t.handlers:
                if h.type is not None and 'StopIteration' in src(h.type) and nexts and \
                        any(isinstance(x, ast.Call) and isinstance(x.func, ast.Attribute) and x.func.attr == 'pop' and
                            isinstance(x.func.value, ast.Name) and x.func.value.id == S for st in h.body for x in ast.walk(st)):
                    pops_on_stop = True
        if pops_on_stop:
            # what else touches the stack: only pushes of iter(<something>) - an iterator over one more finite list
            other = []
            for x in walk_no_defs(w):
                if isinstance(x, ast.Call) and isinstance(x.func, ast.Attribute) and isinstance(x.func.value, ast.Name) and x.func.value.id == S:
                    if x.func.attr == 'pop':
                        continue
                    if x.func.attr == 'append' and len(x.args) == 1 and isinstance(x.args[0], ast.Call) and sa.call_name(x.args[0]) == 'iter':
                        continue
                    other.append(src(x)[:40])
                if isinstance(x, ast.Name) and x.id == S and isinstance(x.ctx, ast.Store):
                    other.append('rebinding of %s' % S)
            if not other:
                return True, ('W3 stack of open iterators: every iteration either advances the finite iterator on top (A1/A4) or drops an '
                              'exhausted one, and only iterators over items just taken are pushed (finite nesting)')
            return None, 'a stack of iterators that is also edited by %s' % ', '.join(other)
    # W2: monotone counter
    var, kind, bound = _loop_var(test, consts)
    if var is None:
        return None, 'loop condition shape not recognised'
    # the variable's updates inside the body
    updates = []
    for n in walk_no_defs(w):
        if isinstance(n, ast.AugAssign) and isinstance(n.target, ast.Name) and n.target.id == var:
            updates.append(n)
        elif isinstance(n, ast.Assign) and any(isinstance(t, ast.Name) and t.id == var for t in n.targets):
            updates.append(n)
    # any other binding of the variable in the body (tuple unpacking  a, b = b, a % b ; a walrus ; a for target) is an update too,
    # only not one of the recognised strictly monotone forms
    other_bindings = [n for n in walk_no_defs(w) if (isinstance(n, ast.Name) and n.id == var and isinstance(n.ctx, ast.Store))
                      and not any(n in getattr(u, 'targets', [getattr(u, 'target', None)]) for u in updates)]
    if not updates and other_bindings:
        return None, 'the loop variable %s is rebound in the body in a form that is not a recognised monotone update' % var
    if not updates:
        return False, 'the loop variable %s is never updated in the body' % var
    # every complete path through the body performs a strict update
    strict_ids = {}
    facts_outer = guards.facts_at(m, f, w) + _caller_facts(model, m, f)
    iv = guards.interval_of(facts_outer, var, consts)
    problems = []
    for u in updates:
        ok, why = _strict_update(m, f, w, u, var, kind, bound, iv, facts_outer, consts)
        if ok is True:
            strict_ids[id(u)] = why
        elif ok is False:
            problems.append(why)
    if problems:
        return False, '; '.join(problems)
    if not strict_ids:
        return None, 'update of %s not in a recognised strictly monotone form' % var
    undecided_path = None
    for p in function_paths(list(w.body)):
        if p.kind() in ('return', 'raise', 'break'):
            continue
        if not any(id(st) in strict_ids for st in p.stmts()):
            # the path may still change the variable in a way that is not a recognised strict update (i += len(d)): undecided then
            touched = any(isinstance(x, ast.Name) and x.id == var and isinstance(x.ctx, ast.Store) for st in p.stmts() for x in ast.walk(st))
            if touched:
                undecided_path = p
                continue
            return False, 'a path through the loop body (%s) does not update %s' % (p.describe(), var)
    if undecided_path is not None:
        return None, 'on the path %s the variable %s changes by an amount the rule cannot bound away from zero' % (undecided_path.describe(), var)
    return True, 'W2 monotone counter: ' + '; '.join(sorted(set(strict_ids.values())))


def _caller_facts(model, m, f):
    """Preconditions a private helper inherits from its call sites: when every call of ``f`` in the package passes plain names,
    the comparison facts that dominate *each* call, restated on the parameters (only facts all call sites agree on)."""
    from .. import ctx as ctxmod
    if not isinstance(f, ast.FunctionDef) or m.parent(f) is not m.tree or f.args.vararg or f.args.kwarg:
        return []
    if any('register_for' in src(d) for d in f.decorator_list):
        return []
    try:
        cg = ctxmod.get(model).cg
    except Exception:
        return []
    key = (m.name, f.name)
    ps = sa.params(f)
    per_site = []
    for ck, (cm, cf) in cg.funcs.items():
        for n in walk_no_defs(cf):
            if isinstance(n, ast.Call) and key in cg.sites.get((ck, id(n)), set()):
                if n.keywords or len(n.args) > len(ps) or not all(isinstance(a, ast.Name) for a in n.args):
                    return []
                ren = dict((a.id, ps[i]) for i, a in enumerate(n.args))
                facts = []
                for atom, truth in guards.facts_at(cm, cf, n):
                    names = set(x.id for x in ast.walk(atom) if isinstance(x, ast.Name))
                    cconsts = guards.module_consts(cm, model)
                    free = [nm for nm in names if nm not in ren and nm not in cconsts]
                    if not names & set(ren) or free:
                        continue
                    import copy as _copy
                    a2 = _copy.deepcopy(atom)
                    for x in ast.walk(a2):
                        if isinstance(x, ast.Name) and x.id in ren:
                            x.id = ren[x.id]
                    facts.append((a2, truth))
                per_site.append(facts)
    if not per_site:
        return []
    common = per_site[0]
    for other in per_site[1:]:
        keys = set((src(a), t) for a, t in other)
        common = [(a, t) for a, t in common if (src(a), t) in keys]
    return common


def _loop_var(test, consts):
    """(var, kind, bound): kind in 'truthy' | 'gt' | 'ge' | 'lt' | 'le' | 'ne'."""
    if isinstance(test, ast.Name):
        return test.id, 'truthy', 0
    if isinstance(test, ast.Compare) and len(test.ops) == 1:
        l, r, op = test.left, test.comparators[0], test.ops[0]
        kinds = {ast.Gt: 'gt', ast.GtE: 'ge', ast.Lt: 'lt', ast.LtE: 'le', ast.NotEq: 'ne'}
        flip = {'gt': 'lt', 'ge': 'le', 'lt': 'gt', 'le': 'ge', 'ne': 'ne'}
        k = kinds.get(type(op))
        if k is None:
            return None, None, None
        if isinstance(l, ast.Name):
            b = guards.const_number(r, consts)
            return l.id, k, (b if b is not None else r)
        if isinstance(r, ast.Name):
            b = guards.const_number(l, consts)
            return r.id, flip[k], (b if b is not None else l)
    return None, None, None


def _strip_int(node):
    """math.floor(x) / int(x) / x  ->  x"""
    while isinstance(node, ast.Call) and (sa.call_name(node) in ('math.floor', 'int', 'floor')) and len(node.args) == 1:
        node = node.args[0]
    return node


def _strict_update(m, f, w, u, var, kind, bound, iv, facts, consts):
    """Is ``u`` a strictly monotone update of ``var`` towards leaving the loop?
    (True, why) | (False, missing precondition) | (None, '')"""
    if isinstance(u, ast.AugAssign):
        op, rhs = u.op, u.value
        lhs_is_var = True
    else:
        v = u.value
        # var = var <op> rhs   /   var = floor(var // K) - c
        if isinstance(v, ast.BinOp) and isinstance(v.op, ast.Sub):
            inner = _strip_int(v.left)
            c = guards.const_number(v.right, consts)
            if isinstance(inner, ast.BinOp) and isinstance(inner.op, ast.FloorDiv) and isinstance(_strip_int(inner.left), ast.Name) \
                    and _strip_int(inner.left).id == var and c is not None:
                K = guards.const_number(inner.right, consts)
                if K is None:
                    return None, ''
                need = 1 if kind in ('ge',) else 0
                if K >= 2 and c >= need and kind in ('ge', 'gt', 'truthy') and (kind != 'truthy'):
                    return True, '%s = %s//%s - %s strictly decreases while %s %s %s' % (var, var, K, c, var, kind, bound)
                if K >= 1 and c >= 1 and kind in ('ge', 'gt'):
                    return True, '%s//%s - %s < %s for %s >= 0' % (var, K, c, var, var)
                return False, 'update %s does not strictly decrease %s under the loop condition (K=%s, c=%s)' % (src(u), var, K, c)
        if isinstance(v, ast.BinOp) and isinstance(_strip_int(v.left), ast.Name) and _strip_int(v.left).id == var:
            op, rhs = v.op, v.right
        else:
            # normalisation such as  column = int(column)  is not an update
            if isinstance(_strip_int(v), ast.Name) and _strip_int(v).id == var:
                return None, ''
            return None, ''
    if isinstance(op, ast.FloorDiv) or isinstance(op, ast.Div) and False:
        # v //= b  terminates (reaches 0) iff v >= 0 and b >= 2
        b_text = src(rhs)
        biv = guards.interval_of(facts, b_text, consts)
        bc = guards.const_number(rhs, consts)
        b_ok = (bc is not None and bc >= 2) or biv.ge(2)
        # under  while v > c (c >= 0)  /  while v >= c (c >= 1)  the loop condition itself keeps v positive in the body
        from fractions import Fraction
        cond_pos = isinstance(bound, (int, float, Fraction)) and ((kind == 'gt' and bound >= 0) or (kind == 'ge' and bound >= 1))
        v_ok = iv.ge(0) or cond_pos
        if kind not in ('truthy', 'gt', 'ne', 'ge'):
            return None, ''
        if b_ok and v_ok:
            return True, '%s //= %s with %s >= 0 and %s >= 2 reaches 0' % (var, b_text, var, b_text)
        missing = []
        if not v_ok:
            missing.append('%s >= 0 is not established before the loop (a negative %s floor-divides towards -1 and never becomes 0)' % (var, var))
        if not b_ok:
            missing.append('%s >= 2 is not established (with %s = 1 the value never changes)' % (b_text, b_text))
        return False, '; '.join(missing)
    if isinstance(op, ast.Sub):
        kc = guards.const_number(rhs, consts)
        if kc is not None and kc > 0 and kind in ('gt', 'ge'):
            return True, '%s -= %s with lower bound' % (var, kc)
        if kc is not None and kc > 0 and kind in ('truthy', 'ne'):
            return False, '%s -= %s under "while %s": an inexact multiple skips 0' % (var, kc, var) if kc != 1 else (None, '')
        return None, ''
    if isinstance(op, ast.Add):
        kc = guards.const_number(rhs, consts)
        if kc is not None and kc > 0 and kind in ('lt', 'le'):
            # the bound must not change in the loop
            if isinstance(bound, ast.AST):
                names = set(x.id for x in ast.walk(bound) if isinstance(x, ast.Name))
                if names & guards.assigned_names(w):
                    return None, ''
            return True, '%s += %s with upper bound' % (var, kc)
        return None, ''
    return None, ''


# ---------------------------------------------------------------------------------------------------
# R6 - regular expressions: no exponential backtracking

RE_FUNCS = ('re.compile', 're.match', 're.search', 're.sub', 're.subn', 're.finditer', 're.findall', 're.fullmatch', 're.split')


def package_regexes(model, c):
    """(where-key, Module, node, pattern) for every regex literal: lexer token rules and re.* calls."""
    out = []
    g = c.grammar
    for t in g.lex_tokens:
        out.append(('lexer:t_%s' % t.name, g.lexer_module, t.node, t.regex))
    for m in model.modules.values():
        for n in ast.walk(m.tree):
            if isinstance(n, ast.Call) and n.args:
                r = model.resolve_attr_chain(m, n.func) if isinstance(n.func, (ast.Name, ast.Attribute)) else None
                full = (r[1] + '.' + r[2]) if (r and r[0] == 'extattr') else None
                if full in RE_FUNCS:
                    a = n.args[0]
                    if isinstance(a, ast.Name):
                        fdef = m.enclosing_function(n)
                        a2 = sa.resolve_local(fdef, a) if fdef is not None else a
                        if isinstance(a2, ast.Name):
                            rr = model.resolve(m, a2.id)
                            a2 = rr[3] if (rr and rr[0] == 'const') else a2
                        a = a2
                    if isinstance(a, ast.Constant) and isinstance(a.value, str):
                        out.append(('%s:%s:%s' % (m.name, m.qualname_of(n), _norm(a.value)), m, n, a.value))
    return out


def _r6(model, res, c):
    from .. import rx
    regs = package_regexes(model, c)
    res.floor('regular expressions examined', len(regs), 40)
    for key, m, node, pat in regs:
        try:
            nfa = rx.build(pat)
            al = rx.alphabet([nfa])
            w = rx.eda_witness(nfa, al)
        except rx.Unsupported as e:
            res.ob('R6', key, pat, True, 'undecided: construct not modelled (%s)' % e)
            res.notes.append('C01.R6: %s uses %s; ambiguity undecided' % (key, e))
            continue
        res.ob('R6', key, pat, w is None, None if w is None else 'pumpable: %r' % (w[1],))
        if w is not None:
            res.violation('R6', '%s:exponential-regex' % key, m.where(node),
                          'the regular expression %r is exponentially ambiguous: the substring %r can be matched in two different ways '
                          'that return to the same point, so on an input that repeats it and then fails to match, the backtracking '
                          'matcher needs time exponential in the input length - parse() does not return in bounded time' % (pat, w[1]),
                          case=w[1], func=m.qualname_of(node))


# ---------------------------------------------------------------------------------------------------
# R6 (dynamic patterns): a regular expression assembled at run time must not let the text choose the number of unbounded quantifiers

def _unbounded_quantifier(piece):
    """Does the pattern fragment contain a quantifier without upper bound (*, +, {n,})?"""
    import re as _re
    try:
        import re._parser as sp
    except ImportError:     # pragma: no cover - older interpreters
        import sre_parse as sp
    try:
        tree = sp.parse(piece)
    except Exception:
        return bool(_re.search(r'(?<!\\)(?:[*+]|\{\d+,\})', piece))
    found = []

    def walk(x):
        if isinstance(x, sp.SubPattern):
            for it in x.data:
                walk(it)
        elif isinstance(x, tuple):
            if len(x) == 2 and str(x[0]) in ('MAX_REPEAT', 'MIN_REPEAT', 'POSSESSIVE_REPEAT'):
                lo, hi, sub = x[1]
                if hi == sp.MAXREPEAT:
                    found.append(1)
                walk(sub)
            else:
                for it in x:
                    walk(it)
        elif isinstance(x, list):
            for it in x:
                walk(it)
    walk(tree)
    return bool(found)


_SAFE_TRANSLATORS = ('escape', 'translate')        # re.escape(text), fnmatch.translate(pattern)


def repeated_quantifier_pieces(f, expr, helpers, rep=False, depth=0, seen=None):
    """Constant pattern fragments with an unbounded quantifier that reach ``expr`` through a construct that emits them once per
    character / occurrence of run-time text (a comprehension or loop, ``str.join``, ``str.replace``, a ``re.sub`` replacement, a
    translation table indexed per character).  Returns [(Constant node, how)]."""
    seen = set() if seen is None else seen
    out = []
    if depth > 8 or expr is None:
        return out

    def go(e, r, why=None):
        out.extend(repeated_quantifier_pieces(f, e, helpers, r, depth + 1, seen))
    if isinstance(expr, ast.Constant):
        if isinstance(expr.value, str) and rep and _unbounded_quantifier(expr.value):
            out.append((expr, rep))
        return out
    if isinstance(expr, ast.Name):
        key = (id(f), expr.id, bool(rep))
        if key in seen or expr.id in sa.params(f):
            return out
        seen.add(key)
        loops = set()
        for lp in walk_no_defs(f):
            if isinstance(lp, (ast.For, ast.While)):
                for x in ast.walk(lp):
                    loops.add(id(x))
        for st in walk_no_defs(f):
            if isinstance(st, ast.Assign) and any(isinstance(t, ast.Name) and t.id == expr.id for t in st.targets):
                selfref = any(isinstance(x, ast.Name) and x.id == expr.id for x in ast.walk(st.value))
                go(st.value, rep or ('per loop iteration' if (selfref and id(st) in loops) else False))
            elif isinstance(st, ast.AugAssign) and isinstance(st.target, ast.Name) and st.target.id == expr.id:
                go(st.value, rep or ('per loop iteration' if id(st) in loops else False))
            elif isinstance(st, ast.Call) and isinstance(st.func, ast.Attribute) and isinstance(st.func.value, ast.Name) and \
                    st.func.value.id == expr.id and st.func.attr in ('append', 'extend', 'insert') and st.args:
                go(st.args[-1], rep or ('per loop iteration' if id(st) in loops else False))
        return out
    if isinstance(expr, (ast.GeneratorExp, ast.ListComp, ast.SetComp)):
        go(expr.elt, 'per item of a comprehension')
        return out
    if isinstance(expr, ast.DictComp):
        go(expr.value, rep)
        return out
    if isinstance(expr, ast.Call):
        fn = expr.func
        attr = fn.attr if isinstance(fn, ast.Attribute) else None
        if attr in _SAFE_TRANSLATORS:
            return out
        if attr == 'join' and expr.args:
            go(fn.value, 'as the separator of a join')
            go(expr.args[0], rep or 'per item joined')
            return out
        if attr == 'replace' and len(expr.args) >= 2:
            go(fn.value, rep)
            go(expr.args[1], 'per occurrence replaced')
            return out
        if attr in ('sub', 'subn') and expr.args:
            is_module_call = isinstance(fn.value, ast.Name) and fn.value.id == 're'
            repl = expr.args[1] if (is_module_call and len(expr.args) > 1) else expr.args[0]
            subject = expr.args[2] if (is_module_call and len(expr.args) > 2) else (expr.args[1] if len(expr.args) > 1 else None)
            go(repl, 'per match substituted')
            go(subject, rep)
            return out
        if attr in ('get', 'setdefault', 'pop') and isinstance(fn.value, ast.Name):
            go(fn.value, rep)
            for a in expr.args[1:]:
                go(a, rep)
            return out
        if isinstance(fn, ast.Name) and fn.id in helpers and helpers[fn.id] is not f:
            g = helpers[fn.id]
            for x in walk_no_defs(g):
                if isinstance(x, ast.Return) and x.value is not None:
                    out.extend(repeated_quantifier_pieces(g, x.value, helpers, rep, depth + 1, seen))
            return out
        if isinstance(fn, ast.Attribute):
            go(fn.value, rep)
        for a in list(expr.args) + [kw.value for kw in expr.keywords]:
            go(a.value if isinstance(a, ast.Starred) else a, rep)
        return out
    if isinstance(expr, ast.Dict):
        for v in expr.values:
            go(v, rep)
        return out
    if isinstance(expr, ast.Lambda):
        go(expr.body, rep)
        return out
    if isinstance(expr, ast.Subscript):
        go(expr.value, rep)
        return out
    for ch in ast.iter_child_nodes(expr):
        if isinstance(ch, ast.expr):
            go(ch, rep)
    return out


_R6_WITNESS = r"""
def bad(pattern):
    body = ''.join('.*' if c == '*' else '.' if c == '?' else re.escape(c) for c in pattern)
    return re.compile('(?s:%s)\\Z' % body)

def bad2(pattern):
    return re.compile(re.escape(pattern).replace('\\*', '.*') + '$')

def good(pattern):
    return re.compile(re.escape(pattern) + '.*\\Z')

def good2(pattern):
    return re.compile(fnmatch.translate(pattern))
"""


def _r6_dynamic(model, res, c):
    wit = ast.parse(_R6_WITNESS)
    verdicts = []
    for g in wit.body:
        call = [x for x in ast.walk(g) if isinstance(x, ast.Call) and sa.call_name(x) == 're.compile'][0]
        verdicts.append(bool(repeated_quantifier_pieces(g, call.args[0], {})))
    if verdicts != [True, True, False, False]:
        raise AnalysisError('C01.R6 self-check failed: witnesses %r' % (verdicts,))
    n = 0
    for m in model.modules.values():
        helpers = dict((q, g) for q, g in m.functions.items() if '.' not in q)
        for node in ast.walk(m.tree):
            if not (isinstance(node, ast.Call) and node.args):
                continue
            r = model.resolve_attr_chain(m, node.func) if isinstance(node.func, (ast.Name, ast.Attribute)) else None
            full = (r[1] + '.' + r[2]) if (r and r[0] == 'extattr') else None
            if full not in RE_FUNCS:
                continue
            a = node.args[0]
            fdef = m.enclosing_function(node)
            if isinstance(a, ast.Constant) or fdef is None or not isinstance(fdef, (ast.FunctionDef, ast.AsyncFunctionDef)):
                continue
            if isinstance(a, ast.Name):
                a2 = sa.resolve_local(fdef, a)
                if isinstance(a2, ast.Name):
                    rr = model.resolve(m, a2.id)
                    if rr and rr[0] == 'const':
                        continue
                if isinstance(a2, ast.Constant):
                    continue
            n += 1
            pieces = repeated_quantifier_pieces(fdef, a, helpers)
            key = '%s:%s' % (m.name, m.qualname_of(node))
            res.ob('R6', key, 'pattern assembled at run time: %s' % src(a)[:80], not pieces,
                   '; '.join('%r %s' % (p_.value, how) for p_, how in pieces))
            if pieces:
                p_, how = pieces[0]
                res.violation('R6', '%s:input-sized-regex' % key, m.where(node),
                              'the regular expression %s is assembled from run-time text and receives the unbounded quantifier %r %s: '
                              'the text decides how many such quantifiers the pattern has, and a backtracking matcher needs time that '
                              'grows like (length of the subject) ** (number of quantifiers) on a near miss - twenty-five "*" in a criterion '
                              'against forty characters do not return (fnmatch.translate avoids this; re.escape alone adds no quantifier)'
                              % (src(a)[:60], p_.value, how), func=m.qualname_of(node))
    res.analysed['regular expressions assembled at run time'] = n


# ---------------------------------------------------------------------------------------------------
# R8: str(error object) never raises

def _r8(model, res, c):
    """parse() reports an error through str(from_message(x)), outside any handler; host code (a custom function, a listener) may
    hand over error objects built in any way.  RuntimeError.__str__ never raises; an override is interpreted on error objects
    with no argument, one argument of unknown type, and two arguments, and must return text on every trace."""
    from ..absint import Interp, Obj, ClassV, ListV, Sym, Const, Unmodelled
    em, singles = error_singletons(model)
    classes = model.find_class('XLError')
    if not classes:
        raise AnalysisError('error class XLError not found (anchor vanished)')
    for cm, cc in classes:
        for dunder in ('__str__', '__repr__'):
            lm = model.lookup_method(cm, cc, dunder)
            if not lm:
                res.ob('R8', '%s:%s' % (cm.name, cc.name), '%s inherited from RuntimeError (never raises)' % dunder, True)
                continue
            if dunder == '__repr__' and model.lookup_method(cm, cc, '__str__'):
                continue        # str() uses __str__
            for label, mk in (('no argument', lambda: []), ('one argument of any type', lambda: [Sym(None, 'A0')]),
                              ('a text argument', lambda: [Sym('str', 'T0')]), ('two arguments', lambda: [Sym('str', 'T0'), Sym(None, 'A1')])):
                it = Interp(model)

                def call(interp, st, mk=mk):
                    o = Obj(ClassV(cm, cc), {'args': ListV(mk(), 'tuple')})
                    return interp.call(interp.get_method(o, dunder), [])
                try:
                    outs = it.run(call)
                except Unmodelled as e:
                    res.ob('R8', '%s:%s.%s' % (cm.name, cc.name, dunder), label, True, 'undecided: %s' % e)
                    continue
                bad = [o for o in outs if not o.imprecise and not (o.kind == 'return' and o.value.tag == 'str')]
                res.ob('R8', '%s:%s.%s' % (cm.name, cc.name, dunder), {'error object built with': label}, not bad, H.describe(outs)[:2])
                if bad:
                    res.violation('R8', '%s:%s.%s:not-text' % (cm.name, cc.name, dunder), lm[0].where(lm[2]),
                                  '%s.%s of an error object built with %s %s; str() then raises TypeError inside parse(), which turns '
                                  'errors into their code outside any handler - an error object handed over by a custom function or a listener '
                                  'makes parse() raise instead of returning a record'
                                  % (cc.name, dunder, label, '; '.join(H.describe(bad)[:2])), case={'built with': label}, func='%s.%s' % (cc.name, dunder))
