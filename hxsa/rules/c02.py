# -*- coding: utf-8 -*-
"""C02 - evaluation is a pure, repeatable function of formula and registered bindings; no host mutation;
no retention."""
import ast

from ..model import AnalysisError, src
from ..paths import function_paths, walk_no_defs
from ..callgraph import fmt
from .. import abshelp as H, sa, ctx as ctxmod, purity

PRINT_CALLS = ('print', 'traceback.print_exc', 'traceback.print_exception', 'traceback.print_stack',
               'traceback.print_tb', 'logging.debug', 'logging.info', 'logging.warning', 'logging.error',
               'logging.exception', 'warnings.warn', 'sys.stderr.write', 'sys.stdout.write')
CATCHES_XLERROR = ('Exception', 'BaseException', 'RuntimeError', 'XLError')


def run(model, res, tier):
    c = ctxmod.get(model)
    cg = c.cg
    reach = c.reach
    res.explanation = (
        'Whole-package effect analysis (ownership abstract interpretation, context-sensitive, from parse() through the ply '
        'framework roots, callbacks, registry dispatch and operator dunder dispatch): every mutation event in reachable code is '
        'classified by what its receiver may alias. R1: none writes persistent state (instance attributes of the parser objects, '
        'class attributes, module-level containers, mutable defaults, globals) except the emitter\'s own listener bookkeeping. '
        'R2: none mutates a host-aliased value (taint through parameters, grammar symbols of kind expression, iteration, '
        'subscripts, shallow copies; grammar-internal lists are fresh only if every action for that nonterminal builds a fresh '
        'value). R3: debug only prints. R4: handlers that can catch the shared XLError singletons reset their traceback. '
        'R5: no memo decorators. Absence of persistent writes is the structural reason the outcome cannot depend on history; '
        'retention inside ply/dateutil objects is not decided.')
    res.rule('R1', 'no write to state that outlives the evaluation in code reachable from parse()')
    res.rule('R2', 'no in-place mutation of a value that may alias a host-supplied value')
    res.rule('R3', 'debug branches only print; the debug flag flows nowhere else')
    res.rule('R4', 'every reachable handler that can catch a shared XLError singleton resets its __traceback__')
    res.rule('R5', 'no unbounded or untyped memoisation on reachable functions')
    res.rule('R6', 'each parse reads its own token stream (private lexer): an evaluation nested in a callback cannot disturb the outer one (shared with C03.R1)')
    res.rule('R7', 'per-parser state is per parser: no instance attribute starts out as an object shared between parser objects, so an evaluation '
             'depends only on what was registered on its own parser (shared with C03.R2)')
    res.rule('R8', 'event delivery runs over a snapshot of the listener list: a listener that leaves (a once-listener) during delivery cannot make '
             'another listener be skipped, so the first and the second evaluation of a formula see the same listeners (shared with C20.R1)')
    res.assumptions += ['A1 host callbacks are opaque (their own effects are the host\'s)',
                        'A3 ply keeps only the last parse\'s stacks (third-party retention not analysed)']
    res.trusted += ['CPython ast', 'hand-written ownership models of builtins/stdlib calls (hxsa/effects.py)',
                    'CPython keeps and extends __traceback__ of a re-raised exception instance']
    res.floor('functions reachable from parse()', len(reach), 150)
    eff = c.effects
    res.analysed['functions analysed by E5'] = len(eff.analysed)
    res.analysed['mutation events seen'] = len(eff.events)
    n = purity.check_region(res, c, 'R1', 'R2', reach, 'evaluation', lints=('shared',))
    res.floor('distinct mutation events in reachable code', n, 10)
    _positive_control(res)
    H.safely(res, 'R3', 'r3', _r3, model, res, c)
    H.safely(res, 'R4', 'r4', _r4, model, res, c)
    k = purity.check_memo(res, c, 'R5', reach, 'a function used during evaluation')
    from . import c03
    c03._r1(model, res, c, 'R6')
    c03.instance_state(model, res, c, 'R7')
    from . import c20

    def delivery(tmp):
        for em_m, em_c in c20.find_emitter(model):
            methods = dict((n.name, n) for n in em_c.body if isinstance(n, ast.FunctionDef))
            c20._r1(model, tmp, em_m, em_c, methods, c20.storage_attr(em_m, em_c, methods))
    H.borrow(res, 'R8', 'event delivery', delivery)
    res.ob('R5', 'package', 'memo decorators on %d reachable functions examined' % len(reach), True, '%d found' % k)


def _positive_control(res):
    """Tiny synthetic tree on which R1/R2 must fire (a rule whose expected count is zero must not be vacuous)."""
    import os
    import tempfile
    import shutil
    from ..model import Model
    from .. import report
    d = tempfile.mkdtemp(prefix='hxsa_pc_')
    try:
        pkg = os.path.join(d, 'hotxlfp')
        os.makedirs(pkg)
        open(os.path.join(pkg, '__init__.py'), 'w').write('')
        open(os.path.join(pkg, 'm.py'), 'w').write(
            'CACHE = {}\n'
            'class Emitter(object):\n'
            '    def __init__(self):\n        self._e = {}\n'
            '    def on(self, name, callback, ctx=None):\n        self._e.setdefault(name, []).append((callback, ctx))\n'
            '    def once(self, name, callback, ctx=None):\n        return self.on(name, callback, ctx)\n'
            '    def off(self, name, callback=None):\n        del self._e[name]\n'
            '    def emit(self, name, *args):\n        return self\n'
            'class Parser(Emitter):\n'
            '    def parse(self, expression):\n'
            '        CACHE[expression] = 1\n'
            '        self.last = expression\n'
            '        return helper(expression)\n'
            'def helper(arr):\n'
            '    arr.sort()\n'
            '    return arr\n')
        m = Model(d)
        c = ctxmod.Ctx(m)
        c.allow_no_grammar = True
        tmp = report.Result('C02')
        purity.check_region(tmp, c, 'R1', 'R2', c.reach, 'control')
        kinds = sorted(f.construct.split(':')[2] for f in tmp.findings)
        ok = kinds.count('persistent-write') >= 2 and kinds.count('host-mutation') >= 1
        res.ob('R1', 'positive control (synthetic)', 'module cache write + self attribute write + host sort must be reported', ok, kinds)
        if not ok:
            raise AnalysisError('positive control for the effect rules did not fire: %s' % kinds)
    finally:
        shutil.rmtree(d, ignore_errors=True)


# ---------------------------------------------------------------------------------------------------

def _mentions_debug(node):
    for n in ast.walk(node):
        if isinstance(n, ast.Attribute) and n.attr == 'debug':
            return True
        if isinstance(n, ast.Name) and n.id == 'debug':
            return True
    return False


def _r3(model, res, c):
    cg = c.cg
    n_uses = 0
    for k in sorted(cg.funcs):
        m, f = cg.funcs[k]
        reachable = k in c.reach
        is_ctor = f.name == '__init__'
        if not (reachable or is_ctor):
            continue
        if is_ctor and not _is_parser_class(c, k):
            continue
        for node in walk_no_defs(f):
            if isinstance(node, ast.If) and _mentions_debug(node.test):
                n_uses += 1
                bad = []
                for st in node.body + node.orelse:
                    if isinstance(st, ast.Pass):
                        continue
                    if isinstance(st, ast.Expr) and isinstance(st.value, ast.Call) and \
                            (sa.call_name(st.value) in PRINT_CALLS or (sa.call_name(st.value) or '').startswith('logging.')
                             or (sa.call_name(st.value) or '').split('.')[-1] in ('debug', 'info', 'warning')):
                        continue
                    bad.append(st)
                res.ob('R3', fmt(k), 'if %s: ...' % src(node.test), not bad, '; '.join(src(b) for b in bad))
                if bad:
                    res.violation('R3', '%s:%s:debug-branch' % k, m.where(bad[0]),
                                  'a branch taken only when debug is on does more than print (%s): outcomes differ with debug on/off'
                                  % src(bad[0]), func=k[1])
        # other uses of the flag
        for node in walk_no_defs(f):
            if isinstance(node, (ast.Attribute, ast.Name)) and ((isinstance(node, ast.Attribute) and node.attr == 'debug') or
                                                                  (isinstance(node, ast.Name) and node.id == 'debug')):
                p = m.parent(node)
                if isinstance(node, ast.Attribute) and isinstance(p, ast.Call) and p.func is node and sa.is_logger_call(model, m, p):
                    continue            # logger.debug(...): the method of a logging.Logger, not the debug flag
                ok = False
                if isinstance(node.ctx, ast.Store):
                    ok = True                           # self.debug = debug
                elif isinstance(p, ast.Assign) and p.value is node and all(isinstance(t, ast.Attribute) and t.attr == 'debug' for t in p.targets):
                    ok = True
                elif isinstance(p, ast.keyword) and p.arg == 'debug':
                    ok = True                           # ply's logging flag, passed under its own name
                elif isinstance(p, ast.If) and p.test is node:
                    ok = True                           # examined above
                elif isinstance(p, (ast.BoolOp, ast.UnaryOp)) and _under_if_test(m, node):
                    ok = True
                n_uses += 1
                res.ob('R3', fmt(k), 'use of debug: %s' % src(p) if p is not None else 'debug', ok)
                if not ok:
                    res.violation('R3', '%s:%s:debug-flows' % k, m.where(node),
                                  'the debug flag influences something other than printing (%s)' % (src(p) if p is not None else '?'),
                                  func=k[1])
    res.floor('uses of the debug flag examined', n_uses, 3)


def _under_if_test(m, node):
    p = m.parent(node)
    child = node
    while p is not None and isinstance(p, (ast.BoolOp, ast.UnaryOp, ast.Compare)):
        child = p
        p = m.parent(p)
    return isinstance(p, ast.If) and p.test is child


def _is_parser_class(c, k):
    owner = c.cg.cls_of.get(k)
    return owner is not None and c.effects.is_persistent_class(owner[1])


# ---------------------------------------------------------------------------------------------------

def _handler_catches_xlerror(model, m, h):
    if h.type is None:
        return True
    types = h.type.elts if isinstance(h.type, ast.Tuple) else [h.type]
    for t in types:
        name = src(t).split('.')[-1]
        if name in CATCHES_XLERROR:
            return True
        r = model.resolve_attr_chain(m, t)
        if r and r[0] == 'class':
            # a package exception class: catches XLError iff XLError derives from it
            for xm, xc in model.find_class('XLError'):
                if any(bc is r[2] for _, bc in model.mro(xm, xc)):
                    return True
    return False


def singleton_raise_sites(model, c):
    """raise statements in reachable code that may raise a shared (module-level) exception instance."""
    out = []
    for k in sorted(c.reach):
        m, f = c.cg.funcs[k]
        for n in walk_no_defs(f):
            if isinstance(n, ast.Raise) and n.exc is not None:
                e = n.exc
                if isinstance(e, ast.Call):
                    r = model.resolve_attr_chain(m, e.func)
                    if r and r[0] == 'class':
                        continue        # fresh instance
                    if r is None and isinstance(e.func, ast.Name) and e.func.id[:1].isupper():
                        continue        # builtin exception class
                    if r and r[0] == 'extattr':
                        continue
                    if isinstance(e.func, ast.Attribute) and e.func.attr == 'with_traceback':
                        continue
                    out.append((k, m, n, 'result of %s' % src(e.func)))
                    continue
                r = model.resolve_attr_chain(m, e) if isinstance(e, (ast.Name, ast.Attribute)) else None
                if r and r[0] == 'class':
                    continue
                if r is None and isinstance(e, ast.Name) and e.id[:1].isupper() and e.id not in sa.params(f):
                    continue            # builtin exception class
                if r and r[0] == 'const':
                    out.append((k, m, n, 'module-level instance %s' % src(e)))
                    continue
                out.append((k, m, n, 'value %s' % src(e)))
    return out


def _r4(model, res, c):
    sites = singleton_raise_sites(model, c)
    res.analysed['raise sites of shared exception instances'] = len(sites)
    for k, m, n, what in sites:
        res.ob('R4', fmt(k), 'raise site: %s' % what, True, 'requires every catching handler to reset the traceback')
        # raised while another exception is being handled, the shared instance also gets __context__ = that exception (with its
        # traceback and frames); nothing resets __context__
        par = m.parent(n)
        inside = None
        while par is not None and not isinstance(par, (ast.FunctionDef, ast.Lambda, ast.ClassDef, ast.Module)):
            if isinstance(par, ast.ExceptHandler):
                inside = par
                break
            par = m.parent(par)
        res.ob('R4', fmt(k), 'raise site %s is not inside an exception handler' % what, inside is None)
        if inside is not None:
            res.violation('R4', '%s:%s:singleton-raised-in-handler' % k, m.where(n),
                          'the shared exception instance %s is raised inside an `except` block: python stores the exception being handled '
                          '(with its traceback, frames and their locals - host values, the parser) in its __context__, which no handler '
                          'resets; the process-global object keeps the whole evaluation alive' % what, func=k[1])
    if not sites:
        res.ob('R4', 'package', 'no reachable raise of a shared exception instance', True)
        return
    n_h = 0
    for k in sorted(c.reach):
        m, f = c.cg.funcs[k]
        for node in walk_no_defs(f):
            if not isinstance(node, ast.Try):
                continue
            for h in node.handlers:
                if not _handler_catches_xlerror(model, m, h):
                    continue
                n_h += 1
                site = '%s handler@%s' % (fmt(k), src(h.type) if h.type is not None else 'bare')
                if not h.name:
                    res.ob('R4', site, 'handler binds no name', False)
                    res.violation('R4', '%s:%s:handler-%s:no-name' % (k[0], k[1], src(h.type) if h.type is not None else 'bare'),
                                  m.where(h), 'handler can catch a shared XLError singleton but cannot reset its traceback '
                                  '(no "as" name): frames accumulate on the process-global object', func=k[1])
                    continue
                # whatever else the handler puts on the caught object stays on the process-global singleton: notes, attributes, arguments
                for nd in [x for st_ in h.body for x in ast.walk(st_)]:
                    kept = None
                    if isinstance(nd, ast.Call) and isinstance(nd.func, ast.Attribute) and isinstance(nd.func.value, ast.Name) and \
                            nd.func.value.id == h.name and nd.func.attr in ('add_note', '__setattr__', '__setstate__'):
                        kept = '%s(...)' % src(nd.func)
                    if isinstance(nd, (ast.Assign, ast.AugAssign)):
                        for t in (nd.targets if isinstance(nd, ast.Assign) else [nd.target]):
                            if isinstance(t, ast.Attribute) and isinstance(t.value, ast.Name) and t.value.id == h.name and \
                                    not (t.attr in ('__traceback__', '__context__', '__cause__') and isinstance(nd, ast.Assign) and
                                         isinstance(nd.value, ast.Constant) and nd.value.value is None):
                                kept = '%s = ...' % src(t)
                    if isinstance(nd, ast.Call) and sa.call_name(nd) == 'setattr' and nd.args and isinstance(nd.args[0], ast.Name) and nd.args[0].id == h.name:
                        kept = src(nd)[:40]
                    if kept:
                        res.ob('R4', site, 'handler writes on the caught object: %s' % kept, False)
                        res.violation('R4', '%s:%s:handler-%s:writes-on-singleton' % (k[0], k[1], src(h.type) if h.type is not None else 'bare'),
                                      m.where(nd), 'handler catches the shared XLError singletons (raised at %d sites, e.g. %s) and stores on the '
                                      'caught object (%s): on a singleton that is state of the process - it accumulates with every failing '
                                      'evaluation and is never released' % (len(sites), fmt(sites[0][0]), kept), func=k[1])
                for p in function_paths(h.body):
                    if p.kind() == 'raise':
                        continue        # re-raised: an outer handler is responsible
                    cleared = False
                    for st in p.stmts():
                        if isinstance(st, ast.Assign) and len(st.targets) == 1 and isinstance(st.targets[0], ast.Attribute) \
                                and st.targets[0].attr == '__traceback__' and isinstance(st.targets[0].value, ast.Name) \
                                and st.targets[0].value.id == h.name and isinstance(st.value, ast.Constant) and st.value.value is None:
                            cleared = True
                        for call in ast.walk(st):
                            if isinstance(call, ast.Call) and isinstance(call.func, ast.Attribute) and \
                                    call.func.attr == 'with_traceback' and isinstance(call.func.value, ast.Name) and \
                                    call.func.value.id == h.name and call.args and isinstance(call.args[0], ast.Constant) \
                                    and call.args[0].value is None:
                                cleared = True
                    res.ob('R4', site, 'path %s' % p.describe(), cleared)
                    if not cleared:
                        res.violation('R4', '%s:%s:handler-%s:traceback-kept' % (k[0], k[1], src(h.type) if h.type is not None else 'bare'),
                                      m.where(h), 'handler catches the shared XLError singletons (raised at %d sites, e.g. %s) and '
                                      'leaves their __traceback__ set: every such evaluation appends frames (with their locals, '
                                      'including host values) to a process-global object' % (len(sites), fmt(sites[0][0])),
                                      case=p.describe(), func=k[1])
    res.floor('reachable handlers that can catch XLError', n_h, 1)
