# -*- coding: utf-8 -*-
"""C03 - parser instances are isolated; evaluation is re-entrant and thread-independent."""
import ast

from ..model import AnalysisError, src
from ..paths import walk_no_defs
from ..callgraph import fmt
from .. import abshelp as H, sa, ctx as ctxmod, purity

PLY_GLOBALS = ('ply.lex.lexer', 'ply.lex.token', 'ply.lex.input', 'ply.yacc.parse', 'ply.yacc.token',
               'ply.yacc.errok', 'ply.yacc.restart', 'ply.yacc.parser')
FRESH_CTORS = ('dict', 'list', 'set', 'defaultdict', 'OrderedDict', 'deque', 'Counter', 'collections.defaultdict',
               'collections.OrderedDict', 'collections.deque')


def run(model, res, tier):
    c = ctxmod.get(model)
    cg = c.cg
    res.explanation = (
        'Ownership rules over the ast + call graph: R1 every parse on a ply yacc object names a private lexer '
        '(clone of the instance lexer or a freshly built one) - without lexer= ply uses the process-global last lexer, with the '
        'un-cloned instance lexer a re-entrant evaluation on the same parser shares its token stream; R2 every attribute that '
        'methods mutate through self is created per instance in __init__ from a fresh container, never aliasing module/class '
        'state or a mutable default, and constructing/registering writes no module-level state; R3 the function registry is '
        'written only by the decorator at import; R4 no use of ply\'s module-global API; R5 nothing reachable from parse() writes '
        'state shared between parsers or evaluations (the only channel through which one evaluation could influence another, '
        'nested or concurrent). Data races inside ply for same-parser multi-threading are not decided.')
    res.rule('R1', 'every yacc .parse() passes lexer=<own lexer>.clone() or a fresh lexer')
    res.rule('R2', 'instance state is born in __init__ from fresh containers; construction/registration write no shared state')
    res.rule('R3', 'the registry is written only inside the register_for closure, used only as a decorator')
    res.rule('R4', 'no ply module-global API')
    res.rule('R5', 'no write to shared state in code reachable from parse()')
    res.assumptions += ['A3 ply: LRParser.parse keeps its stacks in locals and falls back to lex.lexer when lexer= is not given']
    res.trusted += ['CPython ast', 'ply 3.11 source as read', 'hxsa/effects.py ownership models']
    H.safely(res, 'R1', 'r1', _r1, model, res, c)
    instance_state(model, res, c, 'R2')
    shared_locks(model, res, c, 'R2')
    H.safely(res, 'R3', 'r3', _r3, model, res, c)
    H.safely(res, 'R4', 'r4', _r4, model, res, c)
    n = purity.check_region(res, c, 'R5', None, c.reach, 'evaluation', lints=('shared',))
    res.floor('mutation events examined for R5', n, 10)
    purity.check_memo(res, c, 'R5', c.reach, 'a function used during evaluation')
    res.rule('R6', 'a parser made from another one by the copy methods the class defines (__copy__, __deepcopy__, copy, clone) is a parser of '
             'its own: what is registered on either afterwards is invisible to the other')
    H.safely(res, 'R6', 'copies', copies_are_independent, model, res, c, 'R6')


COPY_HOOKS = ('__copy__', '__deepcopy__', 'copy', 'clone')


def copies_are_independent(model, res, c, R):
    """Scripted history on the abstract parser object (E4; lists and dicts are objects with identity there): register, copy through the
    class's own hook, register on each side, emit on the other side."""
    from ..absint import Interp, Const, Builtin, ClassV, DictV, ListV, Obj, Unmodelled
    pm, pcls = c.cg.cls_of[c.root]
    hooks = []
    for hook in COPY_HOOKS:
        lm = model.lookup_method(pm, pcls, hook)
        if lm:
            hooks.append((hook, lm))
    if not hooks:
        res.ob(R, pcls.name, 'copy methods defined by the parser classes', True, 'none: copy.deepcopy builds an independent parser from the '
               'instance dictionaries, copy.copy shares them as for any object')
        return
    for hook, lm in hooks:
        site = '%s.%s' % (lm[1].name, hook)
        for direction in ('copy-then-register-on-copy', 'copy-then-register-on-original'):
            def script(interp, st, hook=hook, direction=direction):
                p, _g = H.host_objects(interp, model, c)
                seen = []

                def cb(label):
                    def fn(interp2, args, kwargs, label=label):
                        interp2.state.events.append(('called', label))
                        return Const(None)
                    interp.extern['hx:copy:' + label] = fn
                    return Builtin('hx:copy:' + label)
                interp.call(interp.get_method(p, 'on'), [Const('e'), cb('F')])
                interp.call(interp.get_method(p, 'on'), [Const('f'), cb('OTHER-NAME')])
                once_ = interp.get_method(p, 'once')
                if once_ is not None:
                    interp.call(once_, [Const('e'), cb('ONCE')])
                sv = interp.get_method(p, 'set_variable')
                if sv is not None:
                    interp.call(sv, [Const('V'), Const(1)])
                h = interp.get_method(p, hook)
                q = interp.call(h, [DictV([])] if hook == '__deepcopy__' else [])
                if not isinstance(q, Obj):
                    raise Unmodelled('%s does not yield a parser object the interpreter can follow (%r)' % (hook, q))
                if q is p:
                    st.events.append(('same-object',))
                    return Const(None)
                # the engines: a grammar parser object of the copy that parses with the very LALR engine the original built still
                # reduces through the original's actions (ply binds them to the object that built the tables)
                for a_, v_ in q.attrs.items():
                    pv_ = p.attrs.get(a_)
                    if isinstance(v_, Obj) and isinstance(pv_, Obj) and v_ is not pv_:
                        for ya in c.cg.yacc_attrs:
                            if ya in v_.attrs and v_.attrs.get(ya) is pv_.attrs.get(ya) and not isinstance(v_.attrs.get(ya), Const):
                                st.events.append(('shared-engine', a_, ya))
                    elif isinstance(v_, Obj) and v_ is pv_ and any(cc is c.grammar.gcls for _, cc in model.mro(v_.cls.module, v_.cls.node)) \
                            if isinstance(v_, Obj) and v_.cls.module is not None else False:
                        st.events.append(('shared-engine', a_, 'the grammar parser itself'))
                # what was registered before the copy is delivered on the copy under its own names, and a pending once-listener of the
                # original is not spent by the copy
                if direction == 'copy-then-register-on-copy':
                    st.events.append(('emit-on-copy-first',))
                    interp.call(interp.get_method(q, 'emit'), [Const('e'), Const('x')])
                    st.events.append(('emit-other-name-on-copy',))
                    interp.call(interp.get_method(q, 'emit'), [Const('f'), Const('x')])
                    st.events.append(('emit-on-original-after',))
                    interp.call(interp.get_method(p, 'emit'), [Const('e'), Const('x')])
                    st.events.append(('end-of-carry-over',))
                a, b = (q, p) if direction == 'copy-then-register-on-copy' else (p, q)
                interp.call(interp.get_method(a, 'on'), [Const('e'), cb('G')])
                sv = interp.get_method(a, 'set_variable')
                if sv is not None:
                    interp.call(sv, [Const('W'), Const(2)])
                sf = interp.get_method(a, 'set_function')
                if sf is not None:
                    interp.call(sf, [Const('FN'), cb('H')])
                st.events.append(('emit-on-other',))
                interp.call(interp.get_method(b, 'emit'), [Const('e'), Const('x')])
                for attr, key in (('variables', 'W'), ('functions', 'FN')):
                    d = b.attrs.get(attr)
                    if isinstance(d, DictV) and d.lookup(Const(key)) is not None:
                        st.events.append(('leaked', attr, key))
                return Const(None)
            case = {'hook': hook, 'history': direction}
            try:
                outs = Interp(model).run(script)
            except Unmodelled as e:
                res.ob(R, site, case, True, 'undecided: %s' % e)
                continue
            outs = [o for o in outs if not o.imprecise]
            if not outs or any(o.kind != 'return' for o in outs):
                res.ob(R, site, case, True, 'undecided: %s' % (H.describe(outs)[:2] if outs else 'imprecise'))
                continue
            bad = []
            for o in outs:
                evs = [e for e in o.events if isinstance(e, tuple)]
                if ('same-object',) in evs:
                    bad.append('the "copy" is the parser itself')
                    continue
                for e in evs:
                    if e[0] == 'shared-engine':
                        bad.append('the copy parses with the LALR engine the original built (%s.%s is the same object): its grammar actions '
                                   'still call the original parser' % (e[1], e[2]))
                if ('emit-on-copy-first',) in evs and ('end-of-carry-over',) in evs:
                    seg1 = evs[evs.index(('emit-on-copy-first',)) + 1:evs.index(('emit-other-name-on-copy',))]
                    seg1b = evs[evs.index(('emit-other-name-on-copy',)) + 1:evs.index(('emit-on-original-after',))]
                    if ('called', 'F') in seg1b or ('called', 'ONCE') in seg1b:
                        bad.append('a listener carried over to the copy is called by an emit of another event name')
                    seg2 = evs[evs.index(('emit-on-original-after',)) + 1:evs.index(('end-of-carry-over',))]
                    if ('called', 'OTHER-NAME') in seg1:
                        bad.append('a listener carried over from another event name is called by an emit of this name on the copy')
                    carried = [e for e in seg1 if e[0] == 'called']
                    if carried and ('called', 'F') not in seg1:
                        bad.append('listeners are carried over, but not under the name they were subscribed to')
                    if ('called', 'ONCE') in seg1 and ('called', 'ONCE') not in seg2:
                        bad.append('a pending once-listener of the original is spent by an emit on the copy')
                    if ('called', 'F') not in seg2:
                        bad.append('an emit on the copy unsubscribes a listener of the original')
                if ('emit-on-other',) not in evs:
                    continue
                after = evs[evs.index(('emit-on-other',)) + 1:]
                if ('called', 'G') in after:
                    bad.append('a listener subscribed on one of the two after the copy is called by an emit on the other')
                for e in after:
                    if e[0] == 'leaked':
                        bad.append('%s[%r] set on one of the two after the copy is present on the other' % (e[1], e[2]))
            res.ob(R, site, case, not bad, '; '.join(bad) if bad else 'independent')
            if bad:
                res.violation(R, '%s:%s:copy-shares-state' % (lm[0].name, site), lm[0].where(lm[2]),
                              '%s gives a parser that shares state with the one it was made from (%s): %s - registrations on one parser are '
                              'visible to another' % (site, direction, '; '.join(sorted(set(bad)))), case=case, func=site)


def _r1(model, res, c, R='R1'):
    cg = c.cg
    sites = []
    for k, (m, f) in sorted(cg.funcs.items()):
        for n in ast.walk(f) if '.<locals>.' not in k[1] else []:
            if cg.is_yacc_parse(f, n):
                sites.append((k, m, f, n))
    res.floor('parse calls on a ply yacc object', len(sites), 1)
    for k, m, f, n in sites:
        kw = [x for x in n.keywords if x.arg == 'lexer']
        site = fmt(k)
        if not kw:
            res.ob(R, site, src(n), False, 'no lexer= argument')
            res.violation(R, '%s:%s:yacc-parse-without-lexer' % k, m.where(n),
                          'yacc parse() is called without lexer=: ply then uses the process-global lexer (the last one built), so '
                          'nested or concurrent evaluations - on other parsers or this one - consume each other\'s token stream',
                          case=src(n), func=k[1])
            continue
        v = sa.resolve_local(f, kw[0].value)
        ok = False
        why = ''
        if isinstance(v, ast.Call) and isinstance(v.func, ast.Attribute) and v.func.attr == 'clone' and \
                isinstance(v.func.value, ast.Attribute) and v.func.value.attr in cg.lex_attrs and \
                isinstance(v.func.value.value, ast.Name) and v.func.value.value.id == sa.self_name(f):
            ok = True
        elif isinstance(v, ast.Call):
            r = model.resolve_attr_chain(m, v.func)
            if r and r[0] == 'extattr' and (r[1] + '.' + r[2]) == 'ply.lex.lex':
                ok = True
        if not ok:
            if isinstance(v, ast.Attribute) and v.attr in cg.lex_attrs:
                why = ('the instance lexer is shared by every evaluation on this parser: a re-entrant evaluation (custom function or '
                       'listener calling parse on the same parser) re-inputs it and the outer evaluation loses its remaining tokens')
            else:
                why = 'lexer= is not a clone of the instance lexer nor a freshly built lexer (%s)' % src(v)
        res.ob(R, site, src(n), ok, why)
        if not ok:
            res.violation(R, '%s:%s:yacc-parse-shared-lexer' % k, m.where(n), why, case=src(n), func=k[1])


def _persistent_classes(c):
    out = []
    for m in c.model.modules.values():
        for cls in m.classes.values():
            if c.effects.is_persistent_class(cls):
                out.append((m, cls))
    return out


def instance_state(model, res, c, R='R2'):
    cg = c.cg
    eff = c.effects
    pcs = _persistent_classes(c)
    res.floor('long-lived classes (parser, emitter, grammar parser, dispatcher)', len(pcs), 4)
    # analyse constructors and the registration API (everything that is not reachable from parse)
    ctor_keys = set()
    for m, cls in pcs:
        for node in cls.body:
            if isinstance(node, ast.FunctionDef):
                k = (m.name, m.qualname_of(node))
                if k not in c.reach:
                    ctor_keys.add(k)
    region = cg.reachable(sorted(ctor_keys)) - set(c.reach)
    for k in sorted(region):
        eff.analyse(k)
    allow = purity.emitter_allow(c)
    # (a) attributes mutated through self anywhere -> must be born fresh in __init__
    mutated = {}        # (class name, attr) -> example event
    stores = {}         # (class name, attr) -> list of store events in __init__
    for ev in eff.events:
        if ev.attr is not None and ev.kind == 'store':
            if ev.key[1].endswith('.__init__'):
                stores.setdefault(ev.attr, []).append(ev)
        for s in ev.receiver.states():
            for m, cls in pcs:
                for mm, cc in model.mro(m, cls):
                    pre = cc.name + '.'
                    if s.startswith(pre) and ev.attr is None:
                        mutated.setdefault((cc.name, s[len(pre):]), ev)
    own_names = set(cc.name for m_, cls_ in pcs for mm_, cc in model.mro(m_, cls_))

    def foreign_states(v):
        """States of an ownership value other than attributes of the object itself (self.a = self.b.field aliases nothing shared:
        whether self.b is per instance is decided where self.b is born)."""
        return [s_ for s_ in (v.states() if v is not None else []) if s_ != 'self' and not any(s_.startswith(n_ + '.') for n_ in own_names)]
    for (cname, attr), ev in sorted(mutated.items()):
        born = [e for (cn, a), evs in stores.items() if a == attr for e in evs]
        site = '%s.%s' % (cname, attr)
        if not born:
            # Dispatcher registry etc. are also assigned in __init__; a miss means class-level or never created
            res.ob(R, site, 'mutated through self in %s' % fmt(ev.key), False, 'never assigned in an __init__')
            res.violation(R, '%s:attr-not-born-in-init' % site, ev.where(),
                          'attribute %s is mutated through self (%s) but is not created in __init__: it lives on the class and is '
                          'shared by every instance' % (site, ev.detail), func=ev.key[1])
            continue
        for b in born:
            v = b.value
            ok = v is not None and not foreign_states(v)
            res.ob(R, site, 'born in %s as %s' % (fmt(b.key), b.detail), ok, repr(v))
            if not ok:
                res.violation(R, '%s:attr-aliases-shared-object' % site, b.where(),
                              'instance attribute %s is initialised with an object shared between instances (%s): registrations on one '
                              'parser become visible to every other parser' % (site, ', '.join(v.states()) if v is not None else '?'),
                              func=b.key[1])
    res.floor('instance attributes mutated through self', len(mutated), 3)
    # (b) any self attribute initialised with shared state, even if not (yet) mutated through self
    for (cname, attr), evs in sorted(stores.items()):
        for b in evs:
            if (cname, attr) in mutated:
                continue
            v = b.value
            bad = v is not None and bool(foreign_states(v)) and not all(s.startswith('hotxlfp.formulas.error.') for s in foreign_states(v))
            # class-level immutable constants re-exposed on the instance are fine; mutable shared containers are not
            res.ob(R, '%s.%s' % (cname, attr), 'initialised in %s' % fmt(b.key), not bad, repr(v))
            if bad:
                res.violation(R, '%s.%s:attr-aliases-shared-object' % (cname, attr), b.where(),
                              'instance attribute %s.%s is initialised with a shared object (%s); every parser holds the same one'
                              % (cname, attr, ', '.join(v.states())), func=b.key[1])
    # (c) constructing / registering writes no module-level state
    for ev in eff.events:
        if ev.key not in region:
            continue
        kind, desc = purity.classify(ev, allow)
        if kind != 'state':
            continue
        states = ev.receiver.states()
        own = True
        for s in states:
            if not any(s.startswith(cc.name + '.') for m, cls in pcs for mm, cc in model.mro(m, cls)) and s != 'self':
                own = False
        # writes to the instance's own attributes are what constructors and set_* are for
        if own and ev.kind in ('store', 'call', 'delete', 'iop'):
            # ... unless the attribute itself is shared (handled in (a)/(b))
            res.ob(R, fmt(ev.key), 'writes own instance state: %s' % ev.detail, True)
            continue
        res.ob(R, fmt(ev.key), '%s %s' % (ev.kind, ev.detail), False, desc)
        res.violation(R, '%s:%s:shared-write:%s' % (ev.key[0], ev.key[1], purity._norm(ev.detail)), ev.where(),
                      'constructing a parser or registering a binding writes state shared by all parsers (%s via %s)' % (desc, ev.detail),
                      func=ev.key[1])
    # (d) mutable defaults on methods of long-lived classes
    for m, cls in pcs:
        for node in cls.body:
            if isinstance(node, ast.FunctionDef):
                for d in list(node.args.defaults) + [x for x in node.args.kw_defaults if x is not None]:
                    bad = isinstance(d, (ast.Dict, ast.List, ast.Set)) or (
                        isinstance(d, ast.Call) and (sa.call_name(d) or '') in FRESH_CTORS)
                    if bad:
                        res.ob(R, '%s:%s.%s' % (m.name, cls.name, node.name), 'default %s' % src(d), False)
                        res.violation(R, '%s:%s.%s:mutable-default' % (m.name, cls.name, node.name), m.where(d),
                                      'mutable default argument %s is one object shared by every call and every instance' % src(d),
                                      func=cls.name + '.' + node.name)
    # (e) class-level mutable containers on long-lived classes that instances read through self
    for m, cls in pcs:
        for node in cls.body:
            if isinstance(node, ast.Assign) and isinstance(node.value, (ast.Dict, ast.List, ast.Set)) or (
                    isinstance(node, ast.Assign) and isinstance(node.value, ast.Call) and (sa.call_name(node.value) or '') in FRESH_CTORS):
                names = [t.id for t in node.targets if isinstance(t, ast.Name)]
                for nm in names:
                    assigned = any(a == nm for (cn, a) in stores)
                    res.ob(R, '%s:%s.%s' % (m.name, cls.name, nm), 'class-level mutable container', assigned or (cls.name, nm) not in mutated,
                           'shadowed per instance in __init__' if assigned else 'shared by all instances, never mutated through self')
                    if not assigned and (cls.name, nm) in mutated:
                        pass    # reported in (a)


LOCK_CTORS = ('Lock', 'RLock', 'Condition', 'Semaphore', 'BoundedSemaphore', 'Event', 'Barrier')
PLAIN_METHODS = set(['append', 'extend', 'get', 'items', 'keys', 'values', 'pop', 'upper', 'lower', 'join', 'split', 'strip', 'format',
                     'startswith', 'endswith', 'replace', 'copy', 'clone', 'insert', 'remove', 'index', 'count', 'update', 'setdefault',
                     'acquire', 'release', 'match', 'group', 'groups', 'search', 'sub', 'find', 'clear', 'add', 'discard'])


def _value_calls(cg, k):
    """Calls in function ``k`` whose callee is a value (a listener, a registered function, a callback): host code may run."""
    m, f = cg.funcs[k]
    local = set(sa.params(f)) | set([sa.vararg(f), sa.kwarg(f)])
    for n in walk_no_defs(f):
        if isinstance(n, ast.Name) and isinstance(n.ctx, ast.Store):
            local.add(n.id)
    out = []
    for n in walk_no_defs(f):
        if not isinstance(n, ast.Call) or (k, id(n)) in cg.sites:
            continue
        if isinstance(n.func, ast.Name) and n.func.id in local:
            out.append(n)
        elif isinstance(n.func, ast.Attribute) and n.func.attr not in PLAIN_METHODS and isinstance(n.func.value, ast.Name) \
                and n.func.value.id in local and n.func.value.id != sa.self_name(f):
            out.append(n)
        elif isinstance(n.func, ast.Subscript):
            out.append(n)
    return out


def shared_locks(model, res, c, R, reentry=False):
    """A synchronisation object that lives on a class or a module (one object for every parser) must not be held while host code
    runs: a listener or custom function that waits for an evaluation on another parser in another thread then never returns."""
    cg = c.cg
    shared = {}     # name or attr -> (module, node)
    for m in model.modules.values():
        for nm, node in m.constants.items():
            if isinstance(node, ast.Call) and (sa.call_name(node) or '').split('.')[-1] in LOCK_CTORS:
                shared[nm] = (m, node, 'module-level %s.%s' % (m.name, nm))
        for cls in m.classes.values():
            for node in cls.body:
                if isinstance(node, ast.Assign) and isinstance(node.value, ast.Call) and \
                        (sa.call_name(node.value) or '').split('.')[-1] in LOCK_CTORS:
                    for t in node.targets:
                        if isinstance(t, ast.Name):
                            shared[t.id] = (m, node, 'class-level %s.%s' % (cls.name, t.id))
    # a lock of one's own (self.x = RLock() in a method) is not shared, but held while host code runs it still couples parsers: a
    # listener of parser A that evaluates on parser B while another thread does the reverse waits for ever (lock-order inversion)
    for m, q, f in model.all_functions():
        owner = m.enclosing_class(f)
        if owner is None:
            continue
        s_ = sa.self_name(f)
        for node in walk_no_defs(f):
            if isinstance(node, ast.Assign) and isinstance(node.value, ast.Call) and \
                    (sa.call_name(node.value) or '').split('.')[-1] in LOCK_CTORS and 'thread' in (sa.call_name(node.value) or 'threading').lower() + 'thread':
                for t in node.targets:
                    if isinstance(t, ast.Attribute) and isinstance(t.value, ast.Name) and t.value.id == s_ and t.attr not in shared:
                        shared[t.attr] = (m, node, 'per-object %s.%s' % (owner.name, t.attr))
    if reentry:
        # C01: only a lock that its holder cannot take a second time (threading.Lock, a semaphore of one) matters - a callback that
        # evaluates on the same parser while the lock is held waits for itself
        def _once_only(node):
            call = node if isinstance(node, ast.Call) else node.value
            ctor = (sa.call_name(call) or '').split('.')[-1]
            if ctor == 'Lock':
                return True
            if ctor in ('Semaphore', 'BoundedSemaphore'):
                a = call.args[0] if call.args else next((k.value for k in call.keywords if k.arg == 'value'), None)
                return a is None or (isinstance(a, ast.Constant) and a.value == 1)
            return False
        shared = dict((nm, v) for nm, v in shared.items() if _once_only(v[1]))
    res.analysed['synchronisation objects'] = sorted(v[2] for v in shared.values())
    if not shared:
        res.ob(R, 'package', 'no %slock object in the package' % ('non-reentrant ' if reentry else ''), True)
        return
    host_calling = set(k for k in cg.funcs if _value_calls(cg, k))
    for k in sorted(c.reach):
        m, f = cg.funcs[k]
        for n in walk_no_defs(f):
            if not isinstance(n, ast.With):
                continue
            held = None
            for it in n.items:
                e = it.context_expr
                nm = e.attr if isinstance(e, ast.Attribute) else (e.id if isinstance(e, ast.Name) else None)
                if nm in shared:
                    held = shared[nm]
            if held is None:
                continue
            body_calls = [x for st in n.body for x in ast.walk(st) if isinstance(x, ast.Call)]
            direct = [x for x in _value_calls(cg, k) if any(x is y for y in body_calls)]
            callees = set()
            for x in body_calls:
                callees |= cg.sites.get((k, id(x)), set())
                # running the ply parser runs the grammar actions (and through them the callbacks, listeners and functions)
                if cg.is_yacc_parse(f, x):
                    callees |= set(cg.p_roots)
            via = sorted(cg.reachable(sorted(callees)) & host_calling) if callees else []
            bad = bool(direct) or bool(via)
            res.ob(R, fmt(k), 'with %s' % held[2], not bad, 'host code runs while the lock is held' if bad else 'no host code under the lock')
            if bad:
                # name a callback rather than an arbitrary function that calls a value
                via = sorted(via, key=lambda kk: (0 if 'call_' in kk[1] or 'emit' in kk[1] else 1, kk))
                what = src(direct[0]) if direct else 'via %s' % fmt(via[0])
                if reentry:
                    why = ('the %s lock cannot be taken twice by its holder and is held while host code runs (%s): a listener or '
                           'custom function that evaluates a formula on the same parser waits for the lock its own caller holds, and '
                           'parse() never returns' % (held[2], what))
                    res.violation(R, '%s:%s:non-reentrant-lock-held-over-host-code' % k, m.where(n), why, func=k[1])
                    continue
                if held[2].startswith('per-object'):
                    why = ('the %s lock is held while host code runs (%s): a listener or custom function of this parser that evaluates on '
                           'another parser, while a second thread does the same the other way round, makes both wait for ever '
                           '(the two locks are taken in opposite order)' % (held[2], what))
                else:
                    why = ('the %s lock is one object for every parser and is held while host code runs (%s): a listener or custom '
                           'function that waits for an evaluation on another parser in another thread blocks forever, and evaluations on '
                           'different parsers serialise each other' % (held[2], what))
                res.violation(R, '%s:%s:shared-lock-held-over-host-code' % k, m.where(n), why, func=k[1])


def _at_import_time(m, node):
    """``node`` sits in a decorator of a module-level def/class or in a module-level statement outside any function."""
    for top in m.tree.body:
        if isinstance(top, (ast.FunctionDef, ast.ClassDef)):
            for d in top.decorator_list:
                if any(x is node for x in ast.walk(d)):
                    return True
            if isinstance(top, ast.ClassDef):
                for sub in top.body:
                    if isinstance(sub, ast.FunctionDef) and any(x is node for d in sub.decorator_list for x in ast.walk(d)):
                        return True
        elif any(x is node for x in ast.walk(top)) and m.enclosing_function(node) is None:
            return True
    return False


def _r3(model, res, c):
    cg = c.cg
    eff = c.effects
    # who writes the registry table
    writers = {}
    reg_attr = None
    helper_writers = set()      # private methods that register_for hands the write to - and that nothing else refers to
    for k, (m, f) in cg.funcs.items():
        if f.name == 'register_for':
            # the attribute subscripted in the closure - or in a method of the same class that register_for hands on
            # (functools.partial(self._register, names)) or calls
            scope = [f]
            cls_prefix = k[1].rsplit('.', 1)[0] + '.' if '.' in k[1] else None
            if cls_prefix:
                for n in ast.walk(f):
                    if isinstance(n, ast.Attribute) and isinstance(n.value, ast.Name) and n.value.id == sa.self_name(f):
                        k2 = (k[0], cls_prefix + n.attr)
                        if k2 in cg.funcs and cg.funcs[k2][1] is not f:
                            scope.append(cg.funcs[k2][1])
                            inside = set(id(x) for x in ast.walk(f))
                            elsewhere = [x for mm in model.modules.values() for x in ast.walk(mm.tree)
                                         if isinstance(x, ast.Attribute) and x.attr == n.attr and id(x) not in inside]
                            if n.attr.startswith('_') and not elsewhere:
                                helper_writers.add(k2)
            for n in [x for g_ in scope for x in ast.walk(g_)]:
                if isinstance(n, ast.Subscript) and isinstance(n.ctx, ast.Store) and isinstance(n.value, ast.Attribute):
                    reg_attr = n.value.attr
                if isinstance(n, ast.Call) and isinstance(n.func, ast.Attribute) and n.func.attr in ('update', 'setdefault', '__setitem__') \
                        and isinstance(n.func.value, ast.Attribute) and reg_attr is None:
                    reg_attr = n.func.value.attr
    if reg_attr is None:
        raise AnalysisError('registry write in register_for not found (anchor vanished)')
    n_w = 0
    for k, (m, f) in sorted(cg.funcs.items()):
        for n in walk_no_defs(f):
            target = None
            if isinstance(n, ast.Subscript) and isinstance(n.ctx, (ast.Store, ast.Del)) and isinstance(n.value, ast.Attribute) \
                    and n.value.attr == reg_attr:
                target = n
            if isinstance(n, ast.Call) and isinstance(n.func, ast.Attribute) and n.func.attr in ('update', 'pop', 'setdefault', 'clear', 'popitem') \
                    and isinstance(n.func.value, ast.Attribute) and n.func.value.attr == reg_attr:
                target = n
            if isinstance(n, ast.Assign) and any(isinstance(t, ast.Attribute) and t.attr == reg_attr for t in n.targets) \
                    and f.name != '__init__':
                target = n
            if target is None:
                continue
            n_w += 1
            ok = 'register_for.<locals>.' in k[1] or k in helper_writers
            res.ob('R3', fmt(k), 'write %s' % src(target), ok)
            if not ok:
                res.violation('R3', '%s:%s:registry-write' % k, m.where(target),
                              'the process-wide function registry is written outside the import-time decorator (%s): a binding made '
                              'through one parser becomes visible to all' % src(target), func=k[1])
    res.floor('writes to the registry table', n_w, 1)
    # register_for only as a decorator of module-level defs
    n_ref = 0
    for m in model.modules.values():
        deco_ids = set()
        for node in m.tree.body:
            if isinstance(node, (ast.FunctionDef, ast.ClassDef)):
                for d in node.decorator_list:
                    for x in ast.walk(d):
                        deco_ids.add(id(x))
        # statements executed once at import (module top level, also inside a module-level loop over a table)
        import_time = set()
        for node in m.tree.body:
            if not isinstance(node, (ast.FunctionDef, ast.ClassDef)):
                for x in ast.walk(node):
                    if isinstance(x, (ast.FunctionDef, ast.Lambda)):
                        break
                else:
                    for x in ast.walk(node):
                        import_time.add(id(x))
        for n in ast.walk(m.tree):
            if isinstance(n, ast.Attribute) and n.attr == 'register_for':
                n_ref += 1
                ok = id(n) in deco_ids or id(n) in import_time
                if not ok:
                    # a sibling method of the dispatcher that wraps and then registers (register_numeric): fine when that method is itself
                    # used only as a module-level decorator / import-time statement
                    fn_ = m.enclosing_function(n)
                    top_ = fn_
                    while top_ is not None and m.enclosing_function(top_) is not None:
                        top_ = m.enclosing_function(top_)
                    if top_ is not None and top_.name in model.registering_methods() and m.enclosing_class(top_) is not None:
                        uses = [(mm, x) for mm in model.modules.values() for x in ast.walk(mm.tree)
                                if isinstance(x, ast.Attribute) and x.attr == top_.name]
                        ok = bool(uses) and all(_at_import_time(mm, x) for mm, x in uses)
                if not ok:
                    res.ob('R3', '%s:%s' % (m.name, m.qualname_of(n)), 'reference %s' % src(m.parent(n) or n), False)
                    res.violation('R3', '%s:%s:register_for-at-runtime' % (m.name, m.qualname_of(n)), m.where(n),
                                  'register_for is used inside a function body (not as a module-level decorator or import-time statement): the shared registry can change after import',
                                  func=m.qualname_of(n))
    # ... and the modules that carry those decorators are imported when the package is imported, not by a function at run time
    registering = sorted(mm.name for mm in model.modules.values()
                         if any(isinstance(n_, ast.Attribute) and n_.attr == 'register_for' for n_ in ast.walk(mm.tree)) and
                         not any(isinstance(x, ast.FunctionDef) and x.name == 'register_for' for x in ast.walk(mm.tree)))
    for rname in registering:
        leaf = rname.split('.')[-1]
        top, lazy = [], []
        for mm in model.modules.values():
            for st in ast.walk(mm.tree):
                names = []
                if isinstance(st, ast.ImportFrom):
                    names = [a.name for a in st.names] + ([st.module.split('.')[-1]] if st.module else [])
                elif isinstance(st, ast.Import):
                    names = [a.name.split('.')[-1] for a in st.names]
                elif isinstance(st, ast.Call) and (sa.call_name(st) or '').endswith('import_module') or \
                        isinstance(st, ast.Call) and sa.call_name(st) == '__import__':
                    names = [a.value.split('.')[-1] for a in st.args if isinstance(a, ast.Constant) and isinstance(a.value, str)]
                if leaf not in names or mm.name == rname:
                    continue
                fn_ = mm.enclosing_function(st)
                (lazy if fn_ is not None else top).append((mm, st))
        if lazy and not top:
            mm, st = lazy[0]
            res.ob('R3', rname, 'the registering module is imported at package import time', False, src(st)[:60])
            res.violation('R3', '%s:lazy-registration' % rname, mm.where(st),
                          'the module %s registers its functions when it is imported, and the only import of it is inside %s: the shared registry '
                          'fills during the first evaluation(s) - a second thread evaluating meanwhile finds some functions and not others '
                          '(#NAME? for a built-in)' % (rname, mm.qualname_of(st)), func=mm.qualname_of(st))
        elif top:
            res.ob('R3', rname, 'the registering module is imported at package import time', True)
    res.ob('R3', 'package', 'all %d references to register_for are module-level decorators' % n_ref, True)
    res.floor('register_for decorator uses', n_ref, 100)


def _r4(model, res, c):
    n = 0
    for m in model.modules.values():
        for node in ast.walk(m.tree):
            if isinstance(node, ast.Attribute):
                r = model.resolve_attr_chain(m, node)
                if r and r[0] == 'extattr':
                    full = r[1] + '.' + r[2]
                    if full.startswith('ply.'):
                        n += 1
                        bad = full in PLY_GLOBALS
                        res.ob('R4', '%s:%s' % (m.name, m.qualname_of(node)), full, not bad)
                        if bad:
                            res.violation('R4', '%s:%s:ply-global:%s' % (m.name, m.qualname_of(node), full), m.where(node),
                                          'uses ply\'s module-global %s, which is shared by every parser in the process' % full,
                                          func=m.qualname_of(node))
    res.floor('references to ply attributes', n, 3)
