# -*- coding: utf-8 -*-
"""C04 - precedence, associativity and parentheses determine expression structure."""
import ast
import itertools

from ..model import AnalysisError, src
from ..paths import walk_no_defs
from .. import sa, ctx as ctxmod, rx, abshelp as H

ARITH = {'MULT': 4, 'DIV': 4, 'PLUS': 3, 'MINUS': 3}
COMPARISONS = ['GREATER', 'LESS', 'GREATEREQ', 'LESSEQ', 'EQUAL', 'NOTEQUAL']
CONCAT = 'AMP'
UNARY = 'UMINUS'
BINARY = ['PLUS', 'MINUS', 'MULT', 'DIV', 'AMP'] + COMPARISONS
LEXEME_ORACLE = {'PLUS': '+', 'MINUS': '-', 'MULT': '*', 'DIV': '/', 'AMP': '&', 'GREATER': '>', 'LESS': '<',
                 'GREATEREQ': '>=', 'LESSEQ': '<=', 'EQUAL': '=', 'NOTEQUAL': '<>', 'LPAREN': '(', 'RPAREN': ')'}
OPERATOR_ORACLE = {'+': 'add', '-': 'sub', '*': 'mul', '/': 'truediv', '>': 'gt', '<': 'lt', '>=': 'ge', '<=': 'le',
                   '=': 'eq', '<>': 'ne'}


def oracle_rel(op1, op2):
    """What the property statement says about a completed ``E op1 E`` followed by ``op2``:
    'reduce' (op1 binds at least as tightly / equal level, left to right), 'shift' (op2 binds tighter), None (left open)."""
    def lvl(op):
        if op in ARITH:
            return ARITH[op]
        if op in COMPARISONS:
            return 1
        return None
    if op1 == UNARY:
        return 'reduce'                         # unary minus binds tightest
    l1, l2 = lvl(op1), lvl(op2)
    if op1 == CONCAT and op2 == CONCAT:
        return 'reduce'                         # equal level groups left to right
    if op1 == CONCAT and op2 in COMPARISONS:
        return 'reduce'
    if op1 in COMPARISONS and op2 == CONCAT:
        return 'shift'
    if op1 == CONCAT or op2 == CONCAT:
        return None                             # & versus arithmetic: not stated
    if op1 in COMPARISONS and op2 in COMPARISONS:
        return None                             # one comparison per parenthesis-free region
    if l1 is None or l2 is None:
        return None
    return 'reduce' if l1 >= l2 else 'shift'


def run(model, res, tier):
    c = ctxmod.get(model)
    g = c.grammar
    res.explanation = (
        'The grammar is data. R1 checks the precedence literal against the order stated in the property. R2 rebuilds the LALR(1) '
        'automaton from the ast-extracted productions/precedence (ply used as a table generator on extracted data) and checks, in every '
        'state holding a completed operator item and for every operator look-ahead, that the action is the reduce/shift the statement '
        'demands, is uniform across states and was not decided by ply\'s default rule. R3 production shapes, R4 operand roles in the '
        'reduce actions (left/right reach the operator application in that order; parentheses are the identity; unary minus negates), '
        'R5 each operator token denotes one lexeme which maps to the right Python operator, R6 longer lexemes are tried first, R7 a '
        'checked-in parse table with a matching signature equals the generated one. Thorough adds R8: an LR driver parses every token '
        'string operand (op operand){1..3} with unary minus and parentheses and compares the tree with precedence climbing. The '
        'numeric value of the tree is not decided here.')
    res.rule('R1', 'precedence table satisfies the stated order; binary rows are left-associative')
    res.rule('R2', 'LALR action matrix on completed operator items agrees with the statement in every state')
    res.rule('R3', 'one E : E op E production per operator, no %prec; unary has %prec of the top row; E : ( E ) exists')
    res.rule('R4', 'reduce actions pass (operator, left, right) in their roles; paren action is identity; unary action negates')
    res.rule('R5', 'operator token <-> lexeme <-> Python operator agree')
    res.rule('R6', 'a lexeme that is a proper prefix of another is tried later')
    res.rule('R7', 'checked-in parse table equals the table generated from the source')
    res.rule('R8', 'thorough: LR driver trees equal precedence-climbing trees')
    res.rule('R10', 'the token rules of the operator and parenthesis tokens only hand the token on: no condition, no raise, no state - every lexeme of the formula reaches the parser whatever came before it')
    res.rule('R11', 'a comparison node evaluates to the relation of the defined order on its two operands (the exact value of the tree; '
             'shared with C07.R1/R2)')
    res.rule('R12', 'the tree is built by the grammar from the formula as written: no rewriting pass in front of the lexer (shared with C05.R9), and '
             'every path of parse() for a non-empty formula hands it to the grammar parser (no guard that answers for the grammar)')
    res.rule('R13', 'the leaves and operator applications of the tree have their exact values: numeric literals convert exactly (C05.R5), text operands '
             'act as the number they spell - zero included - or give #VALUE! (C06.R4, C06.R9); & joins the text of its operands verbatim (C06.R7)')
    res.rule('R9', 'the parse consumes a private token stream: the tree is built from all tokens of the formula even when a callback evaluates another formula (shared with C03.R1)')
    res.assumptions += ['A3 ply 3.11: function tokens are tried in definition order; yacc resolves S/R conflicts by the precedence table']
    res.trusted += ['ply.yacc Grammar/LRGeneratedTable as table generator', 'CPython ast', 're._parser']
    H.safely(res, 'R1', 'r1', _r1, model, res, g)
    H.safely(res, 'R3', 'r3', _r3, model, res, g)
    if any(f_.rule == 'R3' for f_ in res.findings):
        # without one E : E op E production per operator the automaton has no completed operator items to examine
        res.notes.append('C04.R2 not evaluated: the production shapes it is defined on are violated (R3)')
    else:
        _r2(model, res, g)
    H.safely(res, 'R4', 'r4', _r4, model, res, c, g)
    H.safely(res, 'R5', 'r5', _r5, model, res, c, g)
    H.safely(res, 'R6', 'r6', _r6, model, res, g)
    H.safely(res, 'R7', 'r7', _r7, model, res, g)
    from . import c03
    c03._r1(model, res, c, 'R9')
    from . import c07
    H.borrow(res, 'R11', 'comparison kernels', lambda tmp: c07.kernel_rules(model, tmp, c))
    from . import c05
    H.borrow(res, 'R12', 'text hand-over', lambda tmp: c05._r9(model, tmp, c))
    H.safely(res, 'R12', 'parse() always parses', _r12, model, res, c)
    # the exact evaluation of leaves and arithmetic nodes: borrowed from the properties that own them
    from . import c06
    from .. import roles as _roles
    from .c01 import error_singletons as _es
    H.borrow(res, 'R13', 'number literals', lambda tmp: c05._r5_r6(model, tmp, c, g))
    try:
        _opq = H.date_opaque(model)
        _acts = _roles.binary_actions(g)
        _em, _singles = _es(model)
        _E = dict((msg, n) for n, msg in _singles.items())
        H.borrow(res, 'R13', 'text to number', lambda tmp: c06._to_number(model, tmp, _opq))
        H.borrow(res, 'R13', 'text operands', lambda tmp: c06._text_and_zero(model, tmp, c, g, _acts, _opq, _E))
        # ... and of & nodes: the text of an operand is the operand's text (an intermediate result "00" stays "00": 0&0&1 is "001")
        H.borrow(res, 'R13', 'concatenation operands', lambda tmp: c06._concat(model, tmp, c, g, _acts, _opq))
    except AnalysisError as e:
        res.notes.append('C04.R13: undecided (%s)' % e)
    H.safely(res, 'R10', 'r10', _r10, model, res, g)
    if tier == 'thorough':
        _r8(model, res, g)


def _r10(model, res, g):
    n = 0
    for tok in BINARY + ['LPAREN', 'RPAREN']:
        t = g.lex_token(tok)
        if t is None:
            continue
        n += 1
        if not t.is_func or not isinstance(t.node, ast.FunctionDef):
            res.ob('R10', 'lexer:t_%s' % tok, 'string rule', True)
            continue
        f = t.node
        tp = sa.params(f)[0] if sa.params(f) else None
        body = [st for st in f.body if not (isinstance(st, ast.Expr) and isinstance(st.value, ast.Constant) and isinstance(st.value.value, str))]
        extra = [st for st in body if not (isinstance(st, ast.Return) and isinstance(st.value, ast.Name) and st.value.id == tp)]
        res.ob('R10', 'lexer:t_%s' % tok, 'token rule is `return t`', not extra, '; '.join(src(x)[:50] for x in extra))
        if extra:
            res.violation('R10', 'lexer:t_%s:not-verbatim' % tok, g.lexer_module.where(extra[0]),
                          'the token rule of %s does more than return its token (%s): an operator or parenthesis can be dropped, rewritten or '
                          'rejected depending on what was lexed before, so the expression structure no longer follows from precedence and '
                          'parentheses alone' % (tok, src(extra[0])[:80]), func='t_' + tok)
    res.floor('operator and parenthesis tokens examined', n, 10)


def _levels(g):
    lv, assoc = {}, {}
    for i, row in enumerate(g.precedence):
        for t in row[1:]:
            lv[t] = i + 1
            assoc[t] = row[0]
    return lv, assoc


def _r1(model, res, g):
    lv, assoc = _levels(g)
    site = '%s:precedence' % g.prec_module.name
    where = g.prec_module.where(g.prec_node)
    missing = [t for t in BINARY + [UNARY] if t not in lv]
    res.ob('R1', site, 'all operator tokens have a precedence row', not missing, missing)
    if missing:
        res.violation('R1', site + ':missing-row', where, 'operator token(s) %s have no precedence: conflicts are resolved by ply\'s '
                      'default (shift), i.e. right-to-left grouping' % missing)
        return
    n = 0
    for a, b in itertools.product(BINARY + [UNARY], BINARY):
        want = oracle_rel(a, b)
        if want is None:
            continue
        n += 1
        if want == 'reduce':
            ok = lv[a] > lv[b] or (lv[a] == lv[b] and assoc[b] == 'left')
        else:
            ok = lv[a] < lv[b] or (lv[a] == lv[b] and assoc[b] == 'right')
        # 'reduce' with equal levels in the statement means the same level, not merely >=
        if want == 'reduce' and a != UNARY and oracle_rel(b, a) == 'reduce':
            ok = ok and lv[a] == lv[b]
        res.ob('R1', site, {'completed': a, 'lookahead': b, 'statement': want}, ok, 'levels %s=%d %s=%d' % (a, lv[a], b, lv[b]))
        if not ok:
            res.violation('R1', site + ':order:%s-%s' % (a, b), where,
                          'precedence table: after "E %s E" with look-ahead %s the statement requires %s (%s), but the table has '
                          'level(%s)=%d %s, level(%s)=%d %s' % (a, b, want, _why(a, b), a, lv[a], assoc[a], b, lv[b], assoc[b]),
                          case='%s vs %s' % (a, b))
    res.floor('ordered operator pairs checked against the table', n, 80)
    for t in BINARY:
        ok = assoc[t] == 'left'
        res.ob('R1', site, '%s is left-associative' % t, ok, assoc[t])
        if not ok:
            res.violation('R1', site + ':assoc:%s' % t, where,
                          'operator %s is declared %s: operators of equal level no longer group left to right' % (t, assoc[t]))


def _why(a, b):
    if a == UNARY:
        return 'unary minus binds tightest'
    if oracle_rel(b, a) == 'reduce' and oracle_rel(a, b) == 'reduce':
        return 'equal level groups left to right'
    return 'the statement orders these levels'


def _operator_items(g):
    """(state, production index, operator token or UMINUS) for completed operator items."""
    out = []
    for st, I in enumerate(g.items):
        for item in I:
            if item.number <= 0 or item.lr_index + 1 != item.len:
                continue
            p = g.g.Productions[item.number]
            syms = list(p.prod)
            if len(syms) == 3 and syms[0] == syms[2] == p.name and syms[1] in BINARY:
                out.append((st, item.number, syms[1]))
            elif len(syms) == 2 and syms[0] == 'MINUS' and syms[1] == p.name:
                out.append((st, item.number, UNARY))
    return out


def _r2(model, res, g):
    items = _operator_items(g)
    res.floor('LALR states with a completed operator item', len(items), 12)
    site = 'LALR'
    uniform = {}
    n = 0
    for st, pnum, op1 in items:
        for op2 in BINARY:
            act = g.action[st].get(op2)
            kind = None
            if act is None:
                kind = 'error'
            elif act < 0:
                kind = 'reduce' if -act == pnum else 'reduce-other'
            else:
                kind = 'shift'
            want = oracle_rel(op1, op2)
            n += 1
            uniform.setdefault((op1, op2), set()).add(kind)
            ok = want is None or kind == want
            res.ob('R2', site, {'state': st, 'completed': op1, 'lookahead': op2, 'action': kind, 'statement': want}, ok)
            if not ok:
                res.violation('R2', 'LALR:%s-then-%s' % (op1, op2), g.prec_module.where(g.prec_node),
                              'in the LALR automaton, after "E %s E" with look-ahead %s the parser does %s; the statement requires %s (%s): '
                              '%s' % (op1 if op1 != UNARY else '- (unary)', op2, kind, want, _why(op1, op2), _example(op1, op2, kind)),
                              case={'state': st, 'completed': op1, 'lookahead': op2})
    res.floor('action cells examined', n, 132)
    for (a, b), kinds in sorted(uniform.items()):
        ok = len(kinds) == 1
        res.ob('R2', site, 'uniform action for (%s, %s)' % (a, b), ok, sorted(kinds))
        if not ok:
            res.violation('R2', 'LALR:non-uniform:%s-%s' % (a, b), g.prec_module.where(g.prec_node),
                          'the action after "E %s E" on %s differs between states (%s): the grouping depends on the context' % (a, b, sorted(kinds)))
    # conflicts involving operator productions must be resolved by precedence, not by default
    opnums = set(p for _, p, _ in items)
    for st, tok, resolution in g.sr_conflicts:
        involved = tok in BINARY and any(s == st for s, _, _ in items)
        if involved:
            res.ob('R2', site, 'S/R conflict in state %d on %s resolved by ply default (%s)' % (st, tok, resolution), False)
            res.violation('R2', 'LALR:default-resolution:%s' % tok, g.prec_module.where(g.prec_node),
                          'a shift/reduce conflict on %s in a state with a completed operator item was resolved by ply\'s default rule '
                          '(%s) rather than by the precedence table' % (tok, resolution))
    for st, rule, rej in g.rr_conflicts:
        bad = rule.number in opnums or rej.number in opnums
        res.ob('R2', site, 'R/R conflict in state %d: %s vs %s' % (st, rule, rej), not bad)
        if bad:
            res.violation('R2', 'LALR:reduce-reduce:%s' % rule, g.prec_module.where(g.prec_node),
                          'a reduce/reduce conflict involves an operator production (%s vs %s)' % (rule, rej))


def _example(op1, op2, kind):
    sym = dict((k, v) for k, v in LEXEME_ORACLE.items())
    a = sym.get(op1, '-')
    b = sym.get(op2, '?')
    if op1 == UNARY:
        return 'e.g. "-x %s y" is read as -(x %s y)' % (b, b)
    if kind == 'shift':
        return 'e.g. "x %s y %s z" is read as x %s (y %s z)' % (a, b, a, b)
    return 'e.g. "x %s y %s z" is read as (x %s y) %s z' % (a, b, a, b)


def _r3(model, res, g):
    E = None
    for p in g.productions:
        if len(p.syms) == 3 and p.syms[1] in BINARY and p.syms[0] == p.syms[2] == p.name:
            E = p.name
    if E is None:
        raise AnalysisError('no binary operator production found (anchor vanished)')
    for op in BINARY:
        ps = [p for p in g.productions if p.syms == [E, op, E] and p.name == E]
        ok = len(ps) == 1 and ps[0].prec is None
        res.ob('R3', 'grammar', '%s : %s %s %s' % (E, E, op, E), ok, 'count=%d prec=%s' % (len(ps), [p.prec for p in ps]))
        if not ok:
            where = g.gm.where(ps[0].func) if ps else g.gm.where(g.gcls)
            res.violation('R3', 'grammar:binary-production:%s' % op, where,
                          'expected exactly one production %s : %s %s %s without %%prec (found %d, %%prec=%s)'
                          % (E, E, op, E, len(ps), [p.prec for p in ps]))
    un = [p for p in g.productions if p.syms == ['MINUS', E] and p.name == E]
    lv, assoc = _levels(g)
    top = max(lv.values()) if lv else 0
    ok = len(un) == 1 and un[0].prec is not None and lv.get(un[0].prec) is not None and \
        all(lv[un[0].prec] > lv[t] for t in BINARY if t in lv)
    res.ob('R3', 'grammar', '%s : MINUS %s %%prec <tightest>' % (E, E), ok, [(p.prec, lv.get(p.prec)) for p in un])
    if not ok:
        res.violation('R3', 'grammar:unary-production', g.gm.where(un[0].func) if un else g.gm.where(g.gcls),
                      'the unary-minus production must carry %%prec of a level above every binary operator (found %s)'
                      % [(p.prec, lv.get(p.prec)) for p in un])
    # any other prefix operator (a unary plus ...) binds as tight: its production takes the precedence of %prec, else of its token
    for p in g.productions:
        if p.name == E and len(p.syms) == 2 and p.syms[1] == E and p.syms[0] in g.tokens and p.syms != ['MINUS', E]:
            level = lv.get(p.prec) if p.prec is not None else lv.get(p.syms[0])
            okp = level is not None and all(level > lv[t] for t in BINARY if t in lv)
            res.ob('R3', 'grammar', '%s : %s %s binds above every binary operator' % (E, p.syms[0], E), okp, 'level %s' % level)
            if not okp:
                res.violation('R3', 'grammar:prefix-production:%s' % p.syms[0], g.gm.where(p.func),
                              'the prefix production %s : %s %s has the precedence of %s (level %s), not one above every binary operator: after '
                              '* or / the operand of the prefix operator swallows what follows (8/+4*2 is read as 8/(+(4*2)))'
                              % (E, p.syms[0], E, p.prec or 'its token ' + p.syms[0], level), func=p.funcname)
    par = [p for p in g.productions if p.syms == ['LPAREN', E, 'RPAREN'] and p.name == E]
    res.ob('R3', 'grammar', '%s : LPAREN %s RPAREN' % (E, E), len(par) == 1)
    if len(par) != 1:
        res.violation('R3', 'grammar:paren-production', g.gm.where(g.gcls), 'expected exactly one production %s : LPAREN %s RPAREN' % (E, E))
    g.E = E


def _p_index(node, pname):
    """k if node is ``p[k]`` else None."""
    if isinstance(node, ast.Subscript) and isinstance(node.value, ast.Name) and node.value.id == pname and \
            isinstance(node.slice, ast.Constant) and isinstance(node.slice.value, int):
        return node.slice.value
    return None


def operator_roles(model, m, f):
    """For an operator entry point: which parameters reach the final ``TABLE[op](A, B)`` application as A and B.
    Returns (op_param, left_param, right_param) or None."""
    ps = sa.params(f)
    for n in walk_no_defs(f):
        if isinstance(n, ast.Call) and isinstance(n.func, ast.Subscript) and len(n.args) == 2 and isinstance(n.func.slice, ast.Name):
            opn = n.func.slice.id
            roles = []
            for a in n.args:
                names = [x.id for x in ast.walk(a) if isinstance(x, ast.Name) and x.id in ps]
                roles.append(names[0] if len(set(names)) == 1 else None)
            if opn in ps and roles[0] and roles[1] and roles[0] != roles[1]:
                # each role variable is only ever reassigned from itself
                okflow = True
                for role, other in ((roles[0], roles[1]), (roles[1], roles[0])):
                    for stmt, val in sa.assignments_to(f, role):
                        if val is None:
                            # tuple unpacking: lval, ltype = value_and_type(lval)
                            if isinstance(stmt, ast.Assign):
                                val = stmt.value
                        if val is not None and other in [x.id for x in ast.walk(val) if isinstance(x, ast.Name)]:
                            okflow = False
                if okflow:
                    return opn, roles[0], roles[1]
    return None


def _names_of(v):
    from ..absint import Atom, Sym
    if isinstance(v, Sym):
        return v.name
    if isinstance(v, Atom):
        return (v.op,) + tuple(_names_of(a) for a in v.args)
    return repr(v)


def _operand_order(v):
    """Order in which the operand symbols L and R occur in a result expression."""
    from ..absint import Atom, Sym
    out = []

    def go(x):
        if isinstance(x, Sym) and x.name in ('a', 'b'):
            out.append({'a': 'L', 'b': 'R'}[x.name])
        elif isinstance(x, Atom):
            for a in x.args:
                go(a)
    go(v)
    return out


def _interp_action(model, g, m, f, items):
    """Abstractly run one reduce action on the production value list ``items``; returns outcomes (value = p[0])."""
    from ..absint import Interp, Func, ListV, Obj, ClassV, Const
    from .. import abshelp as H
    it = Interp(model, opaque=H.date_opaque(model))

    def call(interp, st):
        pl = ListV([Const(None)] + items(), 'list')
        interp.call(Func(m, f), [Obj(ClassV(g.gm, g.gcls), {}), pl])
        return pl.items[0]
    return it.run(call)


def _unary_interp(model, res, g, m, f, p, E, site):
    """( E ) must be the identity and -E the negation, decided by running the action; None = not interpretable."""
    from ..absint import Sym, Const, Atom, Unmodelled
    from .. import abshelp as H
    paren = len(p.syms) == 3
    results = []
    for tag in ('int', 'float', 'str') if paren else ('int', 'float'):
        mk = (lambda: [Const('('), H.mk(tag, 'a'), Const(')')]) if paren else (lambda: [Const('-'), H.mk(tag, 'a')])
        try:
            outs = _interp_action(model, g, m, f, mk)
        except Unmodelled:
            return None
        except Exception:
            return None
        if not outs or any(o.imprecise for o in outs):
            return None
        for o in outs:
            if paren:
                ok = o.kind == 'return' and isinstance(o.value, Sym) and o.value.name == 'a'
            else:
                ok = o.kind == 'return' and isinstance(o.value, Atom) and o.value.op == 'neg' and len(o.value.args) == 1 \
                    and isinstance(o.value.args[0], Sym) and o.value.args[0].name == 'a'
            results.append((tag, ok, '%s %r' % (o.kind, o.value)))
    bad = [r for r in results if not r[1]]
    what = 'interpreted: ( a ) is a' if paren else 'interpreted: - a is neg(a)'
    res.ob('R4', site, what, not bad, '; '.join(r[2] for r in (bad or results))[:200])
    if bad:
        if paren:
            res.violation('R4', site + ':paren-not-identity', m.where(f),
                          'the action for ( E ) is not the identity: for an operand a of type %s it gives %s: redundant parentheses change the value'
                          % (bad[0][0], bad[0][2]), func=f.name)
        else:
            res.violation('R4', site + ':unary-action', m.where(f),
                          'the action for unary minus does not compute the negation: for an operand a of type %s it gives %s' % (bad[0][0], bad[0][2]),
                          func=f.name)
    return not bad


def _r4_interp(model, res, c, g, E):
    """Operand roles decided on the reduce actions themselves: each binary production is run on (L, lexeme, R) with integer
    symbols; the value must be the property's operator applied to (L, R) in that order.  Returns the set of action function names
    decided this way (the syntactic recogniser below handles the rest)."""
    from ..absint import Sym, Const, Atom, Err, Unmodelled
    from .. import roles
    from . import c07
    decided = set()
    n = 0
    try:
        lex = roles.operator_lexemes(g, [t for t in BINARY])
    except AnalysisError:
        return decided, 0
    cmp_cell = {}
    cmp_site = None
    for p in g.productions:
        if not (len(p.syms) == 3 and p.syms[1] in BINARY and p.syms[0] == p.syms[2] == E and p.name == E):
            continue
        m, f = g.action_funcs[p.funcname]
        tok = p.syms[1]
        site = '%s:%s.%s' % (m.name, g.gcls.name, p.funcname)
        try:
            outs = _interp_action(model, g, m, f, lambda: [Sym('int', 'a'), Const(lex[tok]), Sym('int', 'b')])
        except Unmodelled as e:
            res.notes.append('C04.R4: action %s not interpretable (%s); syntactic recogniser used' % (p.funcname, e))
            continue
        except Exception as e:
            res.notes.append('C04.R4: action %s: interpreter failed (%r); syntactic recogniser used' % (p.funcname, e))
            continue
        if any(o.imprecise for o in outs) or not outs:
            res.notes.append('C04.R4: action %s depends on an unmodelled construct; syntactic recogniser used' % p.funcname)
            continue
        n += 1
        decided.add((p.funcname, tok))
        if tok in COMPARISONS:
            cmp_cell.setdefault((m, f, site), {})[c07.OPS[tok]] = outs
            continue
        want_op = 'concat' if tok == CONCAT else OPERATOR_ORACLE[LEXEME_ORACLE[tok]]
        ok, why = True, ''
        for o in outs:
            if o.kind != 'return':
                ok, why = False, 'raises %r' % (o.value,)
                break
            v = o.value
            if isinstance(v, Err):
                continue                    # e.g. #DIV/0! on a trace where R is zero
            order = _operand_order(v)
            if not (isinstance(v, Atom) and v.op == want_op):
                ok, why = False, 'value %r is not %s applied to the operands' % (v, want_op)
            elif tok in ('PLUS', 'MULT'):
                ok = sorted(order) == ['L', 'R']
                why = 'operands %s' % order
            else:
                ok = order == ['L', 'R']
                why = 'operands reach %s in order %s' % (want_op, order)
            if not ok:
                break
        res.ob('R4', site, 'interpreted: %s L %s R' % (E, lex[tok]), ok, why or 'value is %s(L, R)' % want_op)
        if not ok:
            res.violation('R4', site + ':operand-roles:%s' % tok, m.where(f),
                          'the reduce action for "%s %s %s" does not apply %s to (left operand, right operand) in that order: %s'
                          % (E, lex[tok], E, want_op, why), case={'operator': lex[tok]}, func=p.funcname)
    # comparisons: truth in the three worlds L<R, L=R, L>R (same evaluation as C07, integer operands only)
    for (m, f, site), cell in cmp_cell.items():
        from ..report import Result
        tmp = Result(res.prop)
        c07._check_cell(tmp, {'logic': (m, f)}, 'int', 'int', cell)
        for o in tmp.obligations:
            res.ob('R4', site, o['case'], o['verdict'] == 'discharged', o.get('detail'))
        for fd in tmp.findings:
            res.violation('R4', site + ':operand-roles:' + fd.construct.split(':')[-1], fd.where,
                          'the reduce action does not compare (left operand, right operand) in those roles: ' + fd.why,
                          case=fd.case, func=f.name)
    return decided, n


def _r4(model, res, c, g):
    E = getattr(g, 'E', 'expression')
    by_func = {}
    for p in g.productions:
        by_func.setdefault(p.funcname, []).append(p)
    decided, n_bin = _r4_interp(model, res, c, g, E)
    res.analysed['binary productions decided by interpretation'] = n_bin
    for fname, prods in sorted(by_func.items()):
        m, f = g.action_funcs[fname]
        ps = sa.params(f)
        if len(ps) < 2:
            continue
        pn = ps[1]
        site = '%s:%s.%s' % (m.name, g.gcls.name, fname)
        binops = [p for p in prods if len(p.syms) == 3 and p.syms[1] in BINARY and p.syms[0] == p.syms[2] == E
                  and (fname, p.syms[1]) not in decided]
        if binops:
            # every call that receives p[1] and p[3] must put them in (left, right) roles
            calls = [n for n in walk_no_defs(f) if isinstance(n, ast.Call)]
            for call in calls:
                idx = [_p_index(a, pn) for a in call.args]
                if 1 in idx and 3 in idx:
                    n_bin += 1
                    r = model.resolve_attr_chain(m, call.func) if isinstance(call.func, (ast.Name, ast.Attribute)) else None
                    ok, why = False, 'callee not resolved'
                    if r and r[0] == 'func':
                        roles = operator_roles(model, r[1], r[2])
                        cps = sa.params(r[2])
                        if roles is None:
                            # concatenation-style helper: left operand must come first textually in the result expression
                            ok, why = _concat_roles(r[1], r[2], idx)
                        else:
                            opn, lp, rp = roles
                            pos = dict((cps[i], idx[i]) for i in range(min(len(cps), len(idx))))
                            ok = pos.get(lp) == 1 and pos.get(rp) == 3 and (pos.get(opn) == 2)
                            why = 'callee applies TABLE[%s](%s, %s); call passes %s' % (opn, lp, rp, pos)
                    res.ob('R4', site, 'operand roles in %s' % src(call), ok, why)
                    if not ok:
                        res.violation('R4', site + ':operand-roles:%s' % sa.call_name(call), m.where(call),
                                      'the reduce action does not pass (operator lexeme p[2], left operand p[1], right operand p[3]) in those '
                                      'roles to the operator application: %s' % why, case=src(call), func=fname)
            # inline concatenation  str(p[1]) + str(p[3])
            for n in walk_no_defs(f):
                if isinstance(n, ast.BinOp) and isinstance(n.op, ast.Add):
                    li = [_p_index(x, pn) for x in ast.walk(n.left)]
                    ri = [_p_index(x, pn) for x in ast.walk(n.right)]
                    if (1 in li or 3 in li) and (1 in ri or 3 in ri):
                        n_bin += 1
                        ok = 1 in li and 3 in ri and 3 not in li and 1 not in ri
                        res.ob('R4', site, 'operand order in %s' % src(n), ok)
                        if not ok:
                            res.violation('R4', site + ':concat-order', m.where(n),
                                          'concatenation joins the operands in the wrong order (%s)' % src(n), func=fname)
        for p in prods:
            if p.syms in (['LPAREN', E, 'RPAREN'], ['MINUS', E]):
                verdict = _unary_interp(model, res, g, m, f, p, E, site)
                if verdict is not None:
                    continue
            if p.syms == ['LPAREN', E, 'RPAREN']:
                stores = [n for n in walk_no_defs(f) if isinstance(n, ast.Assign) and any(_p_index(t, pn) == 0 for t in n.targets)]
                other = [n for n in walk_no_defs(f) if isinstance(n, (ast.AugAssign,)) and _p_index(n.target, pn) == 0]
                ok = len(stores) >= 1 and all(_p_index(s.value, pn) == 2 for s in stores) and not other
                res.ob('R4', site, 'paren action is p[0] = p[2]', ok, [src(s) for s in stores + other])
                if not ok:
                    res.violation('R4', site + ':paren-not-identity', m.where(f),
                                  'the action for ( E ) is not the identity p[0] = p[2] (%s): redundant parentheses change the value'
                                  % '; '.join(src(s) for s in stores + other), func=fname)
            if p.syms == ['MINUS', E]:
                stores = [n for n in walk_no_defs(f) if isinstance(n, ast.Assign) and any(_p_index(t, pn) == 0 for t in n.targets)]
                neg = [s for s in stores if isinstance(s.value, ast.UnaryOp) and isinstance(s.value.op, ast.USub)
                       and _p_index(s.value.operand, pn) == 2]
                passthrough = [s for s in stores if _p_index(s.value, pn) == 2]
                viacall = [s for s in stores if isinstance(s.value, ast.Call) and any(_p_index(a, pn) == 2 for a in s.value.args)]
                ok = (len(neg) >= 1 or len(viacall) >= 1) and len(neg) + len(passthrough) + len(viacall) == len(stores)
                # a pass-through is only legitimate under an "is an error" guard (C08)
                for s in passthrough:
                    par = m.parent(s)
                    guarded = isinstance(par, ast.If) and 'XLError' in src(par.test) and s in par.body
                    ok = ok and guarded
                res.ob('R4', site, 'unary action negates p[2]', ok, [src(s) for s in stores])
                if not ok:
                    res.violation('R4', site + ':unary-action', m.where(f),
                                  'the action for unary minus does not compute -p[2] (stores: %s)' % '; '.join(src(s) for s in stores),
                                  func=fname)
    res.floor('operator applications in reduce actions', n_bin, 2)


def _concat_roles(m, f, idx):
    """Helper that joins text: the parameter receiving p[1] must precede the one receiving p[3] in every ``a + b``."""
    ps = sa.params(f)
    pos = dict((ps[i], idx[i]) for i in range(min(len(ps), len(idx))))
    lp = [k for k, v in pos.items() if v == 1]
    rp = [k for k, v in pos.items() if v == 3]
    if not lp or not rp:
        return False, 'operands not passed'
    found = False
    for n in walk_no_defs(f):
        if isinstance(n, ast.BinOp) and isinstance(n.op, ast.Add):
            ln = [x.id for x in ast.walk(n.left) if isinstance(x, ast.Name)]
            rn = [x.id for x in ast.walk(n.right) if isinstance(x, ast.Name)]
            if (lp[0] in ln or rp[0] in ln) and (lp[0] in rn or rp[0] in rn):
                found = True
                if not (lp[0] in ln and rp[0] in rn and rp[0] not in ln and lp[0] not in rn):
                    return False, 'joins %s' % src(n)
    return (True, 'left operand precedes right operand in the join') if found else (False, 'no operator application found in callee')


def operator_table(model):
    """The lexeme -> operator.<fn> table (found by its value shape)."""
    for m in model.modules.values():
        for name, node in m.constants.items():
            if isinstance(node, ast.Dict) and node.keys and all(isinstance(k, ast.Constant) and isinstance(k.value, str) for k in node.keys) \
                    and all(isinstance(v, ast.Attribute) and isinstance(v.value, ast.Name) and v.value.id == 'operator' for v in node.values):
                return m, name, node
    return None


def _r5(model, res, c, g):
    ot = operator_table(model)
    if ot is None:
        # no lexeme -> operator.<fn> literal: which Python operation a lexeme denotes is decided by R4, which runs every binary
        # reduce action on (a, lexeme, b); here only the lexemes of the tokens remain to be checked
        res.notes.append('C04.R5: no lexeme->operator table literal; the lexeme->operation mapping is decided by the runs of R4')
        m, name, node, table = None, None, None, None
    else:
        m, name, node = ot
        table = dict((k.value, v.attr) for k, v in zip(node.keys, node.values))
    lm = g.lexer_module
    n = 0
    for tok in BINARY + ['LPAREN', 'RPAREN']:
        t = g.lex_token(tok)
        if t is None:
            res.ob('R5', 'lexer', 'token %s defined' % tok, False)
            res.violation('R5', 'lexer:token-missing:%s' % tok, lm.relpath, 'operator token %s has no lexer rule' % tok)
            continue
        lex = rx.literal_lexeme(t.regex)
        want = LEXEME_ORACLE[tok]
        ok = lex == want
        n += 1
        res.ob('R5', 'lexer:t_%s' % tok, 'lexeme %r' % lex, ok, 'expected %r' % want)
        if not ok:
            res.violation('R5', 'lexer:t_%s:lexeme' % tok, lm.where(t.node),
                          'token %s matches %r (regex %r); the grammar and the operator table expect %r' % (tok, lex, t.regex, want),
                          func='t_' + tok)
        if tok in ('LPAREN', 'RPAREN', 'AMP') or table is None:
            continue
        got = table.get(want)
        ok2 = got == OPERATOR_ORACLE[want]
        res.ob('R5', '%s:%s' % (m.name, name), '%r -> operator.%s' % (want, got), ok2, 'expected operator.%s' % OPERATOR_ORACLE[want])
        if not ok2:
            res.violation('R5', '%s:%s:%s' % (m.name, name, want), m.where(node),
                          'the operator table maps %r to operator.%s; the symbol means operator.%s' % (want, got, OPERATOR_ORACLE[want]))
    res.floor('operator tokens checked', n, 13)
    if table is not None:
        extra = [k for k in table if k not in OPERATOR_ORACLE]
        res.ob('R5', '%s:%s' % (m.name, name), 'no unexpected lexeme in the operator table', not extra, extra)


def _r6(model, res, g):
    lex = {}
    for t in g.lex_tokens:
        l = rx.literal_lexeme(t.regex)
        if l:
            lex[t.name] = (l, t)
    n = 0
    for a, (la, ta) in sorted(lex.items()):
        for b, (lb, tb) in sorted(lex.items()):
            if a != b and lb.startswith(la) and len(lb) > len(la):
                n += 1
                ok = tb.order < ta.order
                res.ob('R6', 'lexer', '%r (%s) is tried before its prefix %r (%s)' % (lb, b, la, a), ok)
                if not ok:
                    res.violation('R6', 'lexer:order:%s-before-%s' % (a, b), g.lexer_module.where(ta.node),
                                  'token %s (%r) is defined before %s (%r): the longer operator is never recognised and %r is read as %r '
                                  'followed by %r' % (a, la, b, lb, lb, la, lb[len(la):]), func='t_' + a)
    res.floor('prefix-related lexeme pairs', n, 3)


def _r7(model, res, g):
    pt = g.parsetab()
    if pt is None or 'error' in (pt or {}):
        res.ob('R7', 'parsetab', 'no generated table in the working tree (ply regenerates it)', True)
        return
    sig_ok = pt.get('_lr_signature') == g.signature()
    if not sig_ok:
        res.ob('R7', 'parsetab', 'signature differs from the source: ply will regenerate the table', True)
        res.notes.append('C04.R7: parsetab signature is stale; ply regenerates it on first use')
        return
    act = {}
    for k, v in pt['_lr_action_items'].items():
        for x, y in zip(v[0], v[1]):
            act.setdefault(x, {})[k] = y
    goto = {}
    for k, v in pt['_lr_goto_items'].items():
        for x, y in zip(v[0], v[1]):
            goto.setdefault(x, {})[k] = y
    prods = [(str(p), p.name, p.len, p.func) for p in g.g.Productions]
    tprods = [(a, b, c_, d) for a, b, c_, d, e, f in pt['_lr_productions']]
    defined = set(p.func for p in g.g.Productions if p.func)
    unbound = sorted(set(d for a, b, c_, d in tprods if d and d not in defined))
    if unbound:
        # ply binds every production of a loaded table to the attribute of that name (LRTable.bind_callables); a name
        # the grammar object does not define raises there, and yacc() then regenerates the table from the source
        res.ob('R7', 'parsetab', 'the cached table names action functions the grammar no longer defines (%s): ply fails to bind '
               'them and regenerates the table' % ', '.join(unbound[:3]), True)
        res.notes.append('C04.R7: cached parsetab names undefined action functions; ply regenerates it on first use')
        return
    ok_a = act == dict((k, dict(v)) for k, v in g.action.items())
    ok_g = goto == dict((k, dict(v)) for k, v in g.goto.items() if v)
    ok_p = prods == tprods
    ok_m = pt.get('_lr_method') == 'LALR'
    res.ob('R7', 'parsetab', 'action table equals the generated one (%d states)' % len(act), ok_a)
    res.ob('R7', 'parsetab', 'goto table equals the generated one', ok_g)
    res.ob('R7', 'parsetab', 'production list equals the generated one (%d)' % len(tprods), ok_p)
    if not (ok_a and ok_g and ok_p and ok_m):
        diff = []
        for st in sorted(set(act) | set(g.action)):
            for tok in sorted(set(act.get(st, {})) | set(g.action.get(st, {}))):
                if act.get(st, {}).get(tok) != g.action.get(st, {}).get(tok):
                    diff.append((st, tok, act.get(st, {}).get(tok), g.action.get(st, {}).get(tok)))
        res.violation('R7', 'parsetab:differs-from-source', pt['path'],
                      'the checked-in parse table carries the signature of the current grammar (so ply loads it without regenerating) '
                      'but its contents differ from the table the grammar generates: %s' % (diff[:4] or 'goto/productions differ'))


# ---------------------------------------------------------------------------------------------------
# R8 (thorough): LR driver versus precedence climbing

def _climb(tokens):
    """Reference tree by precedence climbing over the oracle (only called on strings whose operator pairs are all ordered)."""
    pos = [0]

    def level(op):
        if op in ARITH:
            return ARITH[op]
        if op == CONCAT:
            return 2
        return 1

    def primary():
        t = tokens[pos[0]]
        if t == 'MINUS':
            pos[0] += 1
            return ('neg', primary())
        if t == 'LPAREN':
            pos[0] += 1
            e = expr(0)
            pos[0] += 1
            return e
        pos[0] += 1
        return 'x'

    def expr(minlvl):
        left = primary()
        while pos[0] < len(tokens) and tokens[pos[0]] in BINARY and level(tokens[pos[0]]) > minlvl:
            op = tokens[pos[0]]
            pos[0] += 1
            right = expr(level(op))
            left = (op, left, right)
        return left
    return expr(0)


def _shape(g, tree, E):
    """Tree from the LR driver -> ('op', l, r) / ('neg', x) / 'x'."""
    if isinstance(tree, str):
        return 'x'
    num, kids = tree
    p = g.g.Productions[num]
    syms = list(p.prod)
    if len(syms) == 3 and syms[1] in BINARY and syms[0] == syms[2] == E:
        return (syms[1], _shape(g, kids[0], E), _shape(g, kids[2], E))
    if syms == ['MINUS', E]:
        return ('neg', _shape(g, kids[1], E))
    if syms == ['LPAREN', E, 'RPAREN']:
        return _shape(g, kids[1], E)
    if len(kids) == 1:
        return _shape(g, kids[0], E)
    return 'x'


def _all_ordered(ops):
    for a, b in zip(ops, ops[1:]):
        if oracle_rel(a, b) is None:
            return False
    # non-adjacent pairs can interact as well (x & y + z < w): require every pair ordered
    for a, b in itertools.combinations(ops, 2):
        if oracle_rel(a, b) is None or oracle_rel(b, a) is None:
            return False
    return True


def _r8(model, res, g):
    E = getattr(g, 'E', 'expression')
    n = 0
    bad = 0
    operand_forms = [['NUMBER'], ['MINUS', 'NUMBER'], ['LPAREN', 'NUMBER', 'RPAREN']]
    for k in (1, 2, 3):
        for ops in itertools.product(BINARY, repeat=k):
            if not _all_ordered(list(ops)):
                continue
            for forms in itertools.product(range(len(operand_forms)), repeat=k + 1):
                if k == 3 and sum(1 for f in forms if f) > 1:
                    continue
                toks = []
                for i in range(k + 1):
                    toks += operand_forms[forms[i]]
                    if i < k:
                        toks.append(ops[i])
                tree = g.parse_types(toks)
                n += 1
                if tree is None:
                    got = None
                else:
                    got = _shape(g, tree, E)
                want = _climb(toks)
                if got != want:
                    bad += 1
                    if bad <= 5:
                        res.ob('R8', 'LR driver', ' '.join(toks), False, 'tree %s, expected %s' % (got, want))
                        res.violation('R8', 'LR:tree:%s' % '-'.join(ops), g.prec_module.where(g.prec_node),
                                      'token string %s parses to %s; the usual reading is %s' % (' '.join(toks), got, want),
                                      case=' '.join(toks))
    res.ob('R8', 'LR driver', '%d token strings (1-3 operators, unary minus, parentheses) parsed and compared' % n, bad == 0)
    res.floor('token strings driven through the LR tables', n, 1000)


# ---------------------------------------------------------------------------------------------------
# R12: parse() has no answer of its own for a non-empty formula

def _r12(model, res, c):
    from ..paths import function_paths, atoms, TooManyPaths
    from ..callgraph import fmt
    root = c.root
    m, f = c.cg.funcs[root]
    ps = sa.params(f)
    if len(ps) < 2:
        raise AnalysisError('parse() has no text parameter (anchor vanished)')
    text_p = ps[1]
    # call sites in parse() that reach the grammar parser's parse (the function that calls ply)
    ply_callers = set()
    for k, (m2, f2) in c.cg.funcs.items():
        for n in ast.walk(f2):
            if c.cg.is_yacc_parse(f2, n):
                ply_callers.add(k)
    # ... directly or through helpers of parse()
    reaching = set(k for k in c.cg.funcs if k in ply_callers or (c.cg.reachable([k]) & ply_callers))
    sites = [n for n in walk_no_defs(f) if isinstance(n, ast.Call) and (c.cg.sites.get((root, id(n)), set()) & reaching)]
    consts = m.constants
    res.floor('calls of the grammar parser in parse()', len(sites), 1)
    try:
        paths = function_paths(f)
    except TooManyPaths:
        res.ob('R12', fmt(root), 'paths of parse()', True, 'undecided: too many paths')
        return
    n = 0
    for p in paths:
        if p.kind() != 'return':
            continue
        nodes = p.nodes()
        parsed = any(any(x is sx for x in ast.walk(nd)) for nd in nodes for sx in sites)
        if parsed:
            continue
        if any(it[0] == 'exc' for it in p.items):
            continue        # left the try before the call by an exception
        empty = False
        for t_, v_ in p.conds():
            for a_, tv_ in atoms(t_, v_):
                # expression == ''  (true)  /  not expression  (true)  /  expression (false)
                if isinstance(a_, ast.Compare) and len(a_.ops) == 1 and isinstance(a_.ops[0], ast.Eq) and tv_ and \
                        any(isinstance(x, ast.Name) and x.id == text_p for x in (a_.left, a_.comparators[0])) and \
                        any((isinstance(x, ast.Constant) and x.value in ('', None)) or
                            (isinstance(x, ast.Name) and isinstance(consts.get(x.id), ast.Constant) and consts[x.id].value in ('', None))
                            for x in (a_.left, a_.comparators[0])):
                    empty = True
                if isinstance(a_, ast.Name) and a_.id == text_p and not tv_:
                    empty = True
        if empty:
            continue
        n += 1
        res.ob('R12', fmt(root), 'a path for a non-empty formula without the grammar parser: %s' % p.describe()[:100], False)
        res.violation('R12', '%s:%s:answer-without-parsing' % root, m.where(p.terminal[1]) if p.terminal[1] is not None else m.where(f),
                      'parse() returns on the path %s without handing the formula to the grammar parser: whatever that path tests (length, nesting '
                      'depth, a cache ...) decides the outcome instead of the structure the grammar gives the formula - e.g. redundant '
                      'parentheses then change the value' % p.describe()[:160], case=p.describe()[:200], func=root[1])
    if n == 0:
        res.ob('R12', fmt(root), 'every path of parse() for a non-empty formula runs the grammar parser', True)
