# -*- coding: utf-8 -*-
"""C05 - lexical conventions: literals, whitespace, separators, case, empty arguments."""
import ast

from ..model import AnalysisError, src
from ..callgraph import fmt
from ..paths import function_paths, walk_no_defs
from ..absint import (Interp, Const, Sym, Err, Atom, Top, Func, ListV, DictV, Obj, ClassV, Builtin, Splice, Raised, Unmodelled, Exc, k)
from .. import abshelp as H, ctx as ctxmod, purity, sa, rx, roles

SEPS = {'COMMA': ',', 'SEMICOLON': ';', 'BACKSLASH': '\\'}


def run(model, res, tier):
    c = ctxmod.get(model)
    g = c.grammar
    res.explanation = (
        'R1/R2 regex-AST queries: the whitespace token covers space/tab/CR/LF/FF/VT, is tried first and returns no token; no other token but '
        'the quoted string can match text containing whitespace after its first character. R3 list-shape abstract interpretation of the '
        'three separator actions, one run per production alternative with the argument values opaque (unknown tag): on every trace the '
        'value is exactly the slot shape obtained by splitting the right-hand side at separators (an empty segment is a blank), so the '
        'structure can depend only on the production, never on argument values. R4 the three separator families are the same grammar up '
        'to renaming (semicolon has exactly the two extra row productions) and their wrappers exist. R5 the number action hands the '
        'converter the concatenation of its lexemes in order, % multiplies by 0.01, ^ raises; the converter tries int() first then '
        'float(). R6 the string action strips exactly the first and last character. R7 labels are upper-cased before use and the cell '
        'tokens are case-symmetric. R8 no shared state in these actions.')
    res.rule('R1', 'whitespace token: covers blank characters, first, discards')
    res.rule('R2', 'no other token absorbs whitespace')
    res.rule('R3', 'separator actions produce the slot shape on every alternative')
    res.rule('R4', 'the three separator families are one grammar')
    res.rule('R5', 'number literal assembly and exact conversion')
    res.rule('R6', 'string literal strips its delimiters only')
    res.rule('R7', 'labels are upper-cased; cell tokens case-symmetric')
    res.rule('R8', 'grammar actions keep no shared state')
    res.rule('R9', 'the lexer reads the formula text as it was written: from parse() down to the ply parser the text is handed on unchanged '
             '(no rewriting pass in front of the lexer)')
    res.trusted += ['hxsa abstract interpreter (list-shape domain) and builtin models', 're._parser', 'ply 3.11 token ordering']
    H.safely(res, 'R1', 'r1_r2', _r1_r2, model, res, g)
    H.safely(res, 'R3', 'r3', _r3, model, res, c, g)
    H.safely(res, 'R4', 'r4', _r4, model, res, g)
    H.safely(res, 'R5', 'r5_r6', _r5_r6, model, res, c, g)
    H.safely(res, 'R7', 'r7', _r7, model, res, c, g)
    H.safely(res, 'R9', 'r9', _r9, model, res, c)
    from . import c09
    cbs = c09.callbacks(c)
    if 'call_function' in cbs:
        res.rule('R10', 'the argument list the grammar built reaches the function as it is: one invocation with every slot (shared with C09.R2)')
        H.borrow(res, 'R10', 'call callback', lambda tmp: c09._r2(model, tmp, c, cbs['call_function']))
    keys = [(m.name, m.qualname_of(f)) for (m, f) in g.action_funcs.values()]
    region = set(keys)
    purity.check_region(res, c, 'R8', 'R8', region, 'a grammar action')
    purity.check_memo(res, c, 'R8', region, 'a grammar action')


# ---------------------------------------------------------------------------------------------------

def _r1_r2(model, res, g):
    lm = g.lexer_module
    ws = None
    for t in g.lex_tokens:
        try:
            T = rx.build(t.regex)
        except rx.Unsupported:
            continue
        if T.accepts(' ') and T.accepts('\t') and T.accepts('\n'):
            ws = t
            break
    if ws is None:
        res.ob('R1', 'lexer', 'a token matching blank characters exists', False)
        res.violation('R1', 'lexer:no-whitespace-token', lm.relpath, 'no token matches space, tab and newline: whitespace between tokens is a lexing error')
        return
    T = rx.build(ws.regex)
    S = rx.build(r'[ \t\r\n\f\v]+')     # the ASCII whitespace characters: every reading of "whitespace" includes them
    al = rx.alphabet([T, S])
    w = rx.difference_witness(S, T, al)
    res.ob('R1', 'lexer:t_' + ws.name, 'covers every run of space/tab/CR/LF/FF/VT', w is None, repr(w))
    if w is not None:
        res.violation('R1', 'lexer:t_%s:coverage' % ws.name, lm.where(ws.node), 'the whitespace token does not match %r' % w, func='t_' + ws.name)
    ok = ws.order == 0 and ws.is_func
    res.ob('R1', 'lexer:t_' + ws.name, 'is the first rule tried', ok, 'order=%d' % ws.order)
    if not ok:
        first = g.lex_tokens[0]
        res.violation('R1', 'lexer:t_%s:not-first' % ws.name, lm.where(ws.node),
                      'the whitespace rule is not the first lexer rule (rule %s is tried before it)' % first.name, func='t_' + ws.name)
    # discards: no path returns a value
    rets = [p for p in function_paths(ws.node) if p.kind() == 'return' and p.terminal[1].value is not None and
            not (isinstance(p.terminal[1].value, ast.Constant) and p.terminal[1].value.value is None)]
    res.ob('R1', 'lexer:t_' + ws.name, 'returns no token on every path', not rets)
    if rets:
        res.violation('R1', 'lexer:t_%s:returns-token' % ws.name, lm.where(ws.node),
                      'the whitespace rule returns a token: whitespace reaches the grammar and formulas with spaces are syntax errors',
                      func='t_' + ws.name)
    # R2
    inner_ws = rx.build(r'[^ \t\r\n]([^\x00]|\x00)*[ \t\r\n]([^\x00]|\x00)*')
    n = 0
    for t in g.lex_tokens:
        if t is ws:
            continue
        try:
            T2 = rx.build(t.regex)
        except rx.Unsupported as e:
            res.ob('R2', 'lexer:t_' + t.name, 'undecided', True, str(e))
            continue
        n += 1
        al = rx.alphabet([T2, inner_ws])
        w = rx.intersection_witness(T2, inner_ws, al)
        is_string = T2.accepts('"a b"') or T2.accepts("'a b'")
        ok = w is None or is_string
        res.ob('R2', 'lexer:t_' + t.name, 'cannot match text with whitespace inside', ok, repr(w))
        if not ok:
            res.violation('R2', 'lexer:t_%s:absorbs-whitespace' % t.name, lm.where(t.node),
                          'token %s can match %r: whitespace inside it changes how the formula is read' % (t.name, w), case=w, func='t_' + t.name)
    res.floor('tokens checked for whitespace absorption', n, 30)


# ---------------------------------------------------------------------------------------------------

def oracle_shape(prod, family_seqs):
    """Expected value of a sequence production: list of ('blank',) | ('elem', i) | ('splice', i) | rows."""
    syms = prod.syms
    # the two row productions: seqX SEMICOLON seqX with seqX another family
    if len(syms) == 3 and syms[1] in SEPS and syms[0] in family_seqs and syms[2] in family_seqs and syms[0] != prod.name and syms[2] != prod.name:
        return [('row', 1), ('row', 3)]
    out = []
    expecting = True
    for i, s in enumerate(syms, 1):
        if s in SEPS:
            if expecting:
                out.append(('blank',))
            expecting = True
        elif s in family_seqs:
            out.append(('splice', i))
            expecting = False
        else:
            out.append(('elem', i))
            expecting = False
    if expecting:
        out.append(('blank',))
    return out


def shape_of(v):
    if not isinstance(v, ListV):
        return ('not-a-list', repr(v))
    out = []
    for it in v.items:
        if isinstance(it, Splice):
            out.append(('splice', it.name))
        elif isinstance(it, Const) and it.value is None:
            out.append(('blank',))
        elif isinstance(it, Sym) and it.name.startswith('E'):
            out.append(('elem', int(it.name[1:])))
        elif isinstance(it, ListV) and len(it.items) == 1 and isinstance(it.items[0], Splice):
            out.append(('row', it.items[0].name))
        else:
            out.append(('other', repr(it)))
    return out


def _r3(model, res, c, g):
    seq_names = sorted(set(p.name for p in g.productions if any(s in SEPS for s in p.syms)))
    res.floor('separator sequence nonterminals', len(seq_names), 3)
    n = 0
    for p in g.productions:
        if p.name not in seq_names:
            continue
        m, f = g.action_funcs[p.funcname]
        fv = Func(m, f)
        want = oracle_shape(p, seq_names)
        want_n = []
        for w in want:
            if w[0] == 'splice':
                want_n.append(('splice', 'S%d' % w[1]))
            elif w[0] == 'row':
                want_n.append(('row', 'S%d' % w[1]))
            else:
                want_n.append(w)
        it = Interp(model)

        def call(interp, st, p=p):
            items = [Const(None)]
            for i, s in enumerate(p.syms, 1):
                if s in SEPS:
                    items.append(Const(SEPS[s]))
                elif s in seq_names:
                    items.append(ListV([Splice('S%d' % i)]))
                else:
                    items.append(Sym(None, 'E%d' % i))      # an argument value: anything at all
            pv = Obj(ClassV(None, ast.ClassDef(name='YaccProduction', bases=[], keywords=[], body=[], decorator_list=[])), {})
            lst = ListV(items)
            pv.attrs['slice'] = ListV([SliceSym(p.name)] + [SliceSym(s) for s in p.syms])
            for i_, ss_ in enumerate(pv.attrs['slice'].items):
                ss_.holder, ss_.position = lst, i_      # p.slice[i].value is p[i]
            pv.attrs['<items>'] = lst
            interp.extern['hx:p.getitem'] = None
            gobj = Obj(ClassV(g.gm, g.gcls), {})
            interp.call(fv, [gobj, PList(lst, pv.attrs['slice'])])
            return lst.items[0]
        try:
            outs = it.run(call)
        except Unmodelled as e:
            res.ob('R3', p.funcname, repr(p), True, 'undecided: %s' % e)
            res.notes.append('C05.R3 %s: %s' % (p, e))
            continue
        n += 1
        site = '%s [%s]' % (p.funcname, p)
        bad = []
        for o in outs:
            if o.imprecise:
                continue
            if o.kind != 'return' or shape_of(o.value) != want_n:
                bad.append(o)
        res.ob('R3', site, {'production': repr(p), 'expected': want_n}, not bad, H.describe(outs)[:3])
        if bad:
            res.violation('R3', 'grammar:%s:%s' % (p.funcname, '_'.join(p.syms)), m.where(f),
                          'production "%s" must yield the slot shape %s whatever the argument values are; on some trace it gives %s '
                          '(the structure depends on an argument value, or a slot is lost/duplicated)'
                          % (p, want_n, '; '.join(H.describe(bad)[:2])), case=repr(p), func=p.funcname)
    res.soft_floor('separator alternatives interpreted', n, 18)


class SliceSym(Const):
    """An element of ``p.slice``: str() of it and its ``.type`` are the grammar symbol name."""


class PList(ListV):
    """The YaccProduction object: indexable like a list, with .slice (symbol names)."""

    def __init__(self, lst, slice_):
        ListV.__init__(self, lst.items, 'list')
        self.items = lst.items      # shared storage so that p[0] = ... is visible to the caller
        self.slice_ = slice_


def _install_plist_support():
    """len(p), p[i] work through ListV; ``p.slice`` needs attribute support."""
    from .. import absmodels
    orig = absmodels.value_attr

    def value_attr(interp, base, attr):
        if isinstance(base, PList) and attr == 'slice':
            return base.slice_
        if isinstance(base, SliceSym) and attr == 'type':
            return Const(base.value)
        if isinstance(base, SliceSym) and attr == 'value' and getattr(base, 'holder', None) is not None:
            return base.holder.items[base.position]
        return orig(interp, base, attr)
    absmodels.value_attr = value_attr


_install_plist_support()


def _r4(model, res, g):
    fams = {}
    for sep in SEPS:
        names = sorted(set(p.name for p in g.productions if sep in p.syms and p.name != 'cell'))
        own = [n for n in names if all(not (q.name == n and any(s in SEPS and s != sep for s in q.syms)) for q in g.productions)]
        fams[sep] = names
    # identify the sequence nonterminal of each separator: the one with production  X : X SEP expression
    seq_of = {}
    for sep in SEPS:
        for p in g.productions:
            if len(p.syms) == 3 and p.syms[0] == p.name and p.syms[1] == sep and p.syms[2] not in SEPS and p.syms[2] != p.name:
                seq_of[sep] = p.name
    ok = len(seq_of) == 3
    res.ob('R4', 'grammar', 'a sequence nonterminal per separator', ok, seq_of)
    if not ok:
        res.violation('R4', 'grammar:separator-families', g.gm.where(g.gcls),
                      'not every separator , ; \\ has a sequence nonterminal (found %s): the choice of separator changes what is accepted' % seq_of)
        return
    canon = {}
    for sep, nt in seq_of.items():
        prods = set()
        for p in g.productions:
            if p.name == nt:
                ren = tuple('SEQ' if s == nt else ('SEP' if s == sep else ('OTHERSEQ' if s in seq_of.values() else s)) for s in p.syms)
                prods.add(ren)
        canon[sep] = prods
    base = canon['COMMA']
    for sep in ('SEMICOLON', 'BACKSLASH'):
        extra = canon[sep] - base
        missing = base - canon[sep]
        want_extra = set([('OTHERSEQ', 'SEP', 'OTHERSEQ')]) if sep == 'SEMICOLON' else set()
        ok = not missing and extra == want_extra
        res.ob('R4', 'grammar', '%s family equals the comma family up to renaming' % sep, ok, 'missing=%s extra=%s' % (sorted(missing), sorted(extra)))
        if not ok:
            res.violation('R4', 'grammar:family-differs:%s' % sep, g.gm.where(g.action_funcs[[p.funcname for p in g.productions if p.name == seq_of[sep]][0]][1]),
                          'the %s-separated sequence grammar differs from the comma-separated one: missing %s, extra %s - a formula is accepted '
                          'or structured differently depending on the separator' % (SEPS[sep], sorted(missing), sorted(extra - want_extra)))
    # wrappers: FUNCTION ( seq ) and { seq } for all three
    for sep, nt in sorted(seq_of.items()):
        w1 = [p for p in g.productions if p.syms == ['FUNCTION', 'LPAREN', nt, 'RPAREN']]
        w2 = [p for p in g.productions if p.syms == ['LBRACKET', nt, 'RBRACKET']]
        ok = len(w1) == 1 and len(w2) == 1
        res.ob('R4', 'grammar', 'call and array wrappers exist for %s' % nt, ok)
        if not ok:
            res.violation('R4', 'grammar:wrapper-missing:%s' % nt, g.gm.where(g.gcls),
                          'no FUNCTION ( %s ) or { %s } production: %s-separated arguments/arrays are not accepted' % (nt, nt, SEPS[sep]))
        fn1 = set(p.funcname for p in w1)
        fn2 = set(p.funcname for p in w2)
        res.analysed.setdefault('wrapper actions', {})[nt] = sorted(fn1 | fn2)
    f1 = set(p.funcname for p in g.productions if len(p.syms) == 4 and p.syms[0] == 'FUNCTION' and p.syms[2] in seq_of.values())
    f2 = set(p.funcname for p in g.productions if len(p.syms) == 3 and p.syms[0] == 'LBRACKET' and p.syms[1] in seq_of.values())
    ok = len(f1) == 1 and len(f2) == 1
    res.ob('R4', 'grammar', 'one shared action for the three call wrappers and one for the three array wrappers', ok, '%s %s' % (sorted(f1), sorted(f2)))
    if not ok:
        res.violation('R4', 'grammar:wrapper-actions-differ', g.gm.where(g.gcls),
                      'the wrapper productions of the three separator styles do not share one action (%s / %s)' % (sorted(f1), sorted(f2)))
    # array action is the identity on the sequence
    for fn in sorted(f2):
        m, f = g.action_funcs[fn]
        pn = sa.params(f)[1]
        stores = [n for n in walk_no_defs(f) if isinstance(n, ast.Assign) and any(roles._p_index(t, pn) == 0 for t in n.targets)]
        ok = len(stores) >= 1 and all(roles._p_index(s.value, pn) == 2 for s in stores)
        res.ob('R4', fn, 'array literal is the sequence value itself', ok, [src(s) for s in stores])
        if not ok:
            res.violation('R4', 'grammar:%s:array-not-identity' % fn, m.where(f),
                          'the array-literal action does not yield the list of its items unchanged (%s)' % '; '.join(src(s) for s in stores), func=fn)


# ---------------------------------------------------------------------------------------------------

def _r5_r6(model, res, c, g):
    # to_number summarised as an uninterpreted function here; its own algorithm is checked separately below
    opq = {}
    for mm in model.modules.values():
        if 'to_number' in mm.functions:
            opq[(mm.name, mm.functions.key_of('to_number'))] = lambda interp, args, kwargs: Atom('to_number', args, 'float')
    num_prods = [p for p in g.productions if p.syms and all(s in ('NUMBER', 'DECIMAL', 'CARET', 'PERCENT') for s in p.syms)]
    res.floor('number-literal productions', len(num_prods), 5)
    LEX = {'DECIMAL': '.', 'CARET': '^', 'PERCENT': '%'}

    def text(v):
        """Flatten a concatenation atom into a list of pieces."""
        if isinstance(v, Atom) and v.op == 'concat':
            return text(v.args[0]) + text(v.args[1])
        if isinstance(v, Const) and isinstance(v.value, str):
            return [v.value]
        if isinstance(v, Sym):
            return ['<%s>' % v.name]
        return ['?%r' % (v,)]

    def norm(pieces):
        out = []
        for p in pieces:
            if out and not out[-1].startswith('<') and not p.startswith('<'):
                out[-1] += p
            else:
                out.append(p)
        return out

    for p in num_prods:
        m, f = g.action_funcs[p.funcname]
        fv = Func(m, f)
        it = Interp(model, opaque=opq)

        def call(interp, st, p=p):
            items = [Const(None)]
            for i, s in enumerate(p.syms, 1):
                items.append(Sym('str', 'N%d' % i, lang='[0-9]+') if s == 'NUMBER' else Const(LEX[s]))
            lst = ListV(items)
            gobj = Obj(ClassV(g.gm, g.gcls), {})
            interp.call(fv, [gobj, lst])
            return lst.items[0]
        try:
            outs = it.run(call)
        except Unmodelled as e:
            res.ob('R5', p.funcname, repr(p), True, 'undecided: %s' % e)
            continue
        syms = p.syms
        ok = len(outs) == 1 and outs[0].kind == 'return' and not outs[0].imprecise
        got = None
        if ok:
            v = outs[0].value

            def conv_arg(x):
                if isinstance(x, Atom) and x.op == 'to_number' and len(x.args) == 1:
                    return norm(text(x.args[0]))
                return None
            if syms == ['NUMBER']:
                got = conv_arg(v)
                ok = got == ['<N1>']
            elif syms == ['DECIMAL', 'NUMBER']:
                got = conv_arg(v)
                ok = got in (['0.', '<N2>'], ['.', '<N2>'])
            elif syms == ['NUMBER', 'DECIMAL', 'NUMBER']:
                got = conv_arg(v)
                ok = got == ['<N1>', '.', '<N3>']
            elif syms == ['NUMBER', 'CARET', 'NUMBER']:
                ok = isinstance(v, Atom) and v.op == 'pow' and conv_arg(v.args[0]) == ['<N1>'] and conv_arg(v.args[1]) == ['<N3>']
                got = repr(v)
            elif syms == ['NUMBER', 'PERCENT']:
                ok = isinstance(v, Atom) and v.op == 'mul' and (
                    (conv_arg(v.args[0]) == ['<N1>'] and isinstance(v.args[1], Const) and v.args[1].value == 0.01) or
                    (conv_arg(v.args[1]) == ['<N1>'] and isinstance(v.args[0], Const) and v.args[0].value == 0.01))
                if not ok and isinstance(v, Atom) and v.op == 'truediv':
                    ok = conv_arg(v.args[0]) == ['<N1>'] and isinstance(v.args[1], Const) and v.args[1].value == 100
                got = repr(v)
            else:
                ok = True
        res.ob('R5', p.funcname, {'production': repr(p)}, ok, got if got is not None else H.describe(outs))
        if not ok:
            res.violation('R5', 'grammar:%s:%s' % (p.funcname, '_'.join(syms)), m.where(f),
                          'the literal "%s" must be converted from its lexemes in order (%.0s percent = x 0.01, caret = power); got %s'
                          % (p, '', got if got is not None else '; '.join(H.describe(outs))), func=p.funcname)
    from . import c06
    c06._to_number(model, res, H.date_opaque(model), R='R5')
    # the NUMBER token is exactly a run of ASCII digits
    t = g.lex_token('NUMBER')
    if t is not None:
        try:
            T = rx.build(t.regex)
            S = rx.build(r'[0-9]+')
            al = rx.alphabet([T, S])
            w1, w2 = rx.difference_witness(S, T, al), rx.difference_witness(T, S, al)
            ok = w1 is None and w2 is None
            res.ob('R5', 'lexer:t_NUMBER', 'matches exactly runs of ASCII digits', ok, 'counter-examples %r %r' % (w1, w2))
            if not ok:
                res.violation('R5', 'lexer:t_NUMBER:language', g.lexer_module.where(t.node),
                              'the NUMBER token does not match exactly the runs of ASCII digits (counter-example %r)' % (w1 if w1 is not None else w2,),
                              func='t_NUMBER')
        except rx.Unsupported:
            pass
    # R6 string literal
    sp = [p for p in g.productions if p.syms == ['STRING']]
    res.floor('string-literal productions', len(sp), 1)
    for p in sp:
        m, f = g.action_funcs[p.funcname]
        fv = Func(m, f)
        it = Interp(model)

        def call(interp, st):
            lst = ListV([Const(None), Sym('str', 'S')])
            interp.call(fv, [Obj(ClassV(g.gm, g.gcls), {}), lst])
            return lst.items[0]
        outs = it.run(call)
        ok = len(outs) == 1 and outs[0].kind == 'return'
        if ok:
            v = outs[0].value
            ok = isinstance(v, Atom) and v.op == 'slice' and isinstance(v.args[0], Sym) and v.args[0].name == 'S' and \
                isinstance(v.args[1], Const) and v.args[1].value == 1 and isinstance(v.args[2], Const) and v.args[2].value == -1 and \
                isinstance(v.args[3], Const) and v.args[3].value is None
        res.ob('R6', p.funcname, 'p[0] = lexeme[1:-1]', ok, H.describe(outs))
        if not ok:
            res.violation('R6', 'grammar:%s:string-literal' % p.funcname, m.where(f),
                          'a quoted literal must evaluate to exactly the characters between its quotes (lexeme[1:-1]); got %s' % '; '.join(H.describe(outs)),
                          func=p.funcname)
    # the quoted string token: delimiters are the same quote at both ends and the body cannot contain it unescaped
    t = g.lex_token('STRING')
    if t is not None:
        try:
            T = rx.build(t.regex)
            for good in ('"ab c"', "'x'", '""', '"a\'b"'):
                ok = T.accepts(good)
                res.ob('R6', 'lexer:t_STRING', 'accepts %s' % good, ok)
                if not ok:
                    res.violation('R6', 'lexer:t_STRING:rejects', g.lexer_module.where(t.node), 'the string token rejects the literal %s' % good, func='t_STRING')
            # every run of characters between two quotes of one kind - backslashes, the other quote, line breaks included - is one literal
            for spec_re, q in ((r'"[^"]*"', 'double'), (r"'[^']*'", 'single')):
                S_ = rx.build(spec_re)
                w = rx.difference_witness(S_, T, rx.alphabet([T, S_]))
                res.ob('R6', 'lexer:t_STRING', 'L(%s) is included in L(STRING)' % spec_re, w is None, 'counter-example %r' % w)
                if w is not None:
                    res.violation('R6', 'lexer:t_STRING:rejects-literal', g.lexer_module.where(t.node),
                                  'the %s-quoted literal %s is not one STRING token (e.g. a text ending in a backslash): the formula is rejected '
                                  'instead of evaluating to the characters between the quotes' % (q, w), case=w, func='t_STRING')
            for bad in ('"ab', 'ab"', '"a"b"'):
                ok = not T.accepts(bad)
                res.ob('R6', 'lexer:t_STRING', 'rejects %s' % bad, ok)
                if not ok:
                    res.violation('R6', 'lexer:t_STRING:accepts', g.lexer_module.where(t.node), 'the string token accepts %s as one literal' % bad, func='t_STRING')
        except rx.Unsupported:
            pass


def _r7(model, res, c, g):
    from . import c10
    from .c09 import callbacks
    ctx = {'model': model, 'c': c, 'res': res, 'cbs': callbacks(c)}
    # single cell: payload label is upper(label)
    outs, (m, f, key) = c10.run_callback(ctx, 'call_cell_value', lambda interp: [Sym('str', 'LAB')], listener_script=lambda: [])
    n = 0
    for o in outs:
        if o.imprecise or o.kind != 'return' or not o.events:
            continue
        n += 1
        cell = o.events[0][1][0]
        label = cell.attrs.get('label') if isinstance(cell, Obj) else None
        rl = cell.attrs.get('row').attrs.get('label') if isinstance(cell, Obj) and isinstance(cell.attrs.get('row'), Obj) else None
        ok = c10._is_upper_of(label, 'LAB') and isinstance(rl, Atom) and rl.op == 'group' and c10._is_upper_of(rl.args[0], 'LAB')
        res.ob('R7', fmt(key), 'cell label and its parts come from the upper-cased label', ok, 'label=%r row.label=%r' % (label, rl))
        if not ok:
            res.violation('R7', '%s:%s:label-case' % key, m.where(f),
                          'a cell reference must be upper-cased before it is decomposed and reported (label=%r, row part from %r): '
                          'a1 and A1 would be different cells for a listener' % (label, rl), func=key[1])
    res.soft_floor('cell traces for case', n, 1)
    # ... and on constant spellings (a scanner without a regular expression is followed on constants only)
    n_const = 0
    for lab in ('a1', '$b$7', 'Ab12', 'xfd$1048576'):
        try:
            outs_c, _k = c10.run_callback(ctx, 'call_cell_value', lambda interp, lab=lab: [Const(lab)], listener_script=lambda: [])
        except Unmodelled as e:
            res.ob('R7', fmt(key), {'reference': lab}, True, 'undecided: %s' % e)
            continue
        outs_c = [o for o in outs_c if not o.imprecise]
        if len(outs_c) != 1 or outs_c[0].kind != 'return' or not outs_c[0].events:
            res.ob('R7', fmt(key), {'reference': lab}, True, 'undecided: %s' % H.describe(outs_c)[:1])
            continue
        cell = outs_c[0].events[0][1][0]
        if not isinstance(cell, Obj):
            res.ob('R7', fmt(key), {'reference': lab}, True, 'undecided: payload %r' % (cell,))
            continue
        got = [cell.attrs.get('label')]
        for part in ('row', 'col'):
            pv_ = cell.attrs.get(part)
            got.append(pv_.attrs.get('label') if isinstance(pv_, Obj) else None)
        if not all(isinstance(x, Const) and isinstance(x.value, str) for x in got):
            res.ob('R7', fmt(key), {'reference': lab}, True, 'undecided: %r' % (got,))
            continue
        n_const += 1
        want_col = ''.join(ch for ch in lab.upper() if ch.isalpha())
        ok = got[0].value == lab.upper() and got[2].value == want_col
        res.ob('R7', fmt(key), {'reference': lab, 'label': got[0].value, 'column': got[2].value}, ok)
        if not ok:
            res.violation('R7', '%s:%s:label-case:constant' % key, m.where(f),
                          'the reference %s reaches the listener as label %r with column %r; a cell reference is case-insensitive: the payload '
                          'must be %r with column %r whatever the spelling' % (lab, got[0].value, got[2].value, lab.upper(), want_col),
                          case={'reference': lab}, func=key[1])
    res.soft_floor('constant spellings of a cell reference decided', n_const, 3)
    outs, (m, f, key) = c10.run_callback(ctx, 'call_range_value', lambda interp: [Sym('str', 'S'), Sym('str', 'E')], listener_script=lambda: [])
    n = 0
    for o in outs:
        if o.imprecise or o.kind != 'return' or not o.events:
            continue
        n += 1
        bad = []
        for cell in o.events[0][1][:2]:
            if not isinstance(cell, Obj):
                continue
            for part in ('row', 'col'):
                rec = cell.attrs.get(part)
                rl = rec.attrs.get('label') if isinstance(rec, Obj) else None
                if not (isinstance(rl, Atom) and rl.op == 'group' and (c10._is_upper_of(rl.args[0], 'S') or c10._is_upper_of(rl.args[0], 'E'))):
                    bad.append('%s part from %r' % (part, rl))
        res.ob('R7', fmt(key), 'range corners are decomposed from upper-cased labels', not bad, '; '.join(bad))
        if bad:
            res.violation('R7', '%s:%s:label-case' % key, m.where(f),
                          'range corners must be upper-cased before they are decomposed (%s)' % '; '.join(bad[:2]), func=key[1])
    # cell tokens accept both letter cases (language inclusion, shared with C10.R7)
    spec = {'ABSOLUTE_CELL': r'\$[A-Za-z]+\$[0-9]+', 'MIXED_CELL': r'(\$[A-Za-z]+[0-9]+)|([A-Za-z]+\$[0-9]+)', 'RELATIVE_CELL': r'[A-Za-z]+[0-9]+'}
    for tok, pat in sorted(spec.items()):
        t = g.lex_token(tok)
        if t is None:
            continue
        try:
            T = rx.build(t.regex)
            S = rx.build(pat)
            al = rx.alphabet([T, S])
            w = rx.difference_witness(S, T, al)
        except rx.Unsupported:
            continue
        res.ob('R7', 'lexer:t_' + tok, 'accepts labels in both letter cases', w is None, repr(w))
        if w is not None:
            res.violation('R7', 'lexer:t_%s:case' % tok, g.lexer_module.where(t.node),
                          'token %s does not match the label %r' % (tok, w), func='t_' + tok)


# ---------------------------------------------------------------------------------------------------
# R9: no rewriting pass between parse(text) and the lexer

CONTENT_METHODS = ('translate', 'replace', 'upper', 'lower', 'casefold', 'title', 'swapcase', 'capitalize', 'expandtabs', 'encode')
CONTENT_FUNCS = ('re.sub', 're.subn', 'unicodedata.normalize', 'regex.sub', 'str.translate', 'str.replace', 'str.upper', 'str.lower',
                 'str.casefold')


def content_transform(model, m, f, e, depth=0, seen=None):
    """Source text of the step when expression ``e`` (in function ``f``) is the result of a whole-text transformation of a value that
    comes from a parameter of ``f`` - one that applies to every character of the text, quoted or not.  None otherwise (unknown
    steps count as 'not known to be one')."""
    seen = seen if seen is not None else set()
    if depth > 4 or id(e) in seen:
        return None
    seen.add(id(e))
    if isinstance(e, ast.Name):
        for st_, val_ in sa.assignments_to(f, e.id):
            if val_ is not None:
                hit = content_transform(model, m, f, val_, depth + 1, seen)
                if hit:
                    return hit
        return None
    if isinstance(e, ast.IfExp):
        return content_transform(model, m, f, e.body, depth + 1, seen) or content_transform(model, m, f, e.orelse, depth + 1, seen)
    if isinstance(e, ast.BoolOp):
        for v in e.values:
            hit = content_transform(model, m, f, v, depth + 1, seen)
            if hit:
                return hit
        return None
    if not isinstance(e, ast.Call):
        return None
    params = set(sa.params(f))

    def from_param(x):
        names = set(n.id for n in ast.walk(x) if isinstance(n, ast.Name))
        if names & params:
            return True
        return any(val_ is not None and from_param(val_) for nm in names for st_, val_ in sa.assignments_to(f, nm)) if depth < 3 else False
    name = sa.call_name(e) or ''
    if isinstance(e.func, ast.Attribute) and e.func.attr in CONTENT_METHODS and from_param(e.func.value):
        return src(e)[:70]
    r = model.resolve_attr_chain(m, e.func) if isinstance(e.func, (ast.Name, ast.Attribute)) else None
    full = (r[1] + '.' + r[2]) if r is not None and r[0] == 'extattr' else None
    if (isinstance(e.func, ast.Attribute) and e.func.attr in ('sub', 'subn')) or full in ('re.sub', 're.subn', 'regex.sub'):
        # a substitution with a fixed replacement applies wherever the pattern matches; one computed per match by a function may well
        # tell quoted stretches from the rest - not known to be a whole-text transformation
        repl = e.args[1] if full is not None and len(e.args) > 1 else (e.args[0] if e.args else None)
        if isinstance(repl, ast.Constant) and isinstance(repl.value, str) and any(from_param(a) for a in e.args):
            return src(e)[:70]
        return None
    if full in CONTENT_FUNCS and any(from_param(a) for a in e.args):
        return src(e)[:70]
    if isinstance(e.func, ast.Attribute) and e.func.attr == 'join' and len(e.args) == 1 and \
            isinstance(e.args[0], (ast.GeneratorExp, ast.ListComp)) and len(e.args[0].generators) == 1 and \
            from_param(e.args[0].generators[0].iter) and not e.args[0].generators[0].ifs:
        return src(e)[:70]
    # a receiver that is itself a transformed text:  text.translate(T).strip()
    if isinstance(e.func, ast.Attribute):
        hit = content_transform(model, m, f, e.func.value, depth + 1, seen)
        if hit:
            return hit
    # a helper of the package: what it returns
    callee = None
    if r is not None and r[0] == 'func':
        callee = (r[1], r[2])
    elif isinstance(e.func, ast.Attribute) and isinstance(e.func.value, ast.Name) and e.func.value.id == sa.self_name(f):
        owner = m.enclosing_class(f) if hasattr(m, 'enclosing_class') else None
        if owner is not None:
            lm = model.lookup_method(m, owner, e.func.attr)
            if lm:
                callee = (lm[0], lm[2])
    if callee is not None and any(from_param(a) for a in list(e.args) + [k.value for k in e.keywords]):
        cm, cf = callee
        for n in walk_no_defs(cf):
            if isinstance(n, ast.Return) and n.value is not None:
                hit = content_transform(model, cm, cf, n.value, depth + 1, seen)
                if hit:
                    return '%s -> %s' % (src(e)[:40], hit)
    return None


def literal_text_rule(model, res, c, R, what):
    """The part of R9 that the properties about text VALUES depend on: no whole-text transformation (case mapping, translate, replace,
    regex substitution, Unicode normalisation) of the formula in front of the lexer - it would also transform what is written inside
    quoted literals, so the text operand is no longer the text that was written."""
    from .. import report
    tmp = report.Result('C05')
    sites = []
    _r9(model, tmp, c, collect=sites)
    n = 0
    for k, m, f, call, arg in sites:
        hit = content_transform(model, m, f, arg)
        n += 1
        res.ob(R, fmt(k), 'text handed to %s' % src(call.func), hit is None, hit or 'no whole-text transformation on the way')
        if hit:
            res.violation(R, '%s:%s:literal-text-rewritten' % k, m.where(call),
                          'the formula is transformed as a whole before it is lexed (%s): the transformation applies inside quoted literals '
                          'as well, so %s is no longer the text written in the formula (the same text supplied through a variable or a cell '
                          'stays as it is, and the two disagree)' % (hit, what), func=k[1])
    if not sites:
        res.ob(R, 'package', 'the formula text reaches the lexer as written (C05.R9 holds)', True)
    return n


def _r9(model, res, c, collect=None):
    """Every ply parse call takes its text argument straight from a parameter of the enclosing function, and every package call of
    that function passes its own parameter (or the text it was given) on in turn, up to the public parse().  Dropping surrounding
    whitespace is the one rewriting the whitespace rule makes harmless (R1: whitespace is a token of its own that is discarded)."""
    cg = c.cg
    sites = []
    for k, (m, f) in sorted(cg.funcs.items()):
        for n in ast.walk(f) if '.<locals>.' not in k[1] else []:
            if cg.is_yacc_parse(f, n):
                # the text is ply's first parameter, ``input``
                text_arg = n.args[0] if n.args else next((kw.value for kw in n.keywords if kw.arg == 'input'), None)
                if text_arg is not None:
                    sites.append((k, m, f, n, text_arg))
    res.floor('ply parse calls with a text argument', len(sites), 1)

    def origin(f, e, depth=0):
        """Parameter name the expression is (transitively, through once-bound locals and bare strip()) or None."""
        e = sa.resolve_local(f, e) if isinstance(e, ast.Name) else e
        if isinstance(e, ast.Name):
            return e.id if e.id in sa.params(f) else None
        if isinstance(e, ast.Call) and isinstance(e.func, ast.Attribute) and e.func.attr in ('strip', 'lstrip', 'rstrip') and not e.args \
                and not e.keywords and depth < 3:
            return origin(f, e.func.value, depth + 1)
        return None
    todo = list(sites)
    seen = set()
    n_links = 0
    while todo:
        k, m, f, call, arg = todo.pop()
        if (k, id(call)) in seen:
            continue
        seen.add((k, id(call)))
        par = origin(f, arg)
        n_links += 1
        # a text that does not come from a parameter at all (read from a console, a constant) is a source, not a rewriting
        full = arg
        for _ in range(4):
            full = sa.resolve_local(f, full) if isinstance(full, ast.Name) else full
        mentions = set(x.id for x in ast.walk(full) if isinstance(x, ast.Name)) & set(sa.params(f))
        if par is None and not mentions:
            res.ob('R9', fmt(k), 'text argument of %s' % src(call)[:60], True, 'a source of text (%s), not a hand-over' % src(arg)[:60])
            continue
        # the parameter itself must still hold the text: a rebinding (text = rewrite(text)) is a rewriting pass as well
        if par is not None:
            for st_, val_ in sa.assignments_to(f, par):
                if val_ is None or origin(f, val_) != par:
                    arg = val_ if val_ is not None else arg
                    par = None
                    break
        res.ob('R9', fmt(k), 'text argument of %s' % src(call)[:60], par is not None, src(arg)[:80])
        if par is None:
            if collect is not None:
                collect.append((k, m, f, call, arg))
            res.violation('R9', '%s:%s:text-rewritten' % k, m.where(call),
                          'the text handed to %s is %s, not the formula text this function was given: a pass that rewrites the formula in front '
                          'of the lexer also rewrites what is inside quoted literals and what separates the tokens - the lexical conventions are '
                          'those of the lexer, applied to the formula as written' % (src(call.func), src(arg)[:80]), func=k[1])
            continue
        idx = sa.params(f).index(par) - (1 if sa.self_name(f) else 0)
        # callers inside the package hand their own text on
        for ck in sorted(cg.callers_of(k)):
            cm, cf = cg.funcs[ck]
            for n in walk_no_defs(cf):
                if isinstance(n, ast.Call) and k in cg.sites.get((ck, id(n)), set()) and len(n.args) > idx:
                    todo.append((ck, cm, cf, n, n.args[idx]))
    res.analysed['links of the text hand-over chain'] = n_links
