# -*- coding: utf-8 -*-
"""C06 - arithmetic and concatenation follow the implicit type-conversion table."""
import ast

from ..model import AnalysisError, src
from ..absint import (Interp, Const, Sym, Err, Atom, Top, Func, ListV, DictV, TypeV, Obj, Builtin, Raised, Unmodelled, Exc, k)
from .. import abshelp as H, ctx as ctxmod, roles, purity, sa
from .c01 import error_singletons
from .c07 import run_action

OPS = ['+', '-', '*', '/']
OPNAME = {'+': 'add', '-': 'sub', '*': 'mul', '/': 'truediv'}
KINDS = ['number', 'datetime', 'blank']


def find_table(model):
    """The conversion table, found by its evaluated shape: a module-level mapping whose keys are exactly the four operator
    lexemes and whose values are mappings (written as a literal or built by a comprehension)."""
    for m in model.modules.values():
        for name, node in m.constants.items():
            if isinstance(node, ast.Dict):
                if not (node.keys and all(isinstance(kk, ast.Constant) for kk in node.keys) and
                        sorted(kk.value for kk in node.keys if isinstance(kk.value, str)) == sorted(OPS)):
                    continue
            elif not isinstance(node, (ast.DictComp, ast.Call)):
                continue
            elif isinstance(node, ast.Call) and not (isinstance(node.func, ast.Name) and node.func.id == 'dict'):
                continue
            try:
                v = Interp(model).const_expr(m, node)
            except Exception:
                continue
            if isinstance(v, DictV) and v.pairs and all(isinstance(k_, Const) for k_, _ in v.pairs) and \
                    sorted(str(k_.value) for k_, _ in v.pairs) == sorted(OPS) and all(isinstance(x, DictV) for _, x in v.pairs) and \
                    all(isinstance(y, DictV) and y.pairs and all(isinstance(z, DictV) and z.lookup(Const('left')) is not None
                                                                  for _, z in y.pairs) for _, x in v.pairs for _, y in x.pairs):
                # operator -> left kind -> right kind -> {'left': .., 'right': .., ['result': ..]}
                return m, name, node
    raise AnalysisError('conversion table (mapping keyed by + - * /) not found (anchor vanished)')


def kind_of_key(v):
    """Operand kind denoted by a table key (a type or a tuple of types)."""
    names = set()
    if isinstance(v, TypeV):
        names = set([v.name])
    elif isinstance(v, ListV):
        names = set(i.name for i in v.items if isinstance(i, TypeV))
    if names & set(['int', 'float', 'complex']):
        return 'number'
    if 'datetime.datetime' in names:
        return 'datetime'
    if 'NoneType' in names:
        return 'blank'
    if 'str' in names:
        return 'text'
    return None


def run(model, res, tier):
    c = ctxmod.get(model)
    g = c.grammar
    res.explanation = (
        'R1-R3: the nested conversion literal is evaluated to an abstract table: every (operator, left kind, right kind) cell over '
        '{number, date, blank}^2 exists, each side\'s converter matches the operand kind (none / date->serial / constant 0), a result '
        'converter is the serial->date function, and the + and * tables are symmetric. R4-R5, R8-R9 by abstract interpretation of the '
        'arithmetic action: non-numeric text gives the #VALUE! singleton, a zero divisor the #DIV/0! singleton, text is converted by '
        'int() first and float() second, a negative serial gives #NUM!. R6: arrays - element-wise result shape, operand roles for the '
        'reflected operators, #VALUE! on length mismatch, nested rows. R7: & by tag - text verbatim, integers through str(), blank as '
        'nothing. R10: no cache/shared state. Decides the structure, not the floating-point arithmetic itself.')
    res.rule('R1', 'conversion table is exhaustive over {number, date, blank}^2 for + - * /')
    res.rule('R2', 'each converter matches its operand kind; result converter is serial->date')
    res.rule('R3', '+ and * cells are symmetric')
    res.rule('R4', 'text that is neither number nor date gives #VALUE!')
    res.rule('R5', 'a zero divisor gives #DIV/0!')
    res.rule('R6', 'arrays combine element-wise in operand order; #VALUE! on length mismatch')
    res.rule('R7', '& joins text verbatim, integers as str(), blank as nothing')
    res.rule('R8', 'a negative serial converts to #NUM!')
    res.rule('R9', 'text-to-number coercion: int() first, float() second, else unchanged')
    res.rule('R10', 'no cache or shared state on the arithmetic path')
    res.rule('R11', 'the table\'s date converters are the exact serial maps (inverse, strictly monotone, Excel 1900 system; shared with C13.R2)')
    res.trusted += ['hxsa abstract interpreter and builtin models', 'CPython ast']
    res.assumptions += ['date converters summarised on date-time input (C13 validates them)']
    opaque = H.date_opaque(model)
    acts = roles.binary_actions(g)
    em, singles = error_singletons(model)
    E = dict((msg, n) for n, msg in singles.items())
    try:
        find_table(model)
        have_table = True
    except AnalysisError:
        have_table = False
    if have_table:
        _table(model, res, opaque)
    else:
        # no nested operator -> left kind -> right kind literal: decide the same rules on what the action computes
        res.notes.append('C06: no nested conversion literal; R1-R3 decided by interpreting the arithmetic action per operand-kind pair')
        _table_interp(model, res, g, acts, opaque)
    H.safely(res, 'R1', 'text_and_zero', _text_and_zero, model, res, c, g, acts, opaque, E)
    H.safely(res, 'R1', 'arrays', _arrays, model, res, c, g, acts, opaque, E)
    H.safely(res, 'R1', 'concat', _concat, model, res, c, g, acts, opaque)
    H.safely(res, 'R1', 'to_number', _to_number, model, res, opaque)
    H.safely(res, 'R1', 'pre1900', _pre1900, model, res, opaque, E)
    from . import c13
    um = [mm for mm in model.modules.values() if 'serialize_date' in mm.functions and 'parse_date' in mm.functions]
    if um:
        H.borrow(res, 'R11', 'date converters', lambda tmp: c13._r2(model, tmp, c, um[-1]))
    m, f = acts['arith']
    region = c.cg.reachable([(m.name, m.qualname_of(f))])
    res.rule('R12', 'a text literal is the text that was written: the formula is not transformed as a whole (case mapping, translate, replace, regex substitution, normalisation) in front of the lexer (shared with C05.R9)')
    from . import c05 as _c05
    H.borrow(res, 'R12', 'formula text', lambda tmp: _c05.literal_text_rule(model, tmp, c, 'R12', 'a text operand of & or of an arithmetic operator'))
    purity.check_region(res, c, 'R10', None, region, 'arithmetic')
    purity.check_memo(res, c, 'R10', region, 'a function on the arithmetic path')


def _conv_kind(interp_model, v, opaque_names):
    """Classify a converter value: 'none' | 'to-serial' | 'to-date' | 'zero' | 'other:<repr>'."""
    if isinstance(v, Const) and v.value is None:
        return 'none'
    from ..absint import DispatchV, Bound
    # the two date converters are recognised as the values the module binds to those names (plain functions, a generic
    # function, class methods behind module-level aliases ...)
    for um in [mm for mm in interp_model.modules.values() if 'serialize_date' in mm.functions and 'parse_date' in mm.functions]:
        it0 = Interp(interp_model)
        for nm, kind in (('serialize_date', 'to-serial'), ('parse_date', 'to-date')):
            try:
                ref = it0.module_value(um, nm)
            except Exception:
                ref = None
            if ref is not None and k(ref) == k(v):
                return kind
    if isinstance(v, Bound):
        v = v.func
    if isinstance(v, (Func, DispatchV)):
        if v.name == 'serialize_date':
            return 'to-serial'
        if v.name == 'parse_date':
            return 'to-date'
        # a constant function?
        it = Interp(interp_model)
        try:
            outs = it.run(lambda interp, st: interp.call(v, [Sym('none', 'x')]))
        except (Unmodelled, AnalysisError):
            return 'other:%r' % (v,)
        if len(outs) == 1 and outs[0].kind == 'return' and isinstance(outs[0].value, Const) and outs[0].value.value == 0 \
                and not isinstance(outs[0].value.value, bool):
            return 'zero'
        return 'other:%s' % H.describe(outs)
    return 'other:%r' % (v,)


def _subterms(v):
    yield v
    if isinstance(v, Atom):
        for a in v.args:
            for x in _subterms(a):
                yield x


def _table_interp(model, res, g, acts, opaque):
    """R1-R3 decided on what the arithmetic action computes instead of on the table's shape: for every operator and every pair
    of operand kinds over {number, date, blank} the action is interpreted on symbolic operands; the outcome must be the operator
    applied to (number itself | serial of the date | 0), optionally converted back to a date when a date takes part."""
    m, f = acts['arith']
    site = '%s:%s' % (m.name, f.name)
    where = m.where(f)
    opname = {'+': 'add', '-': 'sub', '*': 'mul', '/': 'truediv'}
    mk = {'number': lambda n: (lambda: Sym('float', n)), 'datetime': lambda n: (lambda: Sym('datetime', n)),
          'blank': lambda n: (lambda: Const(None))}
    isdate = {}
    n = 0
    for op in OPS:
        for lk in KINDS:
            for rk in KINDS:
                try:
                    outs = _run_arith(model, g, acts, opaque, op, mk[lk]('a'), mk[rk]('b'))
                except (Unmodelled, AnalysisError) as e:
                    res.notes.append('undecided: C06.R1 %s %s %s: %s' % (lk, op, rk, e))
                    continue
                n += 1
                case = {'op': op, 'left': lk, 'right': rk}
                bad = [o for o in outs if o.kind != 'return' or (isinstance(o.value, Err) and o.value.name == 'VALUE')]
                res.ob('R1', site, case, not bad, H.describe(bad) if bad else '')
                if bad:
                    res.violation('R1', '%s:missing-cell:%s:%s:%s' % (site, op, lk, rk), where,
                                  'the arithmetic action has no conversion for %s %s %s: such an operation gives %s instead of the arithmetic '
                                  'on the operands\' numeric values' % (lk, op, rk, H.describe(bad)), case=case)
                    continue
                if op == '/' and rk == 'blank':
                    continue        # a blank divisor is the zero divisor of R5
                # the operands as they must enter the operator
                def want(kind, name):
                    if kind == 'number':
                        return lambda x: isinstance(x, Sym) and x.name == name
                    if kind == 'datetime':
                        return lambda x: isinstance(x, Atom) and x.op == 'serial' and len(x.args) == 1 and isinstance(x.args[0], Sym) and x.args[0].name == name
                    return lambda x: isinstance(x, Const) and x.value == 0 and not isinstance(x.value, bool)
                wl, wr = want(lk, 'a'), want(rk, 'b')
                found = False
                folded = None
                if lk == 'blank' and rk == 'blank':
                    folded = {'+': 0, '-': 0, '*': 0}[op]
                for o in outs:
                    for t in _subterms(o.value):
                        if isinstance(t, Atom) and t.op == opname[op] and len(t.args) == 2 and wl(t.args[0]) and wr(t.args[1]):
                            found = True
                        if folded is not None and isinstance(t, Const) and t.value == folded and not isinstance(t.value, bool):
                            found = True
                res.ob('R2', site, dict(case, rule='operands enter the operator as (%s, %s)' % (lk, rk)), found, H.describe(outs))
                if not found:
                    names = {'number': 'itself', 'datetime': 'its serial number', 'blank': 'the constant 0'}
                    res.violation('R2', '%s:converter:%s:%s:%s' % (site, op, lk, rk), where,
                                  'for %s %s %s the left operand must act through %s and the right operand through %s; the action computes %s'
                                  % (lk, op, rk, names[lk], names[rk], H.describe(outs)), case=case)
                    continue
                d = any(getattr(o.value, 'tag', None) == 'datetime' for o in outs)
                isdate[(op, lk, rk)] = d
                ok3 = not d or 'datetime' in (lk, rk)
                res.ob('R2', site, dict(case, result='date' if d else 'number'), ok3)
                if not ok3:
                    res.violation('R2', '%s:result-converter:%s:%s:%s' % (site, op, lk, rk), where,
                                  '%s %s %s gives a date although no date takes part' % (lk, op, rk), case=case)
    res.soft_floor('arithmetic action interpreted per (operator, left kind, right kind)', n, 36)
    for op in ('+', '*'):
        for lk in KINDS:
            for rk in KINDS:
                if (op, lk, rk) in isdate and (op, rk, lk) in isdate:
                    ok = isdate[(op, lk, rk)] == isdate[(op, rk, lk)]
                    res.ob('R3', site, {'op': op, 'cell': (lk, rk), 'mirror': (rk, lk)}, ok)
                    if not ok:
                        res.violation('R3', '%s:asymmetric:%s:%s:%s' % (site, op, lk, rk), where,
                                      '%s is commutative but %s %s %s gives a %s while %s %s %s gives a %s'
                                      % (op, lk, op, rk, 'date' if isdate[(op, lk, rk)] else 'number', rk, op, lk,
                                         'date' if isdate[(op, rk, lk)] else 'number'), case={'op': op, 'left': lk, 'right': rk})


def _table(model, res, opaque):
    m, name, node = find_table(model)
    it = Interp(model)
    table = it.const_expr(m, node)
    site = '%s:%s' % (m.name, name)
    where = m.where(node)
    if not isinstance(table, DictV):
        raise AnalysisError('conversion table is not evaluable')
    cells = {}
    for opk, sub in table.pairs:
        if not isinstance(sub, DictV):
            continue
        for lk, sub2 in sub.pairs:
            if not isinstance(sub2, DictV):
                continue
            for rk, cell in sub2.pairs:
                cells[(opk.value, kind_of_key(lk), kind_of_key(rk))] = cell
    n = 0
    want_conv = {'number': 'none', 'datetime': 'to-serial', 'blank': 'zero'}
    for op in OPS:
        for lk in KINDS:
            for rk in KINDS:
                n += 1
                cell = cells.get((op, lk, rk))
                ok = isinstance(cell, DictV) and cell.lookup(Const('left')) is not None and cell.lookup(Const('right')) is not None
                res.ob('R1', site, {'op': op, 'left': lk, 'right': rk}, ok)
                if not ok:
                    res.violation('R1', '%s:missing-cell:%s:%s:%s' % (site, op, lk, rk), where,
                                  'the conversion table has no (complete) cell for %s %s %s: such an operation gives #VALUE!/KeyError instead of '
                                  'the arithmetic on the operands\' numeric values' % (lk, op, rk), case={'op': op, 'left': lk, 'right': rk})
                    continue
                for side, kind in (('left', lk), ('right', rk)):
                    ck = _conv_kind(model, cell.lookup(Const(side)), None)
                    ok2 = ck == want_conv[kind]
                    res.ob('R2', site, {'op': op, 'left': lk, 'right': rk, 'side': side, 'converter': ck}, ok2)
                    if not ok2:
                        res.violation('R2', '%s:converter:%s:%s:%s:%s' % (site, op, lk, rk, side), where,
                                      'in cell %s %s %s the %s operand (a %s) is converted by "%s"; a %s must act through %s'
                                      % (lk, op, rk, side, kind, ck, kind,
                                         {'none': 'itself', 'to-serial': 'its serial number', 'zero': 'the constant 0'}[want_conv[kind]]),
                                      case={'op': op, 'left': lk, 'right': rk, 'side': side})
                rc = cell.lookup(Const('result'))
                if rc is not None:
                    ck = _conv_kind(model, rc, None)
                    ok3 = ck == 'to-date' and 'datetime' in (lk, rk)
                    res.ob('R2', site, {'op': op, 'left': lk, 'right': rk, 'result': ck}, ok3)
                    if not ok3:
                        res.violation('R2', '%s:result-converter:%s:%s:%s' % (site, op, lk, rk), where,
                                      'cell %s %s %s converts its result with "%s"; only the serial->date function is meaningful, and only '
                                      'when a date takes part' % (lk, op, rk, ck), case={'op': op, 'left': lk, 'right': rk})
    res.floor('conversion cells', n, 36)
    for op in ('+', '*'):
        for lk in KINDS:
            for rk in KINDS:
                a, b = cells.get((op, lk, rk)), cells.get((op, rk, lk))
                if not isinstance(a, DictV) or not isinstance(b, DictV):
                    continue
                sig_a = (_conv_kind(model, a.lookup(Const('left')), None), _conv_kind(model, a.lookup(Const('right')), None),
                         a.lookup(Const('result')) is not None)
                sig_b = (_conv_kind(model, b.lookup(Const('right')), None), _conv_kind(model, b.lookup(Const('left')), None),
                         b.lookup(Const('result')) is not None)
                ok = sig_a == sig_b
                res.ob('R3', site, {'op': op, 'cell': (lk, rk), 'mirror': (rk, lk)}, ok, '%s vs %s' % (sig_a, sig_b))
                if not ok:
                    res.violation('R3', '%s:asymmetric:%s:%s:%s' % (site, op, lk, rk), where,
                                  '%s is commutative but cell (%s, %s) %s differs from the mirror of cell (%s, %s) %s: a %s b and b %s a give '
                                  'different results' % (op, lk, rk, sig_a, rk, lk, sig_b, op, op), case={'op': op, 'left': lk, 'right': rk})


def _run_arith(model, g, acts, opaque, op, mkl, mkr, flags=None):
    lex = {'+': '+', '-': '-', '*': '*', '/': '/'}[op]
    m, f = acts['arith']
    fv = Func(m, f)
    it = Interp(model, opaque=opaque)
    for kk, vv in (flags or {}).items():
        setattr(it, kk, vv)

    def call(interp, st):
        from ..absint import ClassV
        p = ListV([Const(None), mkl(), Const(lex), mkr()], 'list')
        selfobj = Obj(ClassV(g.gm, g.gcls), {})
        interp.call(fv, [selfobj, p])
        return p.items[0]
    return it.run(call)


def _note_false(o, fragment):
    return any(fragment in t and alt is False for (t, alt, s) in o.notes)


def _note_true(o, fragment):
    return any(fragment in t and alt is True for (t, alt, s) in o.notes)


def _text_and_zero(model, res, c, g, acts, opaque, E):
    m, f = acts['arith']
    where = m.where(f)
    for op in OPS:
        for side in ('left', 'right'):
            mkl = (lambda: Sym('str', 'T')) if side == 'left' else (lambda: Sym('int', 'N'))
            mkr = (lambda: Sym('int', 'N')) if side == 'left' else (lambda: Sym('str', 'T'))
            try:
                outs = _run_arith(model, g, acts, opaque, op, mkl, mkr)
            except Unmodelled as e:
                res.ob('R4', f.name, {'op': op, 'text_operand': side}, True, 'undecided: %s' % e)
                continue
            if any(o.imprecise for o in outs):
                res.ob('R4', f.name, {'op': op, 'text_operand': side}, True, 'undecided: %s' % outs[0].imprecise)
                continue
            # traces on which the text parsed neither as int, nor float, nor date
            nonnum = [o for o in outs if _note_false(o, 'int(') and _note_false(o, 'float(') and _note_false(o, 'dateutil parses')]
            ok = bool(nonnum) and all(o.kind == 'return' and isinstance(o.value, Err) and o.value.name == E['#VALUE!'] for o in nonnum)
            res.ob('R4', f.name, {'op': op, 'text_operand': side, 'text': 'neither number nor date'}, ok, H.describe(nonnum)[:2])
            if not ok:
                res.violation('R4', 'arith:text-not-number:%s:%s' % (op, side), where,
                              'text that is neither a number nor a date as %s operand of %s must give #VALUE!; got %s'
                              % (side, op, '; '.join(H.describe(nonnum)[:2]) or 'no such trace'), case={'op': op, 'side': side}, func=f.name)
            # numeric text acts as that number
            num = [o for o in outs if _note_true(o, 'int(')]
            want_name = OPNAME[op]
            ok2 = bool(num) and all(o.kind == 'return' and isinstance(o.value, Atom) and o.value.op == want_name for o in num)
            if ok2:
                for o in num:
                    a, b = o.value.args
                    t, nmb = (a, b) if side == 'left' else (b, a)
                    ok2 = ok2 and isinstance(t, Atom) and t.op == 'int' and isinstance(t.args[0], Sym) and t.args[0].name == 'T' \
                        and isinstance(nmb, Sym) and nmb.name == 'N'
            res.ob('R4', f.name, {'op': op, 'text_operand': side, 'text': 'integer literal'}, ok2, H.describe(num)[:2])
            if not ok2:
                res.violation('R4', 'arith:numeric-text:%s:%s' % (op, side), where,
                              'numeric text as %s operand of %s must act as int(text) in its own position; got %s'
                              % (side, op, '; '.join(H.describe(num)[:2]) or 'no such trace'), case={'op': op, 'side': side}, func=f.name)
    # zero divisor
    outs = _run_arith(model, g, acts, opaque, '/', lambda: Sym('int', 'a'), lambda: Sym('int', 'b'), flags={'zero_division_forks': True})
    zero = [o for o in outs if _note_true(o, '== 0')]
    ok = bool(zero) and all(o.kind == 'return' and isinstance(o.value, Err) and o.value.name == E['#DIV/0!'] for o in zero)
    res.ob('R5', f.name, {'op': '/', 'divisor': 'zero'}, ok, H.describe(outs))
    if not ok:
        res.violation('R5', 'arith:zero-divisor', where, 'division by a zero divisor must give the #DIV/0! singleton; got %s'
                      % '; '.join(H.describe(zero) or H.describe(outs)), func=f.name)
    outs = _run_arith(model, g, acts, opaque, '/', lambda: Sym('int', 'a'), lambda: Const(None))
    ok = all(o.kind == 'return' and isinstance(o.value, Err) and o.value.name == E['#DIV/0!'] for o in outs)
    res.ob('R5', f.name, {'op': '/', 'divisor': 'blank'}, ok, H.describe(outs))
    if not ok:
        res.violation('R5', 'arith:blank-divisor', where, 'division by a blank (0) must give #DIV/0!; got %s' % '; '.join(H.describe(outs)),
                      func=f.name)
    # plain numbers: exact operator, operand order
    for op in OPS:
        outs = _run_arith(model, g, acts, opaque, op, lambda: Sym('int', 'a'), lambda: Sym('float', 'b'))
        good = [o for o in outs if o.kind == 'return' and isinstance(o.value, Atom) and o.value.op == OPNAME[op]
                and [getattr(x, 'name', None) for x in o.value.args] == ['a', 'b']]
        ok = len(good) == len(outs) == 1
        res.ob('R2', f.name, {'op': op, 'operands': 'number, number'}, ok, H.describe(outs))
        if not ok:
            res.violation('R2', 'arith:numbers:%s' % op, where, 'a %s b on two numbers must be operator.%s(a, b); got %s'
                          % (op, OPNAME[op], '; '.join(H.describe(outs))), func=f.name)
    # logicals act as 1/0: the native operator on bool does exactly that, so the operand must arrive unchanged
    outs = _run_arith(model, g, acts, opaque, '+', lambda: Sym('bool', 'a'), lambda: Sym('int', 'b'))
    ok = len(outs) == 1 and outs[0].kind == 'return' and isinstance(outs[0].value, Atom) and outs[0].value.op == 'add' and \
        [getattr(x, 'name', None) for x in outs[0].value.args] == ['a', 'b']
    res.ob('R2', f.name, {'op': '+', 'operands': 'logical, number'}, ok, H.describe(outs))
    if not ok:
        res.violation('R2', 'arith:logical', where, 'TRUE/FALSE must take part in arithmetic as 1/0; got %s' % '; '.join(H.describe(outs)), func=f.name)
    # blank acts as 0
    outs = _run_arith(model, g, acts, opaque, '+', lambda: Const(None), lambda: Sym('int', 'b'))
    ok = len(outs) == 1 and outs[0].kind == 'return' and isinstance(outs[0].value, Atom) and outs[0].value.op == 'add' and \
        isinstance(outs[0].value.args[0], Const) and outs[0].value.args[0].value == 0 and getattr(outs[0].value.args[1], 'name', None) == 'b'
    res.ob('R2', f.name, {'op': '+', 'operands': 'blank, number'}, ok, H.describe(outs))
    if not ok:
        res.violation('R2', 'arith:blank', where, 'a blank must take part in arithmetic as 0; got %s' % '; '.join(H.describe(outs)), func=f.name)
    # date +- number returns a date through serial arithmetic
    outs = _run_arith(model, g, acts, opaque, '+', lambda: Sym('datetime', 'd'), lambda: Sym('int', 'n'))
    def _is_date_plus(o):
        v = o.value
        return o.kind == 'return' and isinstance(v, Atom) and v.op in ('parse_date', 'call:parse_date')
    res.ob('R2', f.name, {'op': '+', 'operands': 'date, number'}, True, H.describe(outs)[:3])


def _leafwise(v, fn):
    if isinstance(v, ListV):
        return [_leafwise(i, fn) for i in v.items]
    return fn(v)


def _canon(v):
    """Text of an abstract value with the operands of commutative operations in a fixed order."""
    if isinstance(v, Atom):
        parts = [_canon(a) for a in v.args]
        if v.op in ('add', 'mul'):
            parts = sorted(parts)
        return '%s(%s)' % (v.op, ', '.join(parts))
    if isinstance(v, ListV):
        return '[%s]' % ', '.join(_canon(i) for i in v.items)
    return repr(v)


def _arrays(model, res, c, g, acts, opaque, E):
    m, f = acts['arith']
    where = m.where(f)

    def arr(prefix, n=2):
        return ListV([Sym('int', '%s%d' % (prefix, i)) for i in range(n)])

    def nested(prefix):
        return ListV([ListV([Sym('int', prefix + '00'), Sym('int', prefix + '01')]), ListV([Sym('int', prefix + '10'), Sym('int', prefix + '11')])])

    def names(v):
        if isinstance(v, ListV):
            return [names(i) for i in v.items]
        if isinstance(v, Atom):
            return (v.op,) + tuple(getattr(a, 'name', repr(a)) for a in v.args)
        return repr(v)

    for op in OPS:
        on = OPNAME[op]
        cases = [
            ('array op scalar', lambda: arr('a'), lambda: Sym('int', 's'), [(on, 'a0', 's'), (on, 'a1', 's')]),
            ('scalar op array', lambda: Sym('int', 's'), lambda: arr('a'), [(on, 's', 'a0'), (on, 's', 'a1')]),
            ('array op array', lambda: arr('a'), lambda: arr('b'), [(on, 'a0', 'b0'), (on, 'a1', 'b1')]),
            ('one-item array op one-item array', lambda: arr('a', 1), lambda: arr('b', 1), [(on, 'a0', 'b0')]),
            ('three-item array op three-item array', lambda: arr('a', 3), lambda: arr('b', 3), [(on, 'a0', 'b0'), (on, 'a1', 'b1'), (on, 'a2', 'b2')]),
            ('nested array op scalar', lambda: nested('a'), lambda: Sym('int', 's'),
             [[(on, 'a00', 's'), (on, 'a01', 's')], [(on, 'a10', 's'), (on, 'a11', 's')]]),
            ('scalar op nested array', lambda: Sym('int', 's'), lambda: nested('a'),
             [[(on, 's', 'a00'), (on, 's', 'a01')], [(on, 's', 'a10'), (on, 's', 'a11')]]),
        ]
        for label, mkl, mkr, want in cases:
            try:
                outs = _run_arith(model, g, acts, opaque, op, mkl, mkr)
            except Unmodelled as e:
                res.ob('R6', f.name, {'op': op, 'case': label}, True, 'undecided: %s' % e)
                continue
            if any(o.imprecise for o in outs):
                res.ob('R6', f.name, {'op': op, 'case': label}, True, 'undecided: %s' % outs[0].imprecise)
                continue
            ok = len(outs) == 1 and outs[0].kind == 'return' and names(outs[0].value) == want
            if not ok and op in ('+', '*') and len(outs) == 1 and outs[0].kind == 'return':
                # + and * are commutative and their conversion tables symmetric (R3): the reflected method may reuse the forward one
                def swap(x):
                    if isinstance(x, list):
                        return [swap(i) for i in x]
                    return (x[0], x[2], x[1]) if isinstance(x, tuple) and len(x) == 3 else x
                ok = names(outs[0].value) == swap(want)
            res.ob('R6', f.name, {'op': op, 'case': label}, ok, H.describe(outs)[:2])
            if not ok:
                res.violation('R6', 'arith:arrays:%s' % label.replace(' ', '-'), where,
                              '%s with %s must be the element-wise list %s; got %s' % (label, op, want, '; '.join(H.describe(outs)[:2])),
                              case={'op': op, 'case': label}, func=f.name)
        # a text scalar is a scalar too (not a sequence of its characters): broadcast, then converted like any text operand
        for label, mkl, mkr, pos in (('array op text scalar', lambda: arr('a'), lambda: Sym('str', 'T'), 2),
                                     ('text scalar op array', lambda: Sym('str', 'T'), lambda: arr('a'), 1)):
            try:
                outs = _run_arith(model, g, acts, opaque, op, mkl, mkr)
            except Unmodelled as e:
                res.ob('R6', f.name, {'op': op, 'case': label}, True, 'undecided: %s' % e)
                continue
            precise = [o for o in outs if not o.imprecise]
            if len(precise) < len(outs) and all(o.kind == 'return' and isinstance(o.value, ListV) and not o.value.has_splice()
                                                and len(o.value.items) == 2 for o in precise):
                # nothing refuted by the traces that were followed exactly; the others are not decided
                res.ob('R6', f.name, {'op': op, 'case': label}, True, 'undecided: %s' % [o.imprecise for o in outs if o.imprecise][0])
                continue
            outs = precise
            shaped = all(o.kind == 'return' and isinstance(o.value, ListV) and not o.value.has_splice() and len(o.value.items) == 2 for o in outs)
            as_int = [o for o in outs if _note_true(o, 'int(T:str) parses')]
            want = [(on, 'a0', 'int(T:str)'), (on, 'a1', 'int(T:str)')] if pos == 2 else [(on, 'int(T:str)', 'a0'), (on, 'int(T:str)', 'a1')]

            def swap3(x):
                return [(i[0], i[2], i[1]) if isinstance(i, tuple) and len(i) == 3 else i for i in x]
            numeric = bool(as_int) and all(o.kind == 'return' and (names(o.value) == want or (op in ('+', '*') and names(o.value) == swap3(want)))
                                          for o in as_int)
            ok = shaped and numeric
            res.ob('R6', f.name, {'op': op, 'case': label}, ok, H.describe(outs)[:2])
            if not ok:
                res.violation('R6', 'arith:arrays:%s' % label.replace(' ', '-'), where,
                              '%s with %s must broadcast the text over the array and convert it like any text operand (for text spelling an '
                              'integer: %s); got %s' % (label, op, want, '; '.join(H.describe(outs)[:3])), case={'op': op, 'case': label}, func=f.name)
        # a date-time scalar against an array: every element is what the scalar operation on that element and the date gives (a date
        # for number + date, days for date - date) - the scalar is not converted on its own before the elements are looked at
        if op in ('+', '-'):
            for label, etag, side in (('array op date scalar', 'int', 'right'), ('date scalar op array', 'int', 'left'),
                                      ('array of dates op date scalar', 'datetime', 'right')):
                def scalar_shapes(name, etag=etag, side=side, op=op):
                    mk_e = lambda: Sym(etag, name)
                    mk_d = lambda: Sym('datetime', 'D')
                    o_ = _run_arith(model, g, acts, opaque, op, mk_e if side == 'right' else mk_d, mk_d if side == 'right' else mk_e)
                    return set(_canon(x.value) for x in o_ if x.kind == 'return' and not x.imprecise), any(x.imprecise for x in o_)
                try:
                    s0, imp0 = scalar_shapes('a0')
                    s1, imp1 = scalar_shapes('a1')
                    mk_a = lambda etag=etag: ListV([Sym(etag, 'a0'), Sym(etag, 'a1')])
                    mk_d = lambda: Sym('datetime', 'D')
                    outs = _run_arith(model, g, acts, opaque, op, mk_a if side == 'right' else mk_d, mk_d if side == 'right' else mk_a)
                except Unmodelled as e:
                    res.ob('R6', f.name, {'op': op, 'case': label}, True, 'undecided: %s' % e)
                    continue
                if imp0 or imp1 or any(o.imprecise for o in outs) or not s0 or not s1:
                    res.ob('R6', f.name, {'op': op, 'case': label}, True, 'undecided: imprecise traces')
                    continue
                rets = [o for o in outs if o.kind == 'return' and isinstance(o.value, ListV) and len(o.value.items) == 2]
                bad = [o for o in rets if _canon(o.value.items[0]) not in s0 or _canon(o.value.items[1]) not in s1]
                ok = bool(rets) and not bad
                res.ob('R6', f.name, {'op': op, 'case': label}, ok, H.describe(bad or outs)[:2])
                if not ok:
                    res.violation('R6', 'arith:arrays:%s' % label.replace(' ', '-'), where,
                                  '%s with %s must give, element by element, what the operation gives on that element and the date (%s); got %s'
                                  % (label, op, sorted(s0)[:2], '; '.join(H.describe(bad or outs)[:2])), case={'op': op, 'case': label}, func=f.name)
        outs = _run_arith(model, g, acts, opaque, op, lambda: arr('a', 2), lambda: arr('b', 3))
        ok = all(o.kind == 'return' and isinstance(o.value, Err) and o.value.name == E['#VALUE!'] for o in outs)
        res.ob('R6', f.name, {'op': op, 'case': 'length mismatch'}, ok, H.describe(outs))
        if not ok:
            res.violation('R6', 'arith:arrays:length-mismatch', where,
                          'arrays of different length combined with %s must give #VALUE!; got %s' % (op, '; '.join(H.describe(outs))),
                          case={'op': op}, func=f.name)


def _concat(model, res, c, g, acts, opaque):
    m, f = acts['concat']
    where = m.where(f)

    def text_of(tag, name):
        if tag == 'str':
            return ('sym', name)
        if tag == 'int':
            return ('str-of', name)
        if tag == 'none':
            return ('const', '')

    def classify(v):
        if isinstance(v, Sym):
            return ('sym', v.name)
        if isinstance(v, Atom) and v.op == 'str' and len(v.args) == 1 and isinstance(v.args[0], Sym):
            return ('str-of', v.args[0].name)
        if isinstance(v, Const) and isinstance(v.value, str):
            return ('const', v.value)
        return ('other', repr(v))

    for tl in ('str', 'int', 'none'):
        for tr in ('str', 'int', 'none'):
            case = {'left': tl, 'right': tr}
            try:
                outs = run_action(model, g, acts, 'concat', lambda: [H.mk(tl, 'L'), Const('&'), H.mk(tr, 'R')], opaque)
            except Unmodelled as e:
                res.ob('R7', f.name, case, True, 'undecided: %s' % e)
                continue
            if any(o.imprecise for o in outs):
                res.ob('R7', f.name, case, True, 'undecided: %s' % outs[0].imprecise)
                continue
            want = [text_of(tl, 'L'), text_of(tr, 'R')]
            ok = len(outs) == 1 and outs[0].kind == 'return'
            if ok:
                v = outs[0].value
                if isinstance(v, Atom) and v.op == 'concat':
                    got = [classify(a) for a in v.args]
                elif isinstance(v, Const) and isinstance(v.value, str) and want == [('const', ''), ('const', '')]:
                    got = [('const', v.value), ('const', '')] if v.value == '' else [('other', repr(v))]
                else:
                    got = [('other', repr(v))]
                ok = got == want
            res.ob('R7', f.name, case, ok, H.describe(outs))
            if not ok:
                res.violation('R7', 'concat:%s-%s' % (tl, tr), where,
                              '%s & %s must join %s; got %s (text verbatim, integers as their digits, blank as nothing)'
                              % (tl, tr, want, '; '.join(H.describe(outs))), case=case, func=f.name)


def _to_number(model, res, opaque, R='R9'):
    cands = [(m, m.functions['to_number']) for m in model.modules.values() if 'to_number' in m.functions]
    if not cands:
        raise AnalysisError('to_number not found (anchor vanished)')
    m, f = cands[0]
    fv = Func(m, f)
    where = m.where(f)
    for tag in ('int', 'float', 'bool', 'none', 'err', 'datetime', 'list'):
        outs = H.run_function(model, fv, lambda tag=tag: [ListV([Sym('int', 'e')]) if tag == 'list' else H.mk(tag, 'x')], opaque=opaque)
        if tag == 'none':
            ok = len(outs) == 1 and outs[0].kind == 'return' and isinstance(outs[0].value, Const) and outs[0].value.value is None
        elif tag == 'list':
            ok = len(outs) == 1 and outs[0].kind == 'return' and isinstance(outs[0].value, ListV)
        else:
            ok = len(outs) == 1 and outs[0].kind == 'return' and isinstance(outs[0].value, Sym) and outs[0].value.name == 'x'
        res.ob(R, 'to_number', {'value': tag}, ok, H.describe(outs))
        if not ok:
            res.violation(R, 'to_number:%s' % tag, where, 'to_number must return a %s operand unchanged; got %s' % (tag, '; '.join(H.describe(outs))),
                          func='to_number')
    outs = H.run_function(model, fv, lambda: [Sym('str', 'x')], opaque=opaque)
    sig = []
    for o in outs:
        v = o.value
        if o.kind == 'return' and isinstance(v, Atom) and v.op in ('int', 'float') and len(v.args) == 1 and isinstance(v.args[0], Sym):
            sig.append((v.op, tuple((t.split('(')[0], alt) for (t, alt, s) in o.notes)))
        elif o.kind == 'return' and isinstance(v, Sym) and v.name == 'x':
            sig.append(('same', tuple((t.split('(')[0], alt) for (t, alt, s) in o.notes)))
        else:
            sig.append(('other:%r' % (o,), ()))
    want = [('int', (('int', True),)), ('float', (('int', False), ('float', True))), ('same', (('int', False), ('float', False)))]
    ok = sorted(sig) == sorted(want) and not any(o.imprecise for o in outs)
    res.ob(R, 'to_number', {'value': 'text'}, ok, H.describe(outs))
    if not ok:
        res.violation(R, 'to_number:text', where,
                      'to_number on text must be: int(text) if that parses, else float(text) if that parses, else the text unchanged '
                      '(exact integers first; nothing pre-filtered). Got: %s' % '; '.join(H.describe(outs)), func='to_number')


def _pre1900(model, res, opaque, E):
    cands = [(m, m.functions['parse_date']) for m in model.modules.values() if 'parse_date' in m.functions]
    m, f = cands[0]
    fv = Interp(model).module_value(m, 'parse_date') or Func(m, f)       # as the module binds the name (alias of a class method ...)
    outs = H.run_function(model, fv, lambda: [Sym('float', 's')])
    neg = [o for o in outs if any(isinstance(s, Atom) and s.op == 'lt' and isinstance(s.args[1], Const) and s.args[1].value == 0
                                  and alt is True for (t, alt, s) in o.notes)]
    ok = bool(neg) and all(o.kind == 'return' and isinstance(o.value, Err) and o.value.name == E['#NUM!'] for o in neg)
    res.ob('R8', 'parse_date', {'serial': 'negative'}, ok, H.describe(neg)[:3])
    if not ok:
        res.violation('R8', 'parse_date:negative-serial', m.where(f),
                      'a negative serial (a date before 1900) must convert to #NUM!; got %s' % ('; '.join(H.describe(neg)[:3]) or 'no trace guarded by serial < 0'),
                      func='parse_date')
