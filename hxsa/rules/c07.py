# -*- coding: utf-8 -*-
"""C07 - comparisons form a consistent total order with number < text < logical."""
import ast

from ..model import AnalysisError, src
from ..callgraph import fmt
from ..absint import Interp, Const, Sym, Atom, Top, Func, ListV, Obj, ClassV, Raised, Unmodelled, Exc, k
from .. import abshelp as H, ctx as ctxmod, roles, purity

TAGS = ['int', 'float', 'bool', 'str', 'none', 'datetime']
RANK = {'int': 0, 'float': 0, 'datetime': 0, 'str': 1, 'bool': 2}
OPS = {'LESS': 'lt', 'EQUAL': 'eq', 'GREATER': 'gt', 'LESSEQ': 'le', 'GREATEREQ': 'ge', 'NOTEQUAL': 'ne'}
TRUE_IN = {'lt': 'L', 'eq': 'E', 'gt': 'G', 'le': 'LE', 'ge': 'EG', 'ne': 'LG'}
ZERO = {'int': 0, 'float': 0, 'datetime': 0, 'str': '', 'bool': False}


def run_action(model, g, acts, kind, make_items, opaque):
    """Run a grammar action on an abstract production; outcome value = p[0] afterwards."""
    m, f = acts[kind]
    fv = Func(m, f)
    it = Interp(model, opaque=opaque)

    def call(interp, st):
        items = make_items()
        p = ListV([Const(None)] + items, 'list')
        selfobj = Obj(ClassV(g.gm, g.gcls), {})
        interp.call(fv, [selfobj, p])
        return p.items[0]
    return it.run(call)


def expected_operand(tag, name, other_tag):
    """The value the native comparison must see for an operand of ``tag``."""
    if tag == 'none':
        return ('zero', ZERO[other_tag])
    if tag == 'datetime':
        return ('serial', name)
    return ('self', name)


def classify_operand(v):
    if isinstance(v, Sym):
        return ('self', v.name)
    if isinstance(v, Atom) and v.op == 'serial' and len(v.args) == 1 and isinstance(v.args[0], Sym):
        return ('serial', v.args[0].name)
    if isinstance(v, Const):
        return ('zero', v.value)
    return ('other', repr(v))


def same_operand(got, want):
    if got[0] != want[0]:
        return False
    if got[0] == 'zero':
        # 0, 0.0 are the same number; False only for logicals; '' for text
        if isinstance(want[1], bool) or isinstance(got[1], bool):
            return isinstance(want[1], bool) and isinstance(got[1], bool) and got[1] == want[1]
        if isinstance(want[1], str) or isinstance(got[1], str):
            return got[1] == want[1]
        return got[1] == want[1]
    return got[1] == want[1]


def atom_truth(atom, X, Y, world):
    """Truth of a native comparison atom over the pair (X, Y) in world L/E/G; None if it is not over that pair."""
    if not (isinstance(atom, Atom) and atom.op in ('lt', 'eq', 'gt', 'le', 'ge', 'ne') and len(atom.args) == 2):
        return None
    a, b = classify_operand(atom.args[0]), classify_operand(atom.args[1])
    rel = atom.op
    if same_operand(a, X) and same_operand(b, Y):
        pass
    elif same_operand(a, Y) and same_operand(b, X):
        rel = {'lt': 'gt', 'gt': 'lt', 'le': 'ge', 'ge': 'le', 'eq': 'eq', 'ne': 'ne'}[rel]
    else:
        return None
    return world in TRUE_IN[rel]


def run(model, res, tier):
    c = ctxmod.get(model)
    g = c.grammar
    res.explanation = (
        'The comparator inspects operands only through is None / type() / isinstance and one final native comparison, so the '
        'ordering structure is a function of the operand type tags. The comparison reduce action is abstractly interpreted for every '
        'ordered pair of tags in {int,float,bool,str,blank,datetime}^2 and every operator (6): each run yields a kernel - a constant, '
        'or a native comparison over two operand expressions. R1 compares the kernel with the oracle: rank number/date=0 < text=1 < '
        'logical=2; different rank => the constant dictated by rank; same rank => the native relation on (a,b) with dates through their '
        'serial; blank => the zero of the other operand\'s type. R2: for same-rank pairs the six operators are evaluated in the three '
        'worlds a<b, a=b, a>b (trichotomy of the native order) and must be true exactly where the derived relation says. '
        'Antisymmetry follows because the oracle itself is antisymmetric and every ordered pair is checked; transitivity on non-blank '
        'values from rank order + native total order per rank. R3: no cache/shared state on the comparison path. NaN and list '
        'operands are outside the statement.')
    res.rule('R1', 'kernel table: constants by rank, native comparison on the right operand expressions otherwise')
    res.rule('R2', 'trichotomy and derived operators: <, =, >, <=, >=, <> true in exactly the right worlds')
    res.rule('R3', 'the comparison path keeps no cache or shared state')
    res.rule('R4', 'dates are ordered through one exact serial map: who-may-convert and the piecewise-affine converter rules (shared with C13.R1, C13.R2)')
    res.assumptions += ['Python\'s native order on numbers (bool excluded), on strings and on serials is a total order (no NaN)',
                        'date converters are summarised as serial(x) on date-time input (validated by C13)']
    res.trusted += ['hxsa abstract interpreter (absint.py) and its builtin models (absmodels.py)', 'CPython ast']
    kernel_rules(model, res, c)
    res.rule('R5', 'the operands of a comparison are the values the references were given: 0, FALSE and empty text supplied by a listener are '
             'those values, not blanks (shared with C10.R5)')
    from . import c10
    H.borrow(res, 'R5', 'supplied values', lambda tmp: c10.supplied_values_rules(model, tmp, c))
    acts = roles.binary_actions(g)
    # purity of the comparison path
    m, f = acts['logic']
    key = (m.name, m.qualname_of(f))
    region = c.cg.reachable([key])
    res.rule('R6', 'a text literal is the text that was written: the formula is not transformed as a whole (case mapping, translate, replace, regex substitution, normalisation) in front of the lexer (shared with C05.R9)')
    from . import c05 as _c05
    H.borrow(res, 'R6', 'formula text', lambda tmp: _c05.literal_text_rule(model, tmp, c, 'R6', 'a text operand of a comparison'))
    purity.check_region(res, c, 'R3', None, region, 'a comparison')
    purity.check_memo(res, c, 'R3', region, 'a function on the comparison path')
    res.analysed['functions on the comparison path'] = len(region)
    from . import c13
    um = [mm for mm in model.modules.values() if 'serialize_date' in mm.functions and 'parse_date' in mm.functions]
    if um:
        H.borrow(res, 'R4', 'date conversion authority', lambda tmp: c13._r1(model, tmp, c, um[-1]))
        H.borrow(res, 'R4', 'date converters', lambda tmp: c13._r2(model, tmp, c, um[-1]))


def kernel_rules(model, res, c):
    """R1/R2 on every (left tag, right tag, operator) cell of the comparison action (also borrowed by C04: a comparison node
    of the tree evaluates to the relation of the defined order)."""
    g = c.grammar
    acts = roles.binary_actions(g)
    lex = roles.operator_lexemes(g, list(OPS))
    opaque = H.date_opaque(model)
    n_runs = 0
    for ta in TAGS:
        for tb in TAGS:
            cell = {}
            undecided = False
            for tok, rel in OPS.items():
                try:
                    outs = run_action(model, g, acts, 'logic',
                                      lambda: [H.mk(ta, 'a'), Const(lex[tok]), H.mk(tb, 'b')], opaque)
                except Unmodelled as e:
                    res.notes.append('C07: (%s,%s,%s): construct not modelled: %s' % (ta, tb, rel, e))
                    undecided = True
                    continue
                n_runs += 1
                cell[rel] = outs
                if any(o.imprecise for o in outs):
                    undecided = True
                    res.notes.append('C07: (%s,%s,%s) depends on an unmodelled construct: %s' % (ta, tb, rel, outs[0].imprecise))
            if undecided:
                res.ob('R1', 'comparison action', {'left': ta, 'right': tb}, True, 'undecided (unmodelled construct)')
                continue
            _check_cell(res, acts, ta, tb, cell)
    res.soft_floor('abstract runs of the comparison action', n_runs, 216)


def _check_cell(res, acts, ta, tb, cell):
    m, f = acts['logic']
    site = 'comparison action (%s)' % f.name
    where = m.where(f)
    case = {'left': ta, 'right': tb}
    if ta == 'none' and tb == 'none':
        want_world = 'E'
        X = Y = None
    elif ta != 'none' and tb != 'none' and RANK[ta] != RANK[tb]:
        want_world = 'L' if RANK[ta] < RANK[tb] else 'G'
        X = Y = None
    else:
        want_world = None
        X = expected_operand(ta, 'a', tb if tb != 'none' else ta)
        Y = expected_operand(tb, 'b', ta if ta != 'none' else tb)
    for rel, outs in sorted(cell.items()):
        for world in ('L', 'E', 'G'):
            if want_world is not None and world != want_world:
                continue
            want = world in TRUE_IN[rel]
            # outcomes consistent with this world
            got = set()
            problems = []
            for o in outs:
                consistent = True
                if o.kind == 'raise':
                    problems.append('raises %r' % (o.value,))
                    continue
                val = o.value
                # notes: the truth assumed for atoms on this trace must match the world
                ok_notes = True
                for (text, alt, a) in o.notes:
                    if not (isinstance(a, Atom) and a.op in ('lt', 'eq', 'gt', 'le', 'ge', 'ne')):
                        continue
                    if X is None:
                        problems.append('value comparison %s although the ranks already decide' % text)
                        continue
                    t = atom_truth(a, X, Y, world)
                    if t is None:
                        problems.append('compares %r, not the operands the order is defined on' % (a,))
                    elif t != alt:
                        ok_notes = False
                if not ok_notes:
                    continue
                if isinstance(val, Const) and isinstance(val.value, bool):
                    got.add(val.value)
                elif isinstance(val, Atom):
                    if X is None:
                        problems.append('result is the value comparison %r although the ranks already decide' % (val,))
                        continue
                    t = atom_truth(val, X, Y, world)
                    if t is None:
                        problems.append('result %r is not a comparison of the operands the order is defined on (expected %s vs %s)'
                                        % (val, _show(X), _show(Y)))
                    else:
                        got.add(t)
                else:
                    problems.append('result %r is not a logical value' % (val,))
            ok = not problems and got == set([want])
            rule = 'R1' if rel in ('lt', 'eq', 'gt') else 'R2'
            res.ob(rule, site, dict(case, op=rel, world=world if want_world is None else 'rank'), ok,
                   'got %s want %s %s' % (sorted(got), want, '; '.join(problems)))
            if not ok:
                wdesc = {'L': 'a<b', 'E': 'a=b', 'G': 'a>b'}[world] if want_world is None else 'ranks differ'
                res.violation(rule, 'comparison:%s-%s:%s' % (ta, tb, rel), where,
                              'comparison %s %s %s: %s (%s); the order number/date < text < logical with blank as the zero of the other '
                              'operand requires %s' % (ta, rel, tb,
                                                       '; '.join(problems) if problems else 'evaluates to %s' % sorted(got),
                                                       wdesc, want),
                              case=dict(case, op=rel), func=f.name)


def _show(x):
    if x is None:
        return '-'
    if x[0] == 'zero':
        return 'zero(%r)' % (x[1],)
    if x[0] == 'serial':
        return 'serial(%s)' % x[1]
    return x[1]
