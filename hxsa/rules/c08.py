# -*- coding: utf-8 -*-
"""C08 - error values propagate through operators and can be trapped."""
import ast

from ..model import AnalysisError, src
from ..callgraph import fmt
from ..paths import walk_no_defs
from ..absint import (Interp, Const, Sym, Err, Atom, Top, Func, ListV, Obj, ClassV, Builtin, Raised, Unmodelled, Exc, k)
from .. import abshelp as H, ctx as ctxmod, roles, purity, sa
from .c01 import error_singletons, NINE
from .c07 import run_action

OTHER_TAGS = ['int', 'float', 'bool', 'str', 'none', 'datetime', 'list', 'err']
ERROR_TYPE_ORACLE = {'#NULL!': 1, '#DIV/0!': 2, '#VALUE!': 3, '#REF!': 4, '#NAME?': 5, '#NUM!': 6, '#N/A': 7, '#GETTING_DATA': 8}


def mkv(tag, name):
    if tag == 'list':
        return ListV([Sym('int', name + '0'), Sym('int', name + '1')])
    return H.mk(tag, name)


def run(model, res, tier):
    c = ctxmod.get(model)
    g = c.grammar
    res.explanation = (
        'Abstract interpretation by type tag with origin tracking. R1: each operator reduce action (4 arithmetic, 6 comparison, '
        '& and unary minus) is run with an error operand on the left against every tag on the right, and with every non-error tag on '
        'the left against an error on the right: the only outcome must be the value of that very operand (the left one when both '
        'are errors). R2: the error-literal action raises exactly the canonical singleton its lexeme names, for all nine codes. R3: '
        'the function-call callback is run with a function that raises an error / returns an error: the call\'s value is that error '
        'object itself (identity), so trapping functions can see it; the handler is structural as well. R4: IFERROR, IFNA, ISERROR, '
        'ISERR, ISNA and ERROR.TYPE are run on every error singleton and every non-error tag and compared with their truth tables. '
        'R5: no cache/shared state on these paths.')
    res.rule('R1', 'every operator returns the operand error itself, left first')
    res.rule('R2', 'an error literal raises the canonical singleton it names')
    res.rule('R3', 'an error raised or returned by a called function becomes the value of the call, unchanged')
    res.rule('R4', 'trapping functions: truth tables over every error singleton and every other tag')
    res.rule('R5', 'no cache or shared state on the operator / call paths')
    res.rule('R6', 'functions that bail out on an error item end in that very error object - the trapping functions recognise errors by identity (shared with C11.R1)')
    res.assumptions += ['date converters summarised on date-time input (C13)', 'host functions raise or return error objects they obtained from the library (A2)']
    res.trusted += ['hxsa abstract interpreter and builtin models', 'CPython ast']
    acts = roles.binary_actions(g)
    opaque = H.date_opaque(model)
    H.safely(res, 'R1', 'r1', _r1, model, res, c, g, acts, opaque)
    H.safely(res, 'R2', 'r2', _r2, model, res, c, g, opaque)
    H.safely(res, 'R3', 'r3', _r3, model, res, c, g, opaque)
    H.safely(res, 'R4', 'r4', _r4, model, res, c, opaque)
    from . import c11
    H.borrow(res, 'R6', 'aggregates with an error item', lambda tmp: c11._r1(model, tmp))
    res.rule('R7', 'a division whose divisor turns out to be zero yields the #DIV/0! error value for every kind of divisor (number, logical, '
             'numeric text, date-time with serial 0) - never an exception, which no trapping function could observe')
    H.safely(res, 'R7', 'zero divisors', _r7_zero_divisors, model, res, c, g, acts, opaque)
    keys = []
    for kind in ('arith', 'logic', 'concat', 'uminus'):
        m, f = acts[kind]
        keys.append((m.name, m.qualname_of(f)))
    for p_ in g.productions:
        if p_.syms == ['XLERROR'] and p_.funcname in g.action_funcs:
            m, f = g.action_funcs[p_.funcname]
            keys.append((m.name, m.qualname_of(f)))
    region = c.cg.reachable(keys) - set(c.cg.registry_keys)
    purity.check_region(res, c, 'R5', None, region, 'an operator')
    purity.check_memo(res, c, 'R5', region, 'a function on an operator path')


def _r7_zero_divisors(model, res, c, g, acts, opaque):
    from .c06 import _run_arith
    em, singles = error_singletons(model)
    DIV = dict((msg, n_) for n_, msg in singles.items()).get('#DIV/0!')
    m, f = acts['arith']
    n = 0
    for kind in ('int', 'float', 'bool', 'str', 'datetime'):
        try:
            outs = _run_arith(model, g, acts, opaque, '/', lambda: Sym('int', 'a'), lambda kind=kind: Sym(kind, 'b'), flags={'zero_division_forks': True})
        except Unmodelled as e:
            res.ob('R7', f.name, {'divisor': kind}, True, 'undecided: %s' % e)
            continue
        zero = [o for o in outs if not o.imprecise and any('== 0' in t and alt is True for (t, alt, s_) in o.notes)]
        # the zero fork may also be taken by a guard of the code itself (a test of the converted divisor): those traces return the error
        raised = [o for o in outs if not o.imprecise and o.kind == 'raise' and isinstance(o.value, Exc) and o.value.cls == 'ZeroDivisionError']
        n += 1
        bad = [o for o in zero if not (o.kind == 'return' and isinstance(o.value, Err) and o.value.name == DIV)] + \
              [o for o in raised if o not in zero]
        res.ob('R7', f.name, {'divisor': kind, 'zero traces': len(zero)}, not bad, H.describe(bad or zero)[:2])
        if bad:
            res.violation('R7', 'operator:division:zero-%s' % kind, m.where(f),
                          'dividing by a %s divisor that is (converted to) zero does not yield the #DIV/0! error value: %s - an exception '
                          'escapes IFERROR / ISERROR / ERROR.TYPE and is reported as #ERROR!' % (kind, '; '.join(H.describe(bad)[:2])),
                          case={'divisor': kind}, func=f.name)
    res.soft_floor('kinds of zero divisor run', n, 4)


def _is_operand(v, name):
    return isinstance(v, Sym) and v.tag == 'err' and v.name == name


def _r1(model, res, c, g, acts, opaque):
    ops = []
    for tok in roles.ARITH_TOKENS:
        ops.append(('arith', tok))
    for tok in roles.COMPARISON_TOKENS:
        ops.append(('logic', tok))
    ops.append(('concat', 'AMP'))
    lex = roles.operator_lexemes(g, [t for _, t in ops])
    n = 0
    for kind, tok in ops:
        m, f = acts[kind]
        site = '%s (%s)' % (f.name, lex[tok])
        for side in ('left', 'right'):
            for other in OTHER_TAGS:
                if side == 'right' and other == 'err':
                    continue        # both errors: covered by side == 'left'
                def items(side=side, other=other, tok=tok):
                    if side == 'left':
                        return [Sym('err', 'L'), Const(lex[tok]), mkv(other, 'R') if other != 'err' else Sym('err', 'R')]
                    return [mkv(other, 'L'), Const(lex[tok]), Sym('err', 'R')]
                want = 'L' if side == 'left' else 'R'
                case = {'operator': lex[tok], 'error_operand': side, 'other_operand': other}
                try:
                    outs = run_action(model, g, acts, kind, items, opaque)
                except Unmodelled as e:
                    res.ob('R1', site, case, True, 'undecided: %s' % e)
                    res.notes.append('C08.R1 %s: %s' % (case, e))
                    continue
                n += 1
                if any(o.imprecise for o in outs):
                    res.ob('R1', site, case, True, 'undecided (unmodelled construct): %s' % outs[0].imprecise)
                    continue
                bad = [o for o in outs if not (o.kind == 'return' and _is_operand(o.value, want))]
                res.ob('R1', site, case, not bad, H.describe(outs)[:3])
                if bad:
                    res.violation('R1', 'operator:%s:%s-error:%s' % (tok, side, other), m.where(f),
                                  'operator %s with an error value as %s operand (other operand: %s) does not evaluate to that error: %s'
                                  % (lex[tok], side, other, '; '.join(H.describe(bad)[:2])), case=case, func=f.name)
    # unary minus
    m, f = acts['uminus']
    for tag_ in ('err',):
        outs = run_action(model, g, acts, 'uminus', lambda: [Const('-'), Sym('err', 'L')], opaque)
        n += 1
        bad = [o for o in outs if not (o.kind == 'return' and _is_operand(o.value, 'L'))]
        res.ob('R1', f.name, {'operator': 'unary -', 'operand': 'err'}, not bad, H.describe(outs)[:3])
        if bad and not any(o.imprecise for o in outs):
            res.violation('R1', 'operator:unary-minus:error', m.where(f),
                          'unary minus applied to an error value does not evaluate to that error: %s' % '; '.join(H.describe(bad)[:2]),
                          func=f.name)
    res.soft_floor('abstract runs of operator actions with an error operand', n, 150)


def _r2(model, res, c, g, opaque):
    prods = [p for p in g.productions if p.syms == ['XLERROR']]
    if not prods:
        raise AnalysisError('error-literal production not found (anchor vanished)')
    m, f = g.action_funcs[prods[0].funcname]
    fv = Func(m, f)
    em, singles = error_singletons(model)
    by_msg = dict((msg, name) for name, msg in singles.items())
    n = 0
    for lexeme in NINE + ['#FOO!']:
        it = Interp(model, opaque=opaque)

        def call(interp, st, lexeme=lexeme):
            parser, gobj = H.host_objects(interp, model, c)
            p = ListV([Const(None), Const(lexeme)])
            interp.call(fv, [gobj, p])
            return p.items[0]
        try:
            outs = it.run(call)
        except Unmodelled as e:
            res.ob('R2', f.name, lexeme, True, 'undecided: %s' % e)
            continue
        n += 1
        want = by_msg.get(lexeme, by_msg.get('#ERROR!'))
        bad = [o for o in outs if not (o.kind == 'raise' and isinstance(o.value, Err) and o.value.name == want)]
        res.ob('R2', f.name, {'literal': lexeme, 'expected': 'raise error.%s' % want}, not bad, H.describe(outs))
        if bad and not any(o.imprecise for o in outs):
            res.violation('R2', 'error-literal:%s' % lexeme, m.where(f),
                          'the error literal %s does not abort the formula with the canonical %s: %s' % (lexeme, want, '; '.join(H.describe(bad))),
                          func=f.name)
    res.soft_floor('error literals run through the literal action', n, 9)


def _r3(model, res, c, g, opaque):
    from .c09 import callbacks
    cbs = callbacks(c)
    key = cbs.get('call_function')
    if key is None:
        raise AnalysisError('call_function callback not bound (anchor vanished)')
    m, f = c.cg.funcs[key]
    fv = Func(m, f)
    site = fmt(key)
    em, singles = error_singletons(model)
    cases = [('raises', s) for s in sorted(singles)] + [('returns', s) for s in sorted(singles)] + [('returns-value', 'int')]
    n = 0
    for how, what in cases:
        it = Interp(model, opaque=opaque)

        def call(interp, st, how=how, what=what):
            parser, gobj = H.host_objects(interp, model, c)
            table = None
            for a, v in parser.attrs.items():
                pass

            def fn(interp2, args, kwargs):
                if how == 'raises':
                    raise Raised(Err(what, singles[what]))
                if how == 'returns':
                    return Err(what, singles[what])
                return Sym('int', 'V')
            interp.extern['hx:fn'] = fn
            # register through the public API so that the table the lookup reads is the one written
            setter = interp.get_method(parser, 'set_function')
            if setter is None:
                raise Unmodelled('set_function not found')
            interp.call(setter, [Const('F'), Builtin('hx:fn')])
            return interp.call(fv, [parser, Const('F'), ListV([Sym('int', 'arg')])])
        try:
            outs = it.run(call)
        except Unmodelled as e:
            res.ob('R3', site, {'function': how, 'what': what}, True, 'undecided: %s' % e)
            res.notes.append('C08.R3: %s' % e)
            continue
        n += 1
        if how == 'returns-value':
            bad = [o for o in outs if not (o.kind == 'return' and isinstance(o.value, Sym) and o.value.name == 'V')]
            why = 'the value returned by the function'
        else:
            bad = [o for o in outs if not (o.kind == 'return' and isinstance(o.value, Err) and o.value.name == what)]
            why = 'that error object as the value of the call'
        res.ob('R3', site, {'function': how, 'what': what}, not bad, H.describe(outs))
        if bad and not any(o.imprecise for o in outs):
            res.violation('R3', '%s:%s:call-boundary:%s' % (key[0], key[1], how), m.where(f),
                          'a called function that %s error.%s must yield %s; got %s - IFERROR/ISERROR/ISNA/ERROR.TYPE cannot then observe '
                          'the error' % (how, what, why, '; '.join(H.describe(bad)[:2])), case={'function': how, 'error': what}, func=key[1])
    res.soft_floor('abstract runs of the call callback', n, 15)


def _r4(model, res, c, opaque):
    em, singles = error_singletons(model)
    errs = [Err(n, msg) for n, msg in sorted(singles.items())]
    NA = next(n for n, msg in singles.items() if msg == '#N/A')
    others = ['int', 'float', 'bool', 'str', 'none', 'datetime', 'list']
    n = 0

    def check(name, argmaker, judge, case):
        fv = H.registry_func(model, name)
        m, f = model.registered(name)
        try:
            outs = H.run_function(model, fv, argmaker, opaque=opaque)
        except Unmodelled as e:
            res.ob('R4', name, case, True, 'undecided: %s' % e)
            return
        if any(o.imprecise for o in outs):
            res.ob('R4', name, case, True, 'undecided (unmodelled construct): %s' % outs[0].imprecise)
            return
        problems = [o for o in outs if not judge(o)]
        res.ob('R4', name, case, not problems, H.describe(outs)[:3])
        if problems:
            res.violation('R4', 'function:%s:%s' % (name, _ck(case)), m.where(f),
                          '%s on %s gives %s' % (name, case, '; '.join(H.describe(problems)[:2])), case=case, func=f.name)

    def is_const(o, val):
        return o.kind == 'return' and isinstance(o.value, Const) and o.value.value is val

    def is_truthy_const(o, val):
        # ISODD-style ints are not expected here; predicates must be real logicals
        return is_const(o, val)

    subjects = [('error.%s' % e.name, (lambda e=e: Err(e.name, e.message)), True, e.name == NA) for e in errs] + \
               [(t, (lambda t=t: mkv(t, 'x')), False, False) for t in others]
    for label, mkx, is_err, is_na in subjects:
        n += 1
        check('ISERROR', lambda mkx=mkx: [mkx()], lambda o, v=is_err: is_const(o, v), {'value': label})
        check('ISNA', lambda mkx=mkx: [mkx()], lambda o, v=is_na: is_const(o, v), {'value': label})
        check('ISERR', lambda mkx=mkx: [mkx()], lambda o, v=(is_err and not is_na): is_const(o, v), {'value': label})
        # IFERROR(x, y) = y exactly when x is an error
        check('IFERROR', lambda mkx=mkx: [mkx() if not is_err else mkx(), Sym('str', 'ALT')],
              (lambda o, e=is_err, label=label: o.kind == 'return' and
               ((isinstance(o.value, Sym) and o.value.name == 'ALT') if e else not (isinstance(o.value, Sym) and o.value.name == 'ALT'))),
              {'value': label})
        check('IFNA', lambda mkx=mkx: [mkx(), Sym('str', 'ALT')],
              (lambda o, e=is_na: o.kind == 'return' and
               ((isinstance(o.value, Sym) and o.value.name == 'ALT') if e else not (isinstance(o.value, Sym) and o.value.name == 'ALT'))),
              {'value': label})
    # ERROR.TYPE
    for e in errs:
        want = ERROR_TYPE_ORACLE.get(e.message)
        if want is None:
            # #ERROR! has no Excel number: #N/A
            check('ERROR.TYPE', lambda e=e: [Err(e.name, e.message)],
                  lambda o: o.kind == 'return' and isinstance(o.value, Err) and o.value.name == NA, {'value': 'error.%s' % e.name})
        else:
            check('ERROR.TYPE', lambda e=e: [Err(e.name, e.message)],
                  lambda o, want=want: o.kind == 'return' and isinstance(o.value, Const) and o.value.value == want and not isinstance(o.value.value, bool),
                  {'value': 'error.%s' % e.name})
    for t in ('int', 'str', 'none', 'bool'):
        check('ERROR.TYPE', lambda t=t: [mkv(t, 'x')],
              lambda o: o.kind == 'return' and isinstance(o.value, Err) and o.value.name == NA, {'value': t})
    res.soft_floor('subjects run through the trapping functions', n, 15)


def _ck(case):
    return ','.join('%s=%s' % (a, b) for a, b in sorted(case.items()))
