# -*- coding: utf-8 -*-
"""C09 - names resolve to what was registered; unknown names are #NAME?."""
import ast
import os
import re

from ..model import AnalysisError, src
from ..paths import function_paths, walk_no_defs, calls_in, atoms
from ..callgraph import fmt
from .. import abshelp as H, sa, ctx as ctxmod, purity
from .c01 import error_singletons


def callback_attrs(c):
    """{role: attribute of the grammar object} - the role of a bound callback is what the grammar actions use it for, not its
    name: called from an action of a FUNCTION production -> call_function; of an expression production over the variable
    sequence -> call_variable; of a cell production with one argument -> call_cell_value, with two -> call_range_value."""
    cached = getattr(c, '_callback_attrs', None)
    if cached is not None:
        return cached
    g = c.grammar
    bound = set(attr for (cname, attr) in c.cg._callback_bindings)
    votes = {}
    for p in g.productions:
        mf = g.action_funcs.get(p.funcname)
        if mf is None:
            continue
        f = mf[1]
        s_ = sa.self_name(f)
        for n in walk_no_defs(f):
            if isinstance(n, ast.Call) and isinstance(n.func, ast.Attribute) and isinstance(n.func.value, ast.Name) \
                    and n.func.value.id == s_ and n.func.attr in bound:
                role = None
                if 'FUNCTION' in p.syms:
                    role = 'call_function'
                elif 'variable_sequence' in p.syms and p.name != 'variable_sequence':
                    role = 'call_variable'
                elif p.name == 'cell':
                    role = 'call_cell_value' if len(n.args) == 1 else 'call_range_value' if len(n.args) == 2 else None
                if role:
                    votes.setdefault(role, {}).setdefault(n.func.attr, 0)
                    votes[role][n.func.attr] += 1
    out = {}
    for role, v in votes.items():
        out[role] = sorted(v.items(), key=lambda kv: -kv[1])[0][0]
    try:
        c._callback_attrs = out
    except Exception:
        pass
    return out


def callbacks(c):
    """{role: function key} of the callbacks bound into the grammar parser (roles: call_function, call_variable,
    call_cell_value, call_range_value - see callback_attrs; other bound callbacks keep their attribute name)."""
    out = {}
    for (cname, attr), targets in c.cg._callback_bindings.items():
        for t in targets:
            out[attr] = t
    for role, attr in callback_attrs(c).items():
        if attr in out:
            out[role] = out[attr]
    return out


def singleton_name(model, m, node):
    """Name of the module-level XLError singleton an expression denotes (or None)."""
    em, singles = error_singletons(model)
    r = model.resolve_attr_chain(m, node) if isinstance(node, (ast.Name, ast.Attribute)) else None
    if r and r[0] == 'const' and r[1] is em and r[2] in singles:
        return r[2], singles[r[2]]
    return None, None


def run(model, res, tier):
    c = ctxmod.get(model)
    cg = c.cg
    res.explanation = (
        'R1 exception-class propagation over the call graph from every grammar action: no raise of SyntaxError (ply treats it as an '
        'error-recovery request and silently continues with a blank). R2 path rules on the function-call callback: instance table '
        'first, registry only after a miss, both miss => raise of the #NAME? singleton that no enclosing handler catches, the function '
        'is invoked exactly once per returning path with the argument list unchanged. R3 the variable callback never returns its '
        'not-found sentinel (identity test dominates the return) and set_variable stores exactly (name -> value). R4 every documented '
        'name is registered. R5 TRUE/FALSE/NULL predefined. R6 every registered name followed by "(" is matched in full by the '
        'function-name token and by no earlier token. R7 no cache or shared state in the resolution code.')
    res.rule('R1', 'no SyntaxError can be raised below a grammar action')
    res.rule('R2', 'function lookup: instance table, then registry, else raise #NAME?; invoked exactly once')
    res.rule('R3', 'variable lookup: sentinel never returned; set_variable stores name -> value')
    res.rule('R4', 'documented names are registered')
    res.rule('R5', 'TRUE, FALSE, NULL are predefined')
    res.rule('R6', 'registered names are lexed as FUNCTION tokens')
    res.rule('R7', 'name resolution keeps no cache / shared state')
    res.rule('R9', 'the argument list reaches the function as written: one argument per separator-delimited slot, in order, whatever the argument values are (shared with C05.R3)')
    res.rule('R10', 'the registry getter answers with the entry registered under exactly the requested name and with nothing for every other '
             'spelling (another case, a dotted extension or a prefix of a registered name, surrounding blanks)')
    res.rule('R8', 'the lexer hands function and variable names on verbatim (token rules of name tokens return the token unmodified)')
    res.assumptions += ['A3 ply swallows SyntaxError raised in a reduce action', 'host callbacks do not raise SyntaxError themselves']
    res.trusted += ['CPython ast', 'ply 3.11 token ordering', 'Python re for membership of the 156 registry names in the token language']
    cbs = callbacks(c)
    for need in ('call_function', 'call_variable'):
        if need not in cbs:
            raise AnalysisError('callback %s is not bound into the grammar parser (anchor vanished)' % need)
    H.safely(res, 'R1', 'r1', _r1, model, res, c)
    H.safely(res, 'R2', 'r2', _r2, model, res, c, cbs['call_function'])
    H.safely(res, 'R1', 'registry_getter', _registry_getter, model, res, c)
    H.safely(res, 'R3', 'r3', _r3, model, res, c, cbs['call_variable'])
    H.safely(res, 'R3', 'r3 listener hands None', _r3_none, model, res, c, cbs)
    H.safely(res, 'R4', 'r4', _r4, model, res, c)
    res.rule('R12', 'a parser made by the copy methods of the class resolves names through its own tables: it does not parse with the engine, '
             'the listener lists or the tables of the parser it was made from (shared with C03.R6)')

    def _copies(tmp):
        from . import c03
        c03.copies_are_independent(model, tmp, c, 'R12')
    H.borrow(res, 'R12', 'copies', _copies)
    res.rule('R11', 'a formula consisting of a variable name evaluates to exactly the value of the variable: the grammar hands the value the '
             'variable callback answers on unchanged, for every kind of value (shared with C10.R12)')

    def _ref_values(tmp):
        from . import c10
        c10.reference_value_rule(model, tmp, c, 'R11', ('call_variable',))
    H.borrow(res, 'R11', 'variable values', _ref_values)
    H.safely(res, 'R5', 'r5', _r5, model, res, c)
    H.safely(res, 'R6', 'r6', _r6, model, res, c)
    name_tokens_verbatim(model, res, c, cbs, 'R8')
    from . import c05
    H.borrow(res, 'R9', 'argument sequences', lambda tmp: c05._r3(model, tmp, c, c.grammar))
    from . import c03
    c03.instance_state(model, res, c, 'R7')
    region = set(cg.reachable([cbs['call_function'], cbs['call_variable']]))
    region -= set(cg.registry_keys)
    region = set(k for k in region if k in cg.funcs and not _below_registry(cg, k))
    # the grammar actions that hand names to the two callbacks, and the method that drives the ply parser around them
    for r in cg.p_roots:
        if cg.edges.get(r, set()) & set([cbs['call_function'], cbs['call_variable']]):
            region.add(r)
    for k_, (m_, f_) in cg.funcs.items():
        if '.<locals>.' in k_[1]:
            continue
        for n_ in ast.walk(f_):
            if cg.is_yacc_parse(f_, n_):
                region.add(k_)
    n = purity.check_region(res, c, 'R7', None, region, 'name resolution')
    purity.check_memo(res, c, 'R7', region, 'a function used in name resolution')
    res.analysed['functions in the name-resolution region'] = len(region)


def name_tokens(c, cbs, which=('call_function', 'call_variable')):
    """Terminals whose lexeme reaches a name-resolving callback: those in the productions of the actions that invoke the
    callback, through non-terminals that carry a single name (not through expression lists)."""
    g, cg = c.grammar, c.cg
    targets = set(cbs[w] for w in which if w in cbs)
    by_name = {}
    for p in g.productions:
        by_name.setdefault(p.name, []).append(p)
    terms = set(g.tokens)
    out = set()
    seen = set()

    def expand(sym, depth):
        if sym in terms:
            out.add(sym)
            return
        if sym in seen or depth > 4:
            return
        seen.add(sym)
        for q in by_name.get(sym, []):
            if any(s_ == 'expression' or s_.startswith('expseq') for s_ in q.syms):
                continue
            for s_ in q.syms:
                expand(s_, depth + 1)
    for p in g.productions:
        key = (g.gm.name, '%s.%s' % (g.gcls.name, p.funcname))
        mf = g.action_funcs.get(p.funcname)
        if mf is None:
            continue
        key = (mf[0].name, mf[0].qualname_of(mf[1]))
        if cg.edges.get(key, set()) & targets:
            for s_ in p.syms:
                if s_ != 'expression' and not s_.startswith('expseq'):
                    expand(s_, 0)
    return sorted(out)


def name_tokens_verbatim(model, res, c, cbs, R, which=('call_function', 'call_variable'), what='name'):
    g = c.grammar
    toks = [t for t in name_tokens(c, cbs, which) if g.lex_token(t) is not None]
    carriers = []
    for tn in toks:
        t = g.lex_token(tn)
        if not t.is_func or not isinstance(t.node, ast.FunctionDef):
            res.ob(R, 'lexer:t_%s' % tn, 'string rule: lexeme handed on verbatim', True)
            continue
        # punctuation tokens (a literal lexeme) carry no name
        from .. import rx
        try:
            if rx.literal_lexeme(t.regex) is not None:
                continue
        except Exception:
            pass
        carriers.append(tn)
        f = t.node
        tp = sa.params(f)[0] if sa.params(f) else None
        bad = []
        for n in walk_no_defs(f):
            tg = []
            if isinstance(n, ast.Assign):
                tg = n.targets
            elif isinstance(n, (ast.AugAssign, ast.AnnAssign)):
                tg = [n.target]
            for x in tg:
                for y in ast.walk(x):
                    if isinstance(y, ast.Attribute) and isinstance(y.value, ast.Name) and y.value.id == tp and y.attr in ('value', 'type'):
                        bad.append(n)
            if isinstance(n, ast.Call) and sa.call_name(n) == 'setattr' and n.args and isinstance(n.args[0], ast.Name) and n.args[0].id == tp:
                bad.append(n)
            if isinstance(n, ast.Return) and not (isinstance(n.value, ast.Name) and n.value.id == tp):
                bad.append(n)
        res.ob(R, 'lexer:t_%s' % tn, 'token rule returns the token unmodified', not bad, '; '.join(src(b) for b in bad))
        if bad:
            res.violation(R, 'lexer:t_%s:rewrites-lexeme' % tn, g.lexer_module.where(bad[0]),
                          'the token rule of %s rewrites or replaces the token (%s): the %s handed to the parser callbacks is no longer the text '
                          'written in the formula, so a binding registered under the written spelling is not found (or another one is)'
                          % (tn, src(bad[0]), what), func='t_' + tn)
    res.analysed['%s-bearing tokens' % what] = toks
    res.floor('%s-bearing tokens found' % what, len(toks), 2)
    return carriers


def _below_registry(cg, k):
    return False


# ---------------------------------------------------------------------------------------------------

SYNTAX_ERRORS = ('SyntaxError', 'IndentationError', 'TabError')


def _r1(model, res, c):
    cg = c.cg
    roots = sorted(cg.p_roots)
    res.floor('grammar actions', len(roots), 10)
    reach = cg.reachable(roots)
    n = 0
    for k in sorted(reach):
        m, f = cg.funcs[k]
        for node in walk_no_defs(f):
            if isinstance(node, ast.Raise) and node.exc is not None:
                n += 1
                e = node.exc
                cls = e.func if isinstance(e, ast.Call) else e
                name = src(cls).split('.')[-1]
                bad = name in SYNTAX_ERRORS
                res.ob('R1', fmt(k), 'raise %s' % src(e)[:60], not bad)
                if bad:
                    root = next((r for r in roots if k in cg.reachable([r])), roots[0])
                    path = cg.path(root, k) or []
                    res.violation('R1', '%s:%s:raises-SyntaxError' % k, m.where(node),
                                  'a %s raised below a grammar action is swallowed by ply as an error-recovery request: the formula '
                                  'silently evaluates to a blank or to the rest of the expression instead of #NAME?' % name,
                                  case=' -> '.join(fmt(x) for x in path), func=k[1])
    res.floor('raise statements below grammar actions', n, 4)


# ---------------------------------------------------------------------------------------------------

def _r2_interp(model, res, c, key):
    """Lookup order decided by running the call callback on a parser built by the real constructor, the registry getter
    summarised (it knows REGISTERED and BOTH): own table first, registry after a miss, #NAME? raised - and propagating - when
    both miss, one invocation with the evaluated arguments.  Returns False when the callback is not followed precisely."""
    from ..absint import Interp, Func, Const, Sym, Err, ListV, Builtin, Raised, Unmodelled
    m, f = c.cg.funcs[key]
    site = fmt(key)
    em, singles = error_singletons(model)
    opaque = {}
    for k2, (m2, f2) in c.cg.funcs.items():
        if f2.name == 'get_for' and k2 in c.cg.cls_of:
            def summary(interp, args, kwargs):
                nm = args[-1]
                if isinstance(nm, Const) and nm.value in ('REGISTERED', 'BOTH'):
                    return Builtin('hx:registry-fn')
                return Const(None)
            opaque[k2] = summary
    if not opaque:
        return False
    results = {}
    from ..absint import Exc
    for name in ('OWN', 'BOTH', 'REGISTERED', 'UNKNOWN', 'OWN-REJECTS', 'OWN-FALSY'):
        it = Interp(model, opaque=opaque)

        def call(interp, st, name=name):
            parser, gobj = H.host_objects(interp, model, c)

            def own(i2, a, kw):
                i2.state.events.append(('own', list(a)))
                if name == 'OWN-REJECTS':
                    raise Raised(Exc('TypeError', 'takes 1 positional argument but 2 were given'))
                return Sym('int', 'OWNRESULT')
            interp.extern['hx:own-fn'] = own
            interp.extern['hx:registry-fn'] = lambda i2, a, kw: (i2.state.events.append(('registry', list(a))), Sym('int', 'REGRESULT'))[1]
            if name == 'OWN-FALSY':
                # a callable whose truth value is False: still the function registered under the name
                interp.extern['hx:falsy-callable:own'] = own
                interp.call(interp.get_method(parser, 'set_function'), [Const(name), Builtin('hx:falsy-callable:own')])
            if name in ('OWN', 'BOTH', 'OWN-REJECTS'):
                interp.call(interp.get_method(parser, 'set_function'), [Const(name), Builtin('hx:own-fn')])
            if name == 'OWN-REJECTS':
                # a function that rejects the argument list (here: a blank last slot, as written with a dangling separator)
                return interp.call(Func(m, f), [parser, Const(name), ListV([Sym('int', 'a0'), Const(None)])])
            return interp.call(Func(m, f), [parser, Const(name), ListV([Sym('int', 'a0'), Sym('int', 'a1')])])
        try:
            outs = it.run(call)
        except Unmodelled:
            return False
        except AnalysisError:
            return False
        if not outs or any(o.imprecise for o in outs):
            return False
        results[name] = outs
    for name, outs in sorted(results.items()):
        for o in outs:
            calls = [(e[0], [getattr(a, 'name', None) for a in e[1]]) for e in o.events if e[0] in ('own', 'registry')]
            if name == 'OWN-REJECTS':
                ok = len(calls) == 1 and len(calls[0][1]) == 2 and o.kind == 'raise'
                want = 'one call with both slots (the blank one included), and its TypeError raised on (no second attempt with fewer arguments)'
                case = {'name is': 'set on the parser; the function raises TypeError for the argument list (a0, blank)'}
                res.ob('R2', site, case, ok, '%s %r calls=%s' % (o.kind, o.value, calls))
                if not ok:
                    res.violation('R2', '%s:%s:lookup-rejects' % (key[0], key[1]), m.where(f),
                                  'a function that raises TypeError must be called once, with every slot of the argument list as written, and the '
                                  'error reported; the callback %s %r after the calls %s: a retry with a trimmed list runs a side-effecting '
                                  'function twice and lets a call with a dangling separator succeed with fewer arguments than were written'
                                  % ('returns' if o.kind == 'return' else 'raises', o.value, calls or 'none'), case=case, func=key[1])
                continue
            if name in ('OWN', 'BOTH', 'OWN-FALSY'):
                ok = o.kind == 'return' and calls == [('own', ['a0', 'a1'])] and getattr(o.value, 'name', None) == 'OWNRESULT'
                want = 'one call of the function registered on the parser with (a0, a1); its result is the value'
            elif name == 'REGISTERED':
                ok = o.kind == 'return' and calls == [('registry', ['a0', 'a1'])] and getattr(o.value, 'name', None) == 'REGRESULT'
                want = 'one call of the built-in with (a0, a1); its result is the value'
            else:
                ok = o.kind == 'raise' and isinstance(o.value, Err) and o.value.message == '#NAME?' and not calls
                want = 'the #NAME? singleton raised (not returned as a value), nothing called'
            case = {'name is': {'OWN': 'set on the parser only', 'BOTH': 'set on the parser and a built-in', 'REGISTERED': 'a built-in only',
                                'UNKNOWN': 'known nowhere',
                                'OWN-FALSY': 'set on the parser only, to a callable whose truth value is False (e.g. an empty callable container)'}[name]}
            res.ob('R2', site, case, ok, '%s %r calls=%s' % (o.kind, o.value, calls))
            if not ok:
                res.violation('R2', '%s:%s:lookup-%s' % (key[0], key[1], name.lower()), m.where(f),
                              'a call of a function whose name is %s must give: %s; the callback %s %r after the calls %s'
                              % (case['name is'], want, 'returns' if o.kind == 'return' else 'raises', o.value, calls or 'none'),
                              case=case, func=key[1])
    return True


def _r2(model, res, c, key):
    m, f = c.cg.funcs[key]
    site = fmt(key)
    if _r2_interp(model, res, c, key):
        # the setter writes the table the lookup reads: covered by the OWN / BOTH runs (registered through set_function itself)
        res.analysed['call callback decided by'] = 'abstract runs on a constructed parser'
        return
    s = sa.self_name(f)
    ps = sa.params(f)
    if len(ps) < 3:
        raise AnalysisError('function-call callback does not have the (self, name, args) shape')
    name_p, args_p = ps[1], ps[2]
    # the invocation: a call of a local name with *args
    invs = [n for n in walk_no_defs(f) if isinstance(n, ast.Call) and isinstance(n.func, ast.Name)
            and any(isinstance(a, ast.Starred) for a in n.args)]
    res.floor('invocations fn(*args) in the call callback', len(invs), 1)
    fnvar = invs[0].func.id
    for inv in invs:
        ok = len(inv.args) == 1 and isinstance(inv.args[0], ast.Starred) and isinstance(inv.args[0].value, ast.Name) \
            and inv.args[0].value.id == args_p and not inv.keywords
        res.ob('R2', site, 'invocation %s' % src(inv), ok)
        if not ok:
            res.violation('R2', '%s:%s:invocation-args' % key, m.where(inv),
                          'the function is not invoked with exactly the evaluated argument list (*%s)' % args_p, case=src(inv), func=key[1])
    # the args list is not rebound/changed except for the None default
    for stmt, val in sa.assignments_to(f, args_p):
        par = m.parent(stmt)
        ok = isinstance(par, ast.If) and isinstance(par.test, ast.Compare) and src(par.test) == '%s is None' % args_p \
            and stmt in par.body and isinstance(val, ast.List) and not val.elts
        if isinstance(val, ast.IfExp):      # args = [] if args is None else args   (or the mirrored spelling)
            t, a, b = src(val.test), val.body, val.orelse
            if t == '%s is not None' % args_p:
                t, a, b = '%s is None' % args_p, b, a
            ok = t == '%s is None' % args_p and isinstance(a, ast.List) and not a.elts and isinstance(b, ast.Name) and b.id == args_p
        res.ob('R2', site, 'args rebound: %s' % src(stmt), ok)
        if not ok:
            res.violation('R2', '%s:%s:args-rebound' % key, m.where(stmt),
                          'the argument list is replaced before the call (%s)' % src(stmt), func=key[1])
    # classify the assignments to the function variable
    lookups = []
    for stmt, val in sa.assignments_to(f, fnvar):
        kind = None
        if val is not None:
            for call in [x for x in ast.walk(val) if isinstance(x, ast.Call)]:
                if isinstance(call.func, ast.Attribute) and call.func.attr == 'get' and sa.is_self_attr(call.func.value, s):
                    kind = ('instance', call.func.value.attr)
                cal = c.cg.sites.get((key, id(call)))
                if cal and any(c.cg.funcs[x][1].name == 'get_for' for x in cal):
                    kind = ('registry', None)
            if isinstance(val, ast.Subscript) and sa.is_self_attr(val.value, s):
                kind = ('instance', val.value.attr)
        lookups.append((stmt, kind))
    kinds = [k[0] if k else None for _, k in lookups]
    delegated = [stmt for stmt, k_ in lookups if k_ is None and stmt is not None and
                 any(isinstance(x, ast.Call) and c.cg.sites.get((key, id(x))) for x in ast.walk(stmt))]
    if ('instance' not in kinds or 'registry' not in kinds) and delegated:
        # the look-up is a helper of its own (resolve_function(name, self.functions, ...)): the order of its sources is decided by the
        # interpreted cases of this rule (own table first, registry after a miss, #NAME? for neither), not by the path rule below
        res.ob('R2', site, 'lookups: delegated to %s' % src(delegated[0])[:60], True, 'undecided here: decided by the interpreted cases')
        res.notes.append('C09.R2: the function look-up is delegated (%s); path rule skipped' % src(delegated[0])[:60])
        return
    res.ob('R2', site, 'lookups: %s' % kinds, 'instance' in kinds and 'registry' in kinds)
    if 'instance' not in kinds or 'registry' not in kinds:
        res.violation('R2', '%s:%s:lookup-sources' % key, m.where(f),
                      'the call callback does not consult both the parser\'s own function table and the registry (found: %s)' % kinds,
                      func=key[1])
        return
    inst_stmt = next(st for st, k in lookups if k and k[0] == 'instance')
    reg_stmt = next(st for st, k in lookups if k and k[0] == 'registry')
    inst_attr = next(k[1] for st, k in lookups if k and k[0] == 'instance')
    # set_function writes the same table
    _check_setter(model, res, c, m, f, inst_attr, 'set_function', 'R2')
    em, singles = error_singletons(model)
    name_single = [n for n, msg in singles.items() if msg == '#NAME?']
    n_paths = 0
    for p in function_paths(f, exc_out=False):
        stmts = p.stmts()
        order = []
        for it in p.items:
            if it[0] == 'exc' and any(x is inv for x in ast.walk(it[1]) for inv in invs):
                order.append('invoke')      # attempted; it raised and a local handler took over
            if it[0] != 'stmt':
                continue
            st = it[1]
            if st is inst_stmt:
                order.append('instance')
            elif st is reg_stmt:
                order.append('registry')
            for x in ast.walk(st):
                if any(x is inv for inv in invs):
                    order.append('invoke')
        # were we in the "missed" branch when consulting the registry?
        conds = p.conds()
        none_tests = [(t, v) for t, v in conds if src(t) == '%s is None' % fnvar or src(t) == 'not %s' % fnvar]
        n_paths += 1
        if p.kind() == 'return':
            ok = order.count('invoke') == 1 and 'instance' in order and \
                (order.index('instance') < order.index('invoke')) and \
                ('registry' not in order or order.index('instance') < order.index('registry') < order.index('invoke'))
            # the registry is consulted only after a miss
            if 'registry' in order:
                i = stmts.index(reg_stmt)
                guard = [(t, v) for it in p.items[:_item_index(p, reg_stmt)] if it[0] == 'cond'
                         for t, v in [(it[1], it[2])] if src(t) == '%s is None' % fnvar and v]
                ok = ok and bool(guard)
            # every returning path has ruled out a missing function
            last_none = [v for it in p.items if it[0] == 'cond' and src(it[1]) == '%s is None' % fnvar for v in [it[2]]]
            ok_miss = bool(last_none) and last_none[-1] is False
            res.ob('R2', site, {'path': p.describe(), 'order': order}, ok and ok_miss)
            if not ok:
                res.violation('R2', '%s:%s:lookup-order' % key, m.where(f),
                              'on a returning path the order is %s; required: own table, registry only after a miss, then exactly one '
                              'invocation' % order, case=p.describe(), func=key[1])
            if not ok_miss:
                res.violation('R2', '%s:%s:miss-not-excluded' % key, m.where(f),
                              'a returning path does not exclude that both lookups missed (no dominating "%s is None" test)' % fnvar,
                              case=p.describe(), func=key[1])
        elif p.kind() == 'raise':
            r = p.terminal[1]
            nm, msg = singleton_name(model, m, r.exc) if r.exc is not None else (None, None)
            last_none = [v for it in p.items if it[0] == 'cond' and src(it[1]) == '%s is None' % fnvar for v in [it[2]]]
            if last_none and last_none[-1] is True:
                ok = msg == '#NAME?'
                res.ob('R2', site, {'path': p.describe(), 'raises': nm}, ok)
                if not ok:
                    res.violation('R2', '%s:%s:miss-not-NAME' % key, m.where(r),
                                  'when both lookups miss the callback raises %s instead of the #NAME? singleton' % src(r.exc),
                                  func=key[1])
                # not enclosed by a handler that would catch it
                par = m.parent(r)
                while par is not None and par is not f:
                    if isinstance(par, ast.Try) and any(r is x for st in par.body for x in ast.walk(st)):
                        from .c02 import _handler_catches_xlerror
                        if any(_handler_catches_xlerror(model, m, h) for h in par.handlers):
                            res.ob('R2', site, 'the #NAME? raise propagates', False)
                            res.violation('R2', '%s:%s:NAME-caught-locally' % key, m.where(r),
                                          'the #NAME? raised for an unknown function is caught by an enclosing handler and turned into an '
                                          'ordinary value: IFERROR/ISERROR or an ignoring custom function then hide the unknown name',
                                          func=key[1])
                    par = m.parent(par)
    res.floor('paths through the call callback', n_paths, 3)
    # both-miss path exists and raises
    misses = [p for p in function_paths(f) if p.kind() == 'raise']
    res.ob('R2', site, 'a raising path for the both-miss case exists', bool(misses))
    if not misses:
        res.violation('R2', '%s:%s:no-miss-raise' % key, m.where(f),
                      'the call callback never raises #NAME? for an unknown function', func=key[1])
    # the registry getter returns None on a miss (so that the None test is meaningful) - or raises #NAME? itself
    for k2 in sorted(c.cg.sites.get((key, id(x)), set()) for x in ast.walk(reg_stmt) if isinstance(x, ast.Call)):
        pass


def _item_index(p, stmt):
    for i, it in enumerate(p.items):
        if it[0] == 'stmt' and it[1] is stmt:
            return i
    return len(p.items)


def _check_setter(model, res, c, m, f, attr, setter_name, rule):
    cls = m.enclosing_class(f)
    lm = model.lookup_method(m, cls, setter_name) if cls is not None else None
    if lm is None:
        res.notes.append('C09: %s not found' % setter_name)
        return
    sm, sc, sf = lm
    ps = sa.params(sf)
    s = sa.self_name(sf)
    ok = False
    for n in walk_no_defs(sf):
        if isinstance(n, ast.Assign) and len(n.targets) == 1 and isinstance(n.targets[0], ast.Subscript):
            t = n.targets[0]
            if sa.is_self_attr(t.value, s, attr) and len(ps) >= 3 and isinstance(t.slice, ast.Name) and t.slice.id == ps[1] \
                    and isinstance(n.value, ast.Name) and n.value.id == ps[2]:
                ok = True
    res.ob(rule, '%s:%s.%s' % (sm.name, sc.name, setter_name), 'stores self.%s[name] = value' % attr, ok)
    if not ok:
        res.violation(rule, '%s:%s.%s:setter' % (sm.name, sc.name, setter_name), sm.where(sf),
                      '%s does not store exactly (name -> value) in the table the lookup reads (self.%s)' % (setter_name, attr),
                      func=sc.name + '.' + setter_name)


# ---------------------------------------------------------------------------------------------------

def _r3_none(model, res, c, cbs):
    """R3 (listener): a listener that hands None to the setter has said nothing - a predefined / set variable keeps its value and an
    unknown name still ends in #NAME? (a silent blank otherwise).  Run on the abstract parser with an abstract listener (C10's
    harness: real constructor, real on())."""
    from . import c10
    from ..absint import Const, Err, Unmodelled
    from .c01 import error_singletons
    key = cbs['call_variable']
    m, f = c.cg.funcs[key]
    site = fmt(key)
    em, singles = error_singletons(model)
    NAME = [n for n, msg in singles.items() if msg == '#NAME?']
    ctx = {'model': model, 'c': c, 'res': res, 'cbs': cbs}
    for label, name, want in (('the predefined TRUE', 'TRUE', ('const', True)), ('a name nobody knows', 'ONLY_A_SPELLING_MISTAKE', ('name-error', None))):
        try:
            outs, _ = c10.run_callback(ctx, 'call_variable', lambda interp: [Const(name)], listener_script=lambda: [Const(None)])
        except Unmodelled as e:
            res.ob('R3', site, {'listener hands None for': label}, True, 'undecided: %s' % e)
            continue
        outs = [o for o in outs if not o.imprecise]
        if not outs:
            res.ob('R3', site, {'listener hands None for': label}, True, 'undecided: no precise trace')
            continue
        bad = []
        for o in outs:
            if want[0] == 'const':
                good = o.kind == 'return' and isinstance(o.value, Const) and o.value.value is want[1]
            else:
                good = o.kind == 'raise' and isinstance(o.value, Err) and o.value.name in NAME
            if not good:
                bad.append(o)
        res.ob('R3', site, {'listener hands None for': label}, not bad, H.describe(outs)[:2])
        if bad:
            res.violation('R3', '%s:%s:none-from-listener' % key, m.where(f),
                          'a callVariable listener hands None to the setter for %s; that is no answer, so the reference must %s - it gives %s'
                          % (label, 'keep its value %r' % (want[1],) if want[0] == 'const' else 'still end in #NAME? (not in a silent blank)',
                             '; '.join(H.describe(bad)[:2])), case={'name': name}, func=key[1])


def _r3(model, res, c, key):
    m, f = c.cg.funcs[key]
    site = fmt(key)
    s = sa.self_name(f)
    ps = sa.params(f)
    name_p = ps[1]
    # the lookup with a sentinel default
    gets = [n for n in walk_no_defs(f) if isinstance(n, ast.Call) and isinstance(n.func, ast.Attribute) and n.func.attr == 'get'
            and sa.is_self_attr(n.func.value, s) and n.args and isinstance(n.args[0], ast.Name) and n.args[0].id == name_p]
    res.floor('variable table lookups', len(gets), 1)
    g = gets[0]
    attr = g.func.value.attr
    _check_setter(model, res, c, m, f, attr, 'set_variable', 'R3')
    if len(g.args) < 2:
        res.ob('R3', site, 'lookup has a sentinel default', False)
        res.violation('R3', '%s:%s:no-sentinel' % key, m.where(g),
                      'variables.get(name) without a private sentinel cannot distinguish an unknown name from a variable set to None',
                      func=key[1])
        return
    sent = g.args[1]
    sent_def = sa.resolve_local(f, sent)
    fresh = isinstance(sent_def, (ast.Lambda,)) or (isinstance(sent_def, ast.Call) and sa.call_name(sent_def) == 'object')
    if isinstance(sent_def, ast.Name) or isinstance(sent_def, ast.Attribute):
        r = model.resolve_attr_chain(m, sent_def)
        fresh = bool(r and r[0] == 'const' and isinstance(r[3], (ast.Lambda, ast.Call)))
    if isinstance(sent_def, ast.Name):
        # a function or class defined for the purpose (in the method itself or in the module) is as private as a lambda
        asg = sa.assignments_to(f, sent_def.id)
        if len(asg) == 1 and isinstance(asg[0][0], (ast.FunctionDef, ast.ClassDef)):
            fresh = True
        elif not asg and (sent_def.id in m.functions or sent_def.id in m.classes) and m.assign_counts.get(sent_def.id, 0) == 0:
            fresh = True
    res.ob('R3', site, 'sentinel %s is a private object' % src(sent_def), fresh)
    if not fresh:
        res.violation('R3', '%s:%s:sentinel-not-private' % key, m.where(g),
                      'the not-found default (%s) is not a private object: a variable could legitimately hold it' % src(sent_def),
                      func=key[1])
    sent_txt = src(sent)
    n = 0
    for p in function_paths(f):
        if p.kind() != 'return':
            continue
        n += 1
        tests = [(src(t), v, t) for t, v in [(it[1], it[2]) for it in p.items if it[0] == 'cond']]
        ok = False
        for txt, v, t in tests:
            for a, truth in atoms(t, v):
                if isinstance(a, ast.Compare) and len(a.ops) == 1 and isinstance(a.ops[0], (ast.Is, ast.IsNot)) and \
                        (src(a.comparators[0]) == sent_txt or src(a.left) == sent_txt):
                    is_sent = isinstance(a.ops[0], ast.Is) == truth
                    if not is_sent:
                        ok = True
        res.ob('R3', site, 'returning path excludes the sentinel by identity: %s' % p.describe(), ok)
        if not ok:
            res.violation('R3', '%s:%s:sentinel-may-be-returned' % key, m.where(f),
                          'a returning path of the variable callback is not dominated by an identity test against the not-found '
                          'sentinel: an unknown variable evaluates to a value instead of #NAME?', case=p.describe(), func=key[1])
    res.floor('returning paths of the variable callback', n, 1)
    raises = [p for p in function_paths(f) if p.kind() == 'raise']
    okr = False
    for p in raises:
        r = p.terminal[1]
        nm, msg = singleton_name(model, m, r.exc) if r.exc is not None else (None, None)
        if msg == '#NAME?':
            okr = True
        else:
            res.violation('R3', '%s:%s:miss-not-NAME' % key, m.where(r),
                          'the variable callback raises %s instead of the #NAME? singleton' % src(r.exc), func=key[1])
    res.ob('R3', site, 'unknown variable raises the #NAME? singleton', okr)
    if not okr and not raises:
        res.violation('R3', '%s:%s:no-miss-raise' % key, m.where(f), 'the variable callback never raises #NAME?', func=key[1])
    # the value returned is the looked-up value (through the result cell), not something derived
    # (the cell is initialised with the lookup and only the setter closure stores into it)
    cell = None
    for n2 in walk_no_defs(f):
        if isinstance(n2, ast.Assign) and isinstance(n2.value, ast.Dict) and len(n2.targets) == 1 and isinstance(n2.targets[0], ast.Name):
            cell = n2
    if cell is not None:
        v = cell.value.values[0] if cell.value.values else None
        v = sa.resolve_local(f, v) if v is not None else None
        ok = v is g
        res.ob('R3', site, 'value cell initialised with the lookup result', ok, src(cell))
        if not ok:
            res.violation('R3', '%s:%s:cell-init' % key, m.where(cell),
                          'the variable\'s value cell is not initialised with the looked-up value (%s)' % src(cell), func=key[1])


# ---------------------------------------------------------------------------------------------------

def documented_names(repo):
    path = os.path.join(repo, 'SUPPORTED_FORMULAS.md')
    if not os.path.exists(path):
        raise AnalysisError('SUPPORTED_FORMULAS.md not found (anchor vanished)')
    names = []
    section = None
    for line in open(path, encoding='utf-8'):
        line = line.rstrip('\n')
        if line.startswith('#'):
            section = line.strip('# ').strip().lower()
            continue
        mm = re.match(r'^\s*[-*]\s+`?([A-Za-z][A-Za-z0-9_.]*)`?\s*$', line)
        if mm and (section is None or 'not' not in section and 'unsupported' not in section and 'todo' not in section):
            names.append(mm.group(1))
    return names, path


def _r4(model, res, c):
    names, path = documented_names(model.repo)
    res.floor('documented function names', len(names), 100)
    reg = model.registry
    for n in names:
        ok = n in reg
        res.ob('R4', 'SUPPORTED_FORMULAS.md', n, ok)
        if not ok:
            res.violation('R4', 'SUPPORTED_FORMULAS.md:%s:not-registered' % n, 'SUPPORTED_FORMULAS.md',
                          'documented as supported but no built-in is registered under the name %s: a call evaluates to #NAME?' % n)
    res.analysed['registered names'] = len(reg)
    res.floor('registered names', len(reg), 150)
    dup = getattr(model, 'registry_duplicates', [])
    res.ob('R4', 'registry', 'no name registered twice', not dup, dup)
    if dup:
        res.violation('R4', 'registry:duplicate:%s' % dup[0], 'hotxlfp/formulas',
                      'the name %s is registered by two functions; the later import silently replaces the earlier' % dup[0])


def _r5(model, res, c):
    root = c.root
    m, cls = c.cg.cls_of[root]
    init = model.lookup_method(m, cls, '__init__')
    if init is None:
        raise AnalysisError('parser __init__ not found')
    im, ic, f = init
    want = {'TRUE': True, 'FALSE': False, 'NULL': None}
    found = {}
    for n in walk_no_defs(f):
        if isinstance(n, ast.Assign) and any(isinstance(t, ast.Attribute) for t in n.targets):
            v = n.value
            if isinstance(v, ast.Name):
                r = model.resolve(im, v.id)
                if r and r[0] == 'const':
                    v = r[3]
            if isinstance(v, ast.Call) and sa.call_name(v) in ('dict', 'copy.copy', 'copy.deepcopy') and v.args:
                a = v.args[0]
                if isinstance(a, ast.Name):
                    r = model.resolve(im, a.id)
                    if r and r[0] == 'const':
                        a = r[3]
                v = a
            if isinstance(v, ast.Dict):
                for k, val in zip(v.keys, v.values):
                    if isinstance(k, ast.Constant) and k.value in want and isinstance(val, ast.Constant):
                        found[k.value] = val.value
    if any(k not in found for k in want):
        # the table is built by a helper / merged from options: run the constructor abstractly and read what the variable callback reads
        try:
            from ..absint import Interp, Const, DictV, Unmodelled as _Unm
            box = {}

            def make(interp, st):
                parser, _g = H.host_objects(interp, model, c)
                box['p'] = parser
                return Const(None)
            outs = Interp(model).run(make)
            tables = [v for v in box['p'].attrs.values() if isinstance(v, DictV)] if len(outs) == 1 and not outs[0].imprecise else []
            for t in tables:
                hit = dict((k, t.lookup(Const(k))) for k in want)
                if all(isinstance(x, Const) for x in hit.values()):
                    found = dict((k, x.value) for k, x in hit.items())
                    break
            else:
                if not tables:
                    res.ob('R5', '%s:%s.__init__' % (im.name, ic.name), 'predefined names', True, 'undecided: the constructor could not be followed')
                    return
        except (_Unm, AnalysisError) as e:
            res.ob('R5', '%s:%s.__init__' % (im.name, ic.name), 'predefined names', True, 'undecided: %s' % e)
            return
    for k, v in want.items():
        ok = k in found and found[k] is v
        res.ob('R5', '%s:%s.__init__' % (im.name, ic.name), '%s -> %r' % (k, found.get(k, '<missing>')), ok)
        if not ok:
            res.violation('R5', '%s:%s.__init__:predefined:%s' % (im.name, ic.name, k), im.where(f),
                          'predefined variable %s is %s; it must be %r' % (k, 'missing' if k not in found else repr(found[k]), v),
                          func=ic.name + '.__init__')


def _r6(model, res, c):
    g = c.grammar
    ft = g.lex_token('FUNCTION')
    if ft is None:
        raise AnalysisError('FUNCTION token not found (anchor vanished)')
    try:
        rx = re.compile(ft.regex, getattr(ft.regex, 'flags', 0))
    except re.error as e:
        raise AnalysisError('FUNCTION token regex does not compile: %s' % e)
    earlier = []
    for t in g.lex_tokens:
        if t.order < ft.order:
            try:
                earlier.append((t.name, re.compile(t.regex, getattr(t.regex, 'flags', 0))))
            except re.error:
                pass
    n = 0
    for name in sorted(model.registry):
        text = name + '('
        mm = rx.match(text)
        ok = mm is not None and mm.end() == len(name)
        shadow = [tn for tn, trx in earlier if trx.match(text)]
        n += 1
        res.ob('R6', 'lexer:t_FUNCTION', name, ok and not shadow, 'matched=%r shadowed_by=%s' % (mm.group(0) if mm else None, shadow))
        if not ok:
            res.violation('R6', 'lexer:t_FUNCTION:does-not-lex:%s' % name, g.lexer_module.where(ft.node),
                          'the registered name %s followed by "(" is not matched in full by the function-name token (matched %r): the call '
                          'cannot be written' % (name, mm.group(0) if mm else None), func='t_FUNCTION')
        if shadow:
            res.violation('R6', 'lexer:t_FUNCTION:shadowed:%s' % name, g.lexer_module.where(ft.node),
                          'an earlier token (%s) matches at the start of "%s(": the call is lexed as something else' % (shadow, name),
                          func='t_FUNCTION')
    res.floor('registered names checked against the FUNCTION token', n, 150)
    # every identifier-shaped name followed by "(" is a FUNCTION token (custom functions may have any such name)
    from .. import rx
    try:
        F = rx.build(ft.regex)
        spec = rx.build(r'[A-Za-z][A-Za-z0-9_.]*[(]')
        al = rx.alphabet([F, spec])
        w = rx.difference_witness(spec, F, al)
    except rx.Unsupported as e:
        res.notes.append('C09.R6: FUNCTION regex uses a construct the regex engine does not model (%s): inclusion undecided' % e)
        res.ob('R6', 'lexer:t_FUNCTION', 'identifier-shaped names are callable', True, 'undecided: %s' % e)
        return
    res.ob('R6', 'lexer:t_FUNCTION', 'L([A-Za-z][A-Za-z0-9_.]*"(") is included in L(FUNCTION)', w is None, 'counter-example %r' % w)
    if w is not None:
        res.violation('R6', 'lexer:t_FUNCTION:identifier-not-callable', g.lexer_module.where(ft.node),
                      'the identifier-shaped function name in %r is not lexed as a FUNCTION token: a custom function registered '
                      'under such a name can never be called (the formula gives #ERROR! and the function is not invoked)' % w,
                      case=w, func='t_FUNCTION')
    # variable names: every identifier of letters/underscores, and every letter followed by letters, digits, underscores, is one VARIABLE
    # lexeme (names shaped like a cell label are claimed by the cell tokens before it - not part of this rule)
    vt = g.lex_token('VARIABLE')
    if vt is not None:
        for spec_re, what in ((r'[A-Za-z_]+', 'a name of letters and underscores (also with a leading underscore)'),
                              (r'[A-Za-z][A-Za-z_0-9]+', 'a letter followed by letters, digits and underscores')):
            try:
                V = rx.build(vt.regex)
                S_ = rx.build(spec_re)
                w2 = rx.difference_witness(S_, V, rx.alphabet([V, S_]))
            except rx.Unsupported as e:
                res.ob('R6', 'lexer:t_VARIABLE', what, True, 'undecided: %s' % e)
                continue
            res.ob('R6', 'lexer:t_VARIABLE', 'L(%s) is included in L(VARIABLE)' % spec_re, w2 is None, 'counter-example %r' % w2)
            if w2 is not None:
                res.violation('R6', 'lexer:t_VARIABLE:name-not-lexable', g.lexer_module.where(vt.node),
                              'the variable name %r (%s) is not one VARIABLE token: a variable set under that name can never be read back - '
                              'the formula consisting of the name gives #NAME?/#ERROR! instead of the value' % (w2, what), case=w2, func='t_VARIABLE')
    # ... and the lexer takes the whole name: python's alternation prefers the first alternative that matches, not the longest, so an
    # inclusion of languages is not enough - the names built from one letter of each kind (lower, upper, underscore, digit), up to five
    # characters, that no earlier token claims at their first character are matched with the token's own regex as ply applies it
    if vt is not None:
        import itertools
        import re as _re
        flags = getattr(vt.regex, 'flags', 0) | _re.VERBOSE
        try:
            vre = _re.compile(vt.regex, flags)
            earlier_v = []
            for t in g.lex_tokens:
                if t.order < vt.order:
                    earlier_v.append((t.name, _re.compile(t.regex, getattr(t.regex, 'flags', 0) | _re.VERBOSE)))
        except _re.error as e:
            vre = None
            res.ob('R6', 'lexer:t_VARIABLE', 'whole-name match', True, 'undecided: %s' % e)
        if vre is not None:
            spec1, spec2 = _re.compile(r'[A-Za-z_]+\Z'), _re.compile(r'[A-Za-z][A-Za-z_0-9]+\Z')
            n_names, short = 0, None
            for ln in range(1, 6):
                for tup in itertools.product('aZ_7', repeat=ln):
                    w_ = ''.join(tup)
                    if not (spec1.match(w_) or spec2.match(w_)):
                        continue
                    if any(r_.match(w_) for _, r_ in earlier_v):
                        continue        # claimed (in part) by an earlier token, e.g. the cell tokens: not a variable name
                    n_names += 1
                    mm = vre.match(w_)
                    if (mm is None or mm.end() != len(w_)) and short is None:
                        short = (w_, mm.group(0) if mm else None)
            res.ob('R6', 'lexer:t_VARIABLE', '%d representative names are matched in full' % n_names, short is None, repr(short))
            if short is not None:
                res.violation('R6', 'lexer:t_VARIABLE:partial-match', g.lexer_module.where(vt.node),
                              'the variable name %r is lexed only up to %r (an earlier alternative of the token regex matches a prefix and python '
                              'takes the first alternative that matches): the rest becomes other tokens and the name can never be read back'
                              % short, case=short[0], func='t_VARIABLE')
    # ... and is not pre-empted by an earlier token
    for t in g.lex_tokens:
        if t.order < ft.order:
            try:
                T = rx.build(t.regex)
            except rx.Unsupported:
                continue
            al2 = rx.alphabet([T, spec])
            # does some word of spec have a prefix in L(T)?  check: first characters overlap
            firsts_spec = [ch for ch in al2 if spec.step(spec.closure([spec.start]), ch)]
            firsts_t = [ch for ch in al2 if T.step(T.closure([T.start]), ch)]
            clash = sorted(set(firsts_spec) & set(firsts_t))
            res.ob('R6', 'lexer:t_%s' % t.name, 'earlier token cannot start where an identifier starts', not clash, clash)
            if clash:
                res.violation('R6', 'lexer:t_%s:preempts-function-names' % t.name, g.lexer_module.where(t.node),
                              'token %s is tried before FUNCTION and can match at the first character of a function name (%r)'
                              % (t.name, clash[0]), func='t_' + t.name)


# ---------------------------------------------------------------------------------------------------
# R10: the registry getter itself (C09.R2 summarises it)

def _registry_getter(model, res, c):
    """The dispatcher object is built by its real constructor, one function is registered under KNOWN through the real
    registration decorator, and the getter is interpreted for KNOWN and for the near-miss spellings of it."""
    from ..absint import Interp, Func, Const, Builtin, ClassV, Unmodelled
    getters = [(k2, c.cg.funcs[k2]) for k2 in sorted(c.cg.funcs) if c.cg.funcs[k2][1].name == 'get_for' and k2 in c.cg.cls_of]
    res.floor('registry getters', len(getters), 1)
    near0 = ['OTHER', 'KNOWN.EXT', 'KNOWN.', '.KNOWN', 'X.KNOWN', 'known', 'Known', ' KNOWN', 'KNOWN ', 'KNOWN_', 'KNOW', 'KNOWNS', '']
    for key, (m, f) in getters:
        cm, cc = c.cg.cls_of[key]
        # spellings built from the text constants of the getter's own module (a table of prefixes or suffixes the getter may strip)
        texts = sorted(set(x.value for x in ast.walk(m.tree) if isinstance(x, ast.Constant) and isinstance(x.value, str)
                           and 0 < len(x.value) <= 12 and '\n' not in x.value and x.value != 'KNOWN'))[:40]
        near = list(near0) + [s_ for t_ in texts for s_ in ('KNOWN' + t_, t_ + 'KNOWN') if s_ not in near0]
        reg = model.lookup_method(cm, cc, 'register_for')
        if not reg:
            raise AnalysisError('dispatcher class has no register_for (anchor vanished)')
        n = 0
        for name in ['KNOWN'] + near:
            it = Interp(model)

            def call(interp, st, name=name):
                d = interp.instantiate(ClassV(cm, cc), [])
                deco = interp.call(Func(reg[0], reg[2]), [d, Const('KNOWN')])
                interp.call(deco, [Builtin('hx:known-fn')])
                return interp.call(Func(m, f), [d, Const(name)])
            try:
                outs = it.run(call)
            except (Unmodelled, AnalysisError) as e:
                res.ob('R10', fmt(key), {'name': name}, True, 'undecided: %s' % e)
                continue
            if any(o.imprecise for o in outs):
                res.ob('R10', fmt(key), {'name': name}, True, 'undecided: %s' % outs[0].imprecise)
                continue
            n += 1
            for o in outs:
                hit = o.kind == 'return' and isinstance(o.value, Builtin) and o.value.name == 'hx:known-fn'
                none = o.kind == 'return' and isinstance(o.value, Const) and o.value.value is None
                ok = hit if name == 'KNOWN' else none
                res.ob('R10', fmt(key), {'registered': 'KNOWN', 'requested': name}, ok, '%s %r' % (o.kind, o.value))
                if not ok:
                    res.violation('R10', '%s:%s:getter:%s' % (key[0], key[1], 'exact' if name == 'KNOWN' else 'near-miss'), m.where(f),
                                  'with one function registered as KNOWN the getter asked for %r %s %r; it must %s: a name is resolved only '
                                  'by its exact spelling, everything else is #NAME?' % (name, 'returns' if o.kind == 'return' else 'raises',
                                                                                       o.value, 'return that function' if name == 'KNOWN' else
                                                                                       'answer with nothing (None)'),
                                  case={'requested': name}, func=key[1])
        res.soft_floor('registry getter runs', n, 10)
