# -*- coding: utf-8 -*-
"""C10 - reference events deliver canonical coordinates, once, in evaluation order."""
import ast

from ..model import AnalysisError, src
from ..callgraph import fmt
from ..absint import (Interp, Const, Sym, Err, Atom, Top, Func, ListV, DictV, Obj, ClassV, Bound, Builtin, MatchV,
                      Raised, Unmodelled, Exc, k)
from .. import abshelp as H, ctx as ctxmod, purity, sa, rx
from .c09 import callbacks

EVENTS = {'call_function': 'callFunction', 'call_variable': 'callVariable', 'call_cell_value': 'callCellValue',
          'call_range_value': 'callRangeValue'}


def run(model, res, tier):
    c = ctxmod.get(model)
    g = c.grammar
    res.explanation = (
        'The four reference callbacks are abstractly interpreted on a parser object built by running the real constructor, with an '
        'abstract listener subscribed through the real emitter code. R1: on every normally returning trace exactly one event of the '
        'right name reaches the listener (and none of another name). R2: each cell/range/variable/call grammar action invokes exactly '
        'one callback once with its symbols in their roles. R3: the cell payload carries the upper-cased label and the row/column records '
        'decomposed from that same upper-cased label with the absolute markers of their own group. R4: a range payload is '
        'self-consistent on each of the traces of the two corner comparisons: start gets the smaller row and the smaller column, and '
        'each cell\'s label is either the original label whose parts it carries or recomposed from exactly its own row and column '
        'records. R5: the value handed to the setter - 0, FALSE and empty text included - becomes the value of the reference, the last '
        'non-None one wins, None is ignored. R6: with no listener a cell or range is blank. R7: the three cell tokens cover the whole '
        'label language (any number of column letters). R8: no shared state in the callbacks (re-entrancy).')
    res.rule('R1', 'exactly one event of the right name per callback invocation')
    res.rule('R2', 'one callback per reduction, symbols in their roles')
    res.rule('R3', 'cell payload: upper-cased label, parts decomposed from it, own absolute markers')
    res.rule('R4', 'range payload: min/max corners, labels agree with coordinates')
    res.rule('R5', 'setter: last non-None value wins, falsy values kept')
    res.rule('R6', 'no listener: blank')
    res.rule('R7', 'cell tokens cover the label language')
    res.rule('R8', 'callbacks keep no shared state')
    res.rule('R11', 'events reach exactly the subscribed listeners: the emitter contract (subscription, once, unsubscription by equality, snapshot delivery; shared with C20.R1-R5)')
    res.rule('R10', 'labels recomposed for range corners agree with the coordinates: column/row converters are exact bijective base-26 / index+1 maps and the recomposed label puts each $ in front of its own part (shared with C19.R3, C19.R4, C19.R5)')
    res.rule('R9', 'a listener that evaluates another formula cannot make the outer formula lose its remaining references: private token stream per parse (shared with C03.R1)')
    res.trusted += ['hxsa abstract interpreter and builtin models', 'CPython ast', 're._parser']
    cbs = callbacks(c)
    for need in EVENTS:
        if need not in cbs:
            raise AnalysisError('callback %s not bound into the grammar parser (anchor vanished)' % need)
    ctx = {'model': model, 'c': c, 'res': res, 'cbs': cbs}
    H.safely(res, 'R1', 'r1_r5', _r1_r5, ctx)
    H.safely(res, 'R2', 'r2', _r2, ctx)
    H.safely(res, 'R3', 'r3', _r3, ctx)
    H.safely(res, 'R4', 'r4', _r4, ctx)
    res.rule('R13', 'a parser made by the copy methods of the class raises its events on its own listeners (shared with C03.R6)')

    def _copies(tmp):
        from . import c03
        c03.copies_are_independent(model, tmp, c, 'R13')
    H.borrow(res, 'R13', 'copies', _copies)
    res.rule('R12', 'the grammar hands the value a reference callback answers on unchanged, up to the expression, for every kind of value')
    H.safely(res, 'R12', 'reference values', reference_value_rule, model, res, c, 'R12', ('call_cell_value', 'call_range_value'))
    H.safely(res, 'R7', 'r7', _r7, ctx)
    keys = sorted(set(cbs.values()))
    region = c.cg.reachable(keys) - set(c.cg.registry_keys)
    purity.check_region(res, c, 'R8', None, region, 'a reference callback')
    purity.check_memo(res, c, 'R8', region, 'a function used by a reference callback')
    from . import c03
    c03.instance_state(model, res, c, 'R8')
    c03._r1(model, res, c, 'R9')
    from . import c19
    cm = c19.cell_module(model)
    H.borrow(res, 'R10', 'column converters', lambda tmp: c19._r3(model, tmp, cm))
    H.borrow(res, 'R10', 'row converters', lambda tmp: c19._r4(model, tmp, cm))
    H.borrow(res, 'R10', 'recomposition', lambda tmp: c19._r5(model, tmp, cm))
    H.borrow(res, 'R10', 'constant rows', lambda tmp: c19._r9_tables(model, tmp, cm))
    from . import c20
    H.borrow(res, 'R11', 'event emitter', lambda tmp: c20.emitter_rules(model, tmp))


# ---------------------------------------------------------------------------------------------------

def _grammar_object(interp, model, c, g):
    """The grammar parser object as the public constructor builds it (attributes such as a name-reading strategy included); the rules
    then put their own recording callbacks on it.  A constructor the interpreter cannot follow leaves a bare object."""
    try:
        saved = (list(interp.state.events), list(interp.state.imprecise))
        _p, gobj = H.host_objects(interp, model, c)
        interp.state.events[:] = saved[0]
        return gobj
    except (Unmodelled, AnalysisError):
        return Obj(ClassV(g.gm, g.gcls), {})


VALUE_KINDS = ('int', 'float', 'bool', 'str', 'none', 'datetime', 'list', 'err', 'zero', 'false', 'empty-text')


def _value_of_kind(kind):
    if kind == 'zero':
        return Const(0)
    if kind == 'false':
        return Const(False)
    if kind == 'empty-text':
        return Const('')
    if kind == 'list':
        return ListV([Sym('int', 'V0'), Sym('datetime', 'V1')])
    return H.mk(kind, 'V')


def _same_value(got, v):
    if isinstance(v, Const):
        return isinstance(got, Const) and type(got.value) is type(v.value) and got.value == v.value
    if isinstance(v, ListV):
        # an equal array (same items in the same order) is the same value
        return isinstance(got, ListV) and got.kind == v.kind and len(got.items) == len(v.items) and \
            all(_same_value(a, b) for a, b in zip(got.items, v.items))
    return got is v


def reference_value_rule(model, res, c, R, which=('call_cell_value', 'call_range_value', 'call_variable')):
    """What the callback of a reference answers is the value of the reference: the grammar action that invokes the callback, and every
    unit production between it and 'expression', hands the very value on - whatever kind of value it is (a date-time with a time of
    day, 0, FALSE, empty text, an array, an error)."""
    from .c09 import callback_attrs
    g = c.grammar
    role_attr = callback_attrs(c)
    attr_of = dict((cb, role_attr.get(cb, cb)) for cb in EVENTS)
    want = []
    for p in g.productions:
        syms = p.syms
        if p.name == 'cell' and len(syms) == 1 and 'call_cell_value' in which:
            want.append((p, 'call_cell_value'))
        elif p.name == 'cell' and len(syms) == 3 and syms[1] == 'COLON' and 'call_range_value' in which:
            want.append((p, 'call_range_value'))
        elif syms == ['variable_sequence'] and p.name != 'variable_sequence' and 'call_variable' in which:
            want.append((p, 'call_variable'))
    # unit productions on the way up to 'expression'
    heads = set(p.name for p, _ in want)
    units = []
    frontier = set(h_ for h_ in heads if h_ != 'expression')
    for _ in range(4):
        for p in g.productions:
            if len(p.syms) == 1 and p.syms[0] in frontier and p.name not in heads and (p, None) not in units:
                units.append((p, None))
                if p.name != 'expression':
                    frontier.add(p.name)
    n = 0
    for p, cbname in want + units:
        if p.funcname not in g.action_funcs:
            continue
        m, f = g.action_funcs[p.funcname]
        fv = Func(m, f)
        for kind in VALUE_KINDS:
            box = {}

            def call(interp, st, p=p, kind=kind, cbname=cbname):
                v = _value_of_kind(kind)
                box['v'] = v
                gobj = _grammar_object(interp, model, c, g)
                for name in EVENTS:
                    def rec(interp2, args, kwargs, name=name):
                        return v
                    interp.extern['hx:rv:' + name] = rec
                    gobj.attrs[attr_of[name]] = Builtin('hx:rv:' + name)
                items = [Const(None)]
                for i, s_ in enumerate(p.syms):
                    if cbname is None:
                        items.append(v)
                    elif s_ == 'variable_sequence':
                        items.append(ListV([Sym('str', 'S%d_0' % (i + 1))]))
                    else:
                        items.append(Sym('str', 'S%d' % (i + 1)))
                pv = ListV(items)
                interp.call(fv, [gobj, pv])
                return pv.items[0]
            try:
                outs = Interp(model, opaque=H.date_opaque(model)).run(call)
            except Unmodelled as e:
                res.ob(R, p.funcname, {'production': repr(p), 'value': kind}, True, 'undecided: %s' % e)
                continue
            v = box.get('v')
            outs = [o for o in outs if not o.imprecise]
            if not outs:
                res.ob(R, p.funcname, {'production': repr(p), 'value': kind}, True, 'undecided: imprecise')
                continue
            n += 1
            bad = [o for o in outs if not (o.kind == 'return' and _same_value(o.value, v))]
            res.ob(R, p.funcname, {'production': repr(p), 'value': kind}, not bad, H.describe(outs)[:2])
            if bad:
                res.violation(R, 'grammar:%s:reference-value:%s' % (p.funcname, kind), m.where(f),
                              'reducing "%s" with %s must yield that very value; got %s - the value of a reference is the value supplied '
                              'for it, unchanged' % (p, 'the callback answering a value of kind %s' % kind if cbname else
                                                     'a reference whose value is of kind %s' % kind, '; '.join(H.describe(bad)[:2])),
                              case={'production': repr(p), 'value': kind}, func=p.funcname)
    res.soft_floor('reference actions run on every kind of value', n, 100)


def supplied_values_rules(model, tmp, c):
    """R1/R5/R6 as a unit for the properties about values (borrowed): what a listener hands to the setter - 0, FALSE and empty text
    included - is the value of the reference, a blank only when nothing was supplied."""
    cbs = callbacks(c)
    for need in EVENTS:
        if need not in cbs:
            raise AnalysisError('callback %s not bound into the grammar parser (anchor vanished)' % need)
    _r1_r5({'model': model, 'c': c, 'res': tmp, 'cbs': cbs})


def run_callback(ctx, cb, make_args, listener_script=None, subscribe=True, opaque=None):
    """Outcomes of invoking callback ``cb`` (a key of EVENTS).  The abstract listener is subscribed to all four event
    names through the real on(); it records (event name, args) in state.events and then plays ``listener_script``:
    a list of values handed to the setter (the last positional argument) in order."""
    model, c = ctx['model'], ctx['c']
    key = ctx['cbs'][cb]
    m, f = c.cg.funcs[key]
    fv = Func(m, f)
    opq = dict(H.cell_opaque(model))
    opq.update(opaque or {})
    it = Interp(model, opaque=opq)

    def call(interp, st):
        parser, gobj = H.host_objects(interp, model, c)
        if subscribe:
            on = interp.get_method(parser, 'on')
            if on is None:
                raise Unmodelled('on() not found')
            for cbname, ev in EVENTS.items():
                def listener(interp2, args, kwargs, ev=ev):
                    interp2.state.events.append((ev, list(args)))
                    if listener_script is not None and args:
                        done = args[-1]
                        for v in listener_script():
                            interp2.call(done, [v])
                    return ctx.get('listener_returns') or Const(None)
                interp.extern['hx:listener:' + ev] = listener
                interp.call(on, [Const(ev), Builtin('hx:listener:' + ev)])
        return interp.call(fv, [parser] + make_args(interp))
    return it.run(call), (m, f, key)


def _r1_r5(ctx):
    res = ctx['res']
    argsets = {
        'call_cell_value': lambda interp: [Const('b7')],
        'call_range_value': lambda interp: [Const('a1'), Const('c3')],
        'call_variable': lambda interp: [Const('TRUE')],
        'call_function': lambda interp: [Const('F'), ListV([Sym('int', 'arg')])],
    }
    for cb, ev in sorted(EVENTS.items()):
        mk = argsets[cb]
        if cb == 'call_function':
            base = mk

            def mk(interp, base=base):
                interp.extern['hx:fn'] = lambda i2, a, kw: Sym('int', 'FRESULT')
                return base(interp)
        # ---- R1: exactly one event
        def with_fn(interp, mk=mk, cb=cb):
            return mk(interp)
        try:
            outs, (m, f, key) = _run_with_function(ctx, cb, with_fn, None)
        except Unmodelled as e:
            res.ob('R1', cb, 'undecided', True, str(e))
            res.notes.append('C10.R1 %s: %s' % (cb, e))
            continue
        site = fmt(key)
        for o in outs:
            if o.imprecise:
                res.ob('R1', site, 'trace depends on an unmodelled construct', True, '; '.join(o.imprecise))
                continue
            if o.kind != 'return':
                res.ob('R1', site, 'trace raises %r' % (o.value,), False)
                res.violation('R1', '%s:%s:raises' % key, m.where(f), 'the callback raises %r for a well-formed reference' % (o.value,), func=key[1])
                continue
            names = [e[0] for e in o.events]
            ok = names == [ev]
            res.ob('R1', site, {'events': names}, ok)
            if not ok:
                res.violation('R1', '%s:%s:event-count' % key, m.where(f),
                              'one invocation of the %s callback must raise exactly one %s event; the listener saw %s'
                              % (cb, ev, names or 'none'), case={'events': names}, func=key[1])
        # ---- R1 (function calls): a function that ends in an error value - raised or returned - is still one call, one event
        if cb == 'call_function':
            from .c01 import error_singletons
            em_, singles_ = error_singletons(ctx['model'])
            ename = sorted(singles_)[0]

            def raises(i2, a, kw, ename=ename, msg=singles_[ename]):
                raise Raised(Err(ename, msg))
            for label, fr in (('the function raises an error value', raises),
                              ('the function returns an error value', lambda i2, a, kw, ename=ename, msg=singles_[ename]: Err(ename, msg))):
                try:
                    outs_e, _ = _run_with_function(ctx, cb, with_fn, None, fn_result=fr)
                except Unmodelled as e:
                    res.ob('R1', site, label, True, 'undecided: %s' % e)
                    continue
                for o in outs_e:
                    if o.imprecise:
                        continue
                    names = [e[0] for e in o.events]
                    ok = o.kind == 'return' and names == [ev]
                    res.ob('R1', site, {'case': label, 'events': names}, ok, '%s %r' % (o.kind, o.value))
                    if not ok:
                        res.violation('R1', '%s:%s:event-count-error-result' % key, m.where(f),
                                      'when %s the call must still raise exactly one %s event (listeners see every call and may supply its '
                                      'value); the listener saw %s and the callback %s %r' % (label, ev, names or 'none', o.kind, o.value),
                                      case={'case': label}, func=key[1])
        # ---- R5 (variables): a name only a listener knows - what the listener hands over, falsy values included, is the value
        if cb == 'call_variable':
            for label, script, want in (('0', lambda: [Const(0)], 0), ('FALSE', lambda: [Const(False)], False), ('empty text', lambda: [Const('')], '')):
                try:
                    outs_v, _ = run_callback(ctx, cb, lambda interp: [Const('ONLY_THE_LISTENER_KNOWS')], listener_script=script)
                except Unmodelled as e:
                    res.ob('R5', site, label, True, 'undecided: %s' % e)
                    continue
                bad = [o for o in outs_v if not o.imprecise and not (o.kind == 'return' and isinstance(o.value, Const) and o.value.value == want
                                                                      and type(o.value.value) is type(want))]
                res.ob('R5', site, {'unset variable, listener hands': label}, not bad, H.describe(outs_v)[:2])
                if bad:
                    res.violation('R5', '%s:%s:setter-unset-variable' % key, m.where(f),
                                  'a listener hands %s to the setter for a variable that was never set; the reference must evaluate to %r but '
                                  'gives %s' % (label, want, '; '.join(H.describe(bad)[:2])), case={'setter receives': label}, func=key[1])
        # ---- R5: setter semantics
        scripts = [
            ('0', lambda: [Const(0)], ('const', 0)),
            ('FALSE', lambda: [Const(False)], ('const', False)),
            ('empty text', lambda: [Const('')], ('const', '')),
            ('a number', lambda: [Sym('int', 'V')], ('sym', 'V')),
            ('value then None', lambda: [Sym('int', 'V'), Const(None)], ('sym', 'V')),
            ('two values', lambda: [Sym('int', 'V1'), Sym('int', 'V2')], ('sym', 'V2')),
            ('value, None, value', lambda: [Const(1), Const(None), Const(0)], ('const', 0)),
            # only what is handed to the setter counts: a listener's return value is not an answer
            ('a number, and the listener returns another value', lambda: [Sym('int', 'V')], ('sym', 'V')),
        ]
        for label, script, want in scripts:
            ctx['listener_returns'] = Sym('int', 'RETURNED') if 'listener returns' in label else None
            try:
                outs, _ = _run_with_function(ctx, cb, with_fn, script)
            except Unmodelled as e:
                res.ob('R5', site, label, True, 'undecided: %s' % e)
                continue
            finally:
                ctx['listener_returns'] = None
            bad = []
            for o in outs:
                if o.imprecise:
                    continue
                v = o.value
                if want[0] == 'const':
                    good = o.kind == 'return' and isinstance(v, Const) and v.value == want[1] and type(v.value) is type(want[1])
                else:
                    good = o.kind == 'return' and isinstance(v, Sym) and v.name == want[1]
                if not good:
                    bad.append(o)
            res.ob('R5', site, {'setter receives': label}, not bad, H.describe(outs)[:2])
            if bad:
                res.violation('R5', '%s:%s:setter' % key, m.where(f),
                              'a listener hands %s to the setter; the reference must evaluate to %r but gives %s'
                              % (label, want[1], '; '.join(H.describe(bad)[:2])), case={'setter receives': label}, func=key[1])
        # ---- R6 default without listener / with a listener that sets nothing
        if cb in ('call_cell_value', 'call_range_value'):
            for sub in (False, True):
                outs, _ = run_callback(ctx, cb, mk, listener_script=(lambda: []) if sub else None, subscribe=sub)
                bad = [o for o in outs if not o.imprecise and not (o.kind == 'return' and isinstance(o.value, Const) and o.value.value is None)]
                res.ob('R6', site, {'listener': 'none' if not sub else 'sets nothing'}, not bad, H.describe(outs)[:2])
                if bad:
                    res.violation('R6', '%s:%s:default' % key, m.where(f),
                                  'with %s a cell/range reference must be blank; got %s'
                                  % ('no listener' if not sub else 'a listener that sets nothing', '; '.join(H.describe(bad)[:2])), func=key[1])
        if cb == 'call_function':
            # the function's own result is the value unless a listener replaces it; arguments and name reach the listener
            outs, _ = _run_with_function(ctx, cb, with_fn, lambda: [])
            bad = [o for o in outs if not o.imprecise and not (o.kind == 'return' and isinstance(o.value, Sym) and o.value.name == 'FRESULT')]
            res.ob('R5', site, {'listener': 'sets nothing', 'expected': 'the function result'}, not bad, H.describe(outs)[:2])
            if bad:
                res.violation('R5', '%s:%s:function-result' % key, m.where(f),
                              'when the listener sets nothing the call must evaluate to the function\'s own result; got %s'
                              % '; '.join(H.describe(bad)[:2]), func=key[1])
            for o in outs:
                for evname, args in o.events:
                    ok = len(args) == 3 and isinstance(args[0], Const) and args[0].value == 'F' and isinstance(args[1], ListV) and \
                        [getattr(x, 'name', None) for x in args[1].items] == ['arg']
                    res.ob('R3', site, 'callFunction payload (name, args, setter)', ok, repr(args[:2]))
                    if not ok:
                        res.violation('R3', '%s:%s:payload' % key, m.where(f),
                                      'the callFunction event must carry (name, evaluated arguments, setter); got %r' % (args[:2],), func=key[1])
        if cb == 'call_variable':
            outs, _ = run_callback(ctx, cb, lambda interp: [Const('NULL')], listener_script=lambda: [])
            for o in outs:
                for evname, args in o.events:
                    ok = len(args) == 2 and isinstance(args[0], Const) and args[0].value == 'NULL'
                    res.ob('R3', site, 'callVariable payload (name, setter)', ok, repr(args[:1]))
                    if not ok:
                        res.violation('R3', '%s:%s:payload' % key, m.where(f),
                                      'the callVariable event must carry (name, setter); got %r' % (args[:1],), func=key[1])


def _run_with_function(ctx, cb, mk, script, fn_result=None):
    """call_function needs a registered custom function F (``fn_result``: what F does - default returns a number)."""
    if cb != 'call_function':
        return run_callback(ctx, cb, mk, listener_script=script)
    model, c = ctx['model'], ctx['c']

    def mk2(interp):
        args = mk(interp)
        return args
    # register F through set_function inside the run
    key = ctx['cbs'][cb]
    m, f = c.cg.funcs[key]
    fv = Func(m, f)
    it = Interp(model)

    def call(interp, st):
        parser, gobj = H.host_objects(interp, model, c)
        interp.extern['hx:fn'] = fn_result or (lambda i2, a, kw: Sym('int', 'FRESULT'))
        setter = interp.get_method(parser, 'set_function')
        interp.call(setter, [Const('F'), Builtin('hx:fn')])
        on = interp.get_method(parser, 'on')
        for cbname, ev in EVENTS.items():
            def listener(interp2, args, kwargs, ev=ev):
                interp2.state.events.append((ev, list(args)))
                if script is not None and args:
                    for v in script():
                        interp2.call(args[-1], [v])
                return ctx.get('listener_returns') or Const(None)
            interp.extern['hx:listener:' + ev] = listener
            interp.call(on, [Const(ev), Builtin('hx:listener:' + ev)])
        return interp.call(fv, [parser, Const('F'), ListV([Sym('int', 'arg')])])
    return it.run(call), (m, f, key)


# ---------------------------------------------------------------------------------------------------

def _r2(ctx):
    """Grammar actions: exactly one callback, once, symbols in their roles."""
    model, c, res = ctx['model'], ctx['c'], ctx['res']
    g = c.grammar
    want = []
    for p in g.productions:
        syms = p.syms
        if p.name == 'cell' and len(syms) == 1:
            want.append((p, 'call_cell_value', [1]))
        elif p.name == 'cell' and len(syms) == 3 and syms[1] == 'COLON':
            want.append((p, 'call_range_value', [1, 3]))
        elif syms == ['variable_sequence'] and p.name != 'variable_sequence':
            want.append((p, 'call_variable', ['1[0]']))
        elif syms == ['FUNCTION', 'LPAREN', 'RPAREN']:
            want.append((p, 'call_function', [1]))
        elif len(syms) == 4 and syms[0] == 'FUNCTION' and syms[1] == 'LPAREN' and syms[3] == 'RPAREN':
            want.append((p, 'call_function', [1, 3]))
    # exhaustiveness: every kind of cell label may be either corner of a range
    kinds = sorted(set(p.syms[0] for p in g.productions if p.name == 'cell' and len(p.syms) == 1))
    have = set((p.syms[0], p.syms[2]) for p in g.productions if p.name == 'cell' and len(p.syms) == 3 and p.syms[1] == 'COLON')
    res.floor('kinds of cell label', len(kinds), 3)
    missing = [(a, b) for a in kinds for b in kinds if (a, b) not in have]
    res.ob('R2', 'grammar:cell', 'every pair of label kinds forms a range (%d kinds, %d pairs)' % (len(kinds), len(kinds) ** 2), not missing,
           '; '.join('%s:%s' % ab for ab in missing))
    if missing:
        any_cell = [p for p in g.productions if p.name == 'cell'][0]
        res.violation('R2', 'grammar:cell:range-pairs', g.gm.where(any_cell.func),
                      'no production for a range whose corners are written %s: such a reference is a syntax error and raises no range event, '
                      'although a range is one reference however its corners are written' % ', '.join('%s:%s' % ab for ab in missing),
                      case=missing, func=any_cell.funcname)
    else:
        res.floor('reference productions', len(want), 15)
    for p, cbname, roles_ in want:
        m, f = g.action_funcs[p.funcname]
        fv = Func(m, f)
        it = Interp(model)

        from .c09 import callback_attrs
        role_attr = callback_attrs(c)

        def call(interp, st, p=p):
            gobj = _grammar_object(interp, model, c, g)
            for name in EVENTS:
                def rec(interp2, args, kwargs, name=name):
                    interp2.state.events.append((name, list(args)))
                    return Sym('int', 'RESULT')
                interp.extern['hx:cb:' + name] = rec
                gobj.attrs[role_attr.get(name, name)] = Builtin('hx:cb:' + name)
            items = [Const(None)]
            for i, s in enumerate(p.syms):
                if s == 'variable_sequence':
                    items.append(ListV([Sym('str', 'S%d_0' % (i + 1)), Sym('str', 'S%d_1' % (i + 1))]))
                elif s.startswith('expseq'):
                    items.append(ListV([Sym('int', 'S%d_0' % (i + 1))]))
                else:
                    items.append(Sym('str', 'S%d' % (i + 1)))
            pv = ListV(items)
            interp.call(fv, [gobj, pv])
            return pv.items[0]
        try:
            outs = it.run(call)
        except Unmodelled as e:
            res.ob('R2', p.funcname, repr(p), True, 'undecided: %s' % e)
            continue
        for o in outs:
            if o.imprecise:
                continue
            calls = o.events
            ok = o.kind == 'return' and len(calls) == 1 and calls[0][0] == cbname and \
                isinstance(o.value, Sym) and o.value.name == 'RESULT'
            if ok:
                got = []
                for a in calls[0][1]:
                    if isinstance(a, Sym):
                        got.append(a.name)
                    elif isinstance(a, ListV):
                        got.append('list:' + ','.join(getattr(x, 'name', '?') for x in a.items))
                    else:
                        got.append(repr(a))
                exp = []
                for r in roles_:
                    if r == '1[0]':
                        exp.append('S1_0')
                    elif p.syms[r - 1].startswith('expseq'):
                        exp.append('list:S%d_0' % r)
                    else:
                        exp.append('S%d' % r)
                ok = got == exp
            res.ob('R2', p.funcname, {'production': repr(p), 'callback': cbname}, ok, repr(calls)[:120])
            if not ok:
                res.violation('R2', 'grammar:%s:callback' % p.funcname, m.where(f),
                              'reducing "%s" must invoke %s exactly once with its symbols %s and use the result; got calls %s, value %r'
                              % (p, cbname, roles_, [(n, [repr(a) for a in args]) for n, args in calls], o.value), func=p.funcname)


# ---------------------------------------------------------------------------------------------------

def _rec(obj):
    """(label value, index value, is_absolute value) of a parsed-label record."""
    if isinstance(obj, Obj):
        return obj.attrs.get('label'), obj.attrs.get('index'), obj.attrs.get('is_absolute')
    return None, None, None


def _group_of(v):
    """(subject key, group number) if v is group(subject, n)."""
    if isinstance(v, Atom) and v.op == 'group' and len(v.args) == 2 and isinstance(v.args[1], Const):
        return k(v.args[0]), v.args[1].value
    return None


def _is_upper_of(v, name):
    return isinstance(v, Atom) and v.op == 'upper' and len(v.args) == 1 and isinstance(v.args[0], Sym) and v.args[0].name == name


def _r3(ctx):
    """Cell payload with a symbolic label."""
    res = ctx['res']
    outs, (m, f, key) = run_callback(ctx, 'call_cell_value', lambda interp: [Sym('str', 'LAB')], listener_script=lambda: [])
    site = fmt(key)
    n = 0
    for o in outs:
        if o.imprecise or o.kind != 'return' or not o.events:
            continue
        n += 1
        ev, args = o.events[0]
        cell = args[0] if args else None
        ok = isinstance(cell, Obj)
        why = ''
        if ok:
            label = cell.attrs.get('label')
            row, col = cell.attrs.get('row'), cell.attrs.get('col')
            ok = _is_upper_of(label, 'LAB')
            why = 'label=%r' % (label,)
            rl, ri, ra = _rec(row)
            cl, ci, ca = _rec(col)
            gr, gc = _group_of(rl), _group_of(cl)
            if ok:
                # parts decomposed from the upper-cased label: digits group (4) is the row, letters group (2) the column
                ok = gr is not None and gc is not None and gr[1] == 4 and gc[1] == 2 and gr[0] == gc[0] == k(label)
                why = 'row.label=%r col.label=%r' % (rl, cl)
            if ok:
                def marker_group(v):
                    if isinstance(v, Atom) and v.op == 'took-part' and _group_of(v.args[0]):
                        return _group_of(v.args[0])[1]      # the marker groups can only hold '$' (C19.R1 / R7)
                    if isinstance(v, Atom) and v.op == 'eq':
                        for a, b in (v.args, tuple(reversed(v.args))):
                            gg = _group_of(a)
                            if gg and isinstance(b, Const) and b.value == '$':
                                return gg[1]
                    return None
                from .c19 import _marker_is
                ok = (marker_group(ra) == 3 or _marker_is(ra, 3, o.notes)) and (marker_group(ca) == 1 or _marker_is(ca, 1, o.notes))
                why = 'row.is_absolute=%r col.is_absolute=%r' % (ra, ca)
        res.ob('R3', site, 'cell payload on trace %s' % len(o.notes), ok, why)
        if not ok:
            res.violation('R3', '%s:%s:cell-payload' % key, m.where(f),
                          'the callCellValue event must carry Cell(upper-cased label, row record of its digits with the marker before the '
                          'digits, column record of its letters with the leading marker), all decomposed from the upper-cased label; got %s'
                          % why, func=key[1])
    res.soft_floor('cell payload traces', n, 1)


def _r4(ctx):
    res = ctx['res']
    model = ctx['model']
    # to_label is summarised: recomposition of (row record, column record)
    opaque = {}
    for mm in model.modules.values():
        if 'to_label' in mm.functions and 'extract_label' in mm.functions:
            opaque[(mm.name, mm.functions.key_of('to_label'))] = lambda interp, args, kwargs: Atom('to_label', args, 'str')
    outs, (m, f, key) = run_callback(ctx, 'call_range_value', lambda interp: [Sym('str', 'S'), Sym('str', 'E')],
                                     listener_script=lambda: [], opaque=opaque)
    site = fmt(key)
    n = 0
    for o in outs:
        if o.imprecise or o.kind != 'return' or not o.events:
            continue
        ev, args = o.events[0]
        if len(args) < 2 or not isinstance(args[0], Obj) or not isinstance(args[1], Obj):
            res.ob('R4', site, 'range payload', False, repr(args))
            res.violation('R4', '%s:%s:range-payload-shape' % key, m.where(f), 'the callRangeValue event must carry (start cell, end cell, setter)', func=key[1])
            continue
        n += 1
        start, end = args[0], args[1]
        problems = []
        info = {}
        for cname, cell in (('start', start), ('end', end)):
            for part in ('row', 'col'):
                rl, ri, ra = _rec(cell.attrs.get(part))
                gg = _group_of(rl)
                origin = None
                if gg:
                    # which label was decomposed?  the subject of the match is upper(S) or upper(E)
                    subj = rl.args[0]
                    if _is_upper_of(subj, 'S'):
                        origin = 'S'
                    elif _is_upper_of(subj, 'E'):
                        origin = 'E'
                    want_group = 4 if part == 'row' else 2
                    if gg[1] != want_group:
                        problems.append('%s.%s is built from group %d of the label (expected %d)' % (cname, part, gg[1], want_group))
                if origin is None:
                    problems.append('%s.%s is not a part decomposed from an upper-cased corner label (%r)' % (cname, part, rl))
                info[(cname, part)] = (origin, ri)
        # min / max by the comparisons assumed on this trace
        for part in ('row', 'col'):
            so, si = info.get(('start', part), (None, None))
            eo, ei = info.get(('end', part), (None, None))
            if so is None or eo is None:
                continue
            if so == eo:
                problems.append('both cells carry the %s of corner %s' % (part, so))
                continue
            # find a decision comparing the two indices
            rel = None
            for (t, alt, s) in o.notes:
                if isinstance(s, Atom) and s.op in ('le', 'lt', 'ge', 'gt') and len(s.args) == 2:
                    ka, kb = k(s.args[0]), k(s.args[1])
                    if set([ka, kb]) == set([k(si), k(ei)]):
                        # normalise to: is index(start cell) <= index(end cell) ?
                        a_is_start = (ka == k(si))
                        op = s.op
                        truth = bool(alt)
                        # relation between a and b
                        if op in ('le', 'lt'):
                            a_small = truth
                        else:
                            a_small = not truth
                        rel = a_small if a_is_start else (not a_small)
            if rel is None:
                problems.append('the %s parts are assigned without comparing the two %s indices' % (part, part))
            elif rel is False:
                problems.append('start cell carries the larger %s index' % part)
        # labels agree with coordinates
        for cname, cell in (('start', start), ('end', end)):
            label = cell.attrs.get('label')
            ro = info.get((cname, 'row'), (None, None))[0]
            co = info.get((cname, 'col'), (None, None))[0]
            if isinstance(label, Atom) and label.op == 'to_label':
                okl = len(label.args) == 2 and label.args[0] is cell.attrs.get('row') and label.args[1] is cell.attrs.get('col')
                if not okl:
                    okl = len(label.args) == 2 and k(label.args[0]) == k(cell.attrs.get('row')) and k(label.args[1]) == k(cell.attrs.get('col'))
                if not okl:
                    problems.append('%s.label is recomposed from other records than the cell\'s own row and column' % cname)
            elif _is_upper_of(label, 'S') or _is_upper_of(label, 'E'):
                lo = 'S' if _is_upper_of(label, 'S') else 'E'
                if not (ro == lo and co == lo):
                    problems.append('%s.label is the label of corner %s but the cell carries row of %s and column of %s' % (cname, lo, ro, co))
            else:
                problems.append('%s.label %r is neither an upper-cased corner label nor recomposed from the cell\'s parts' % (cname, label))
        ok = not problems
        res.ob('R4', site, {'trace': ' & '.join('%s=%s' % (t[:40], a) for (t, a, s) in o.notes if isinstance(s, Atom) and s.op in ('le', 'lt', 'ge', 'gt'))}, ok,
               '; '.join(problems))
        if not ok:
            res.violation('R4', '%s:%s:range-payload' % key, m.where(f),
                          'the callRangeValue payload is not self-consistent: %s' % '; '.join(problems[:3]),
                          case=' & '.join('%s=%s' % (t[:60], a) for (t, a, s) in o.notes if isinstance(s, Atom) and s.op in ('le', 'lt', 'ge', 'gt')),
                          func=key[1])
    res.soft_floor('range payload traces', n, 1)


def _r7(ctx):
    res = ctx['res']
    g = ctx['c'].grammar
    spec = {'ABSOLUTE_CELL': r'\$[A-Za-z]+\$[0-9]+', 'MIXED_CELL': r'(\$[A-Za-z]+[0-9]+)|([A-Za-z]+\$[0-9]+)', 'RELATIVE_CELL': r'[A-Za-z]+[0-9]+'}
    for tok, pat in sorted(spec.items()):
        t = g.lex_token(tok)
        if t is None:
            raise AnalysisError('cell token %s not found (anchor vanished)' % tok)
        try:
            T = rx.build(t.regex)
            S = rx.build(pat)
            al = rx.alphabet([T, S])
            w = rx.difference_witness(S, T, al)
            w2 = rx.difference_witness(T, S, al)
        except rx.Unsupported as e:
            res.ob('R7', 'lexer:t_' + tok, 'undecided', True, str(e))
            continue
        ok = w is None
        res.ob('R7', 'lexer:t_' + tok, 'label language included in the token language', ok, 'counter-example %r' % (w,))
        if not ok:
            res.violation('R7', 'lexer:t_%s:misses-label' % tok, g.lexer_module.where(t.node),
                          'the cell label %r is not matched by token %s: no cell event is raised for it (it is lexed as something else)' % (w, tok),
                          case=w, func='t_' + tok)
        ok2 = w2 is None
        res.ob('R7', 'lexer:t_' + tok, 'token language included in the label language', ok2, 'counter-example %r' % (w2,))
        if not ok2:
            res.violation('R7', 'lexer:t_%s:matches-non-label' % tok, g.lexer_module.where(t.node),
                          'token %s also matches %r, which is not a cell label of its kind' % (tok, w2), case=w2, func='t_' + tok)
