# -*- coding: utf-8 -*-
"""C11 - aggregates equal their definitions over exactly the selected items (structural clauses)."""
import ast

from ..model import AnalysisError, src
from ..paths import walk_no_defs
from ..absint import (Interp, Const, Sym, Err, Atom, Top, Func, ListV, Obj, Aff, Raised, Unmodelled, Exc, k)
from .. import abshelp as H, ctx as ctxmod, purity, sa, polyform as PF
from .c01 import error_singletons

DELEGATION = {'AVERAGE': 'statistics.mean', 'MEDIAN': 'statistics.median', 'MODE': 'statistics.mode', 'VAR': 'statistics.variance',
              'VAR.P': 'statistics.pvariance', 'STDEV': 'statistics.stdev', 'STDEV.P': 'statistics.pstdev',
              'GEOMEAN': 'statistics.geometric_mean', 'HARMEAN': 'statistics.harmonic_mean', 'MAX': 'max', 'MIN': 'min'}
ERROR_PROPAGATING = ['SUM', 'PRODUCT', 'AVERAGE', 'MIN', 'MAX', 'MEDIAN']
SHAPES = {
    'flat': lambda L: L,
    'array in the middle': lambda L: [L[0], ListV([L[1], L[2]]), L[3]],
    'nested arrays': lambda L: [ListV([L[0], ListV([L[1]])]), ListV([ListV([L[2]]), L[3]])],
    'one array': lambda L: [ListV(L)],
    # a range value handed over by the host as rows of tuples (cursor rows) is an array like any other
    'rows of tuples': lambda L: [ListV([ListV([L[0], L[1]], 'tuple'), ListV([L[2], L[3]], 'tuple')])],
    'tuple of tuples in the middle': lambda L: [L[0], ListV([ListV([L[1]], 'tuple'), ListV([L[2]], 'tuple')], 'tuple'), L[3]],
}


def run(model, res, tier):
    c = ctxmod.get(model)
    res.explanation = (
        'Structural clauses by abstract interpretation on symbolic items. R1: with an error item at any position of flat and nested '
        'argument shapes (other items symbolic numbers) SUM, PRODUCT, AVERAGE, MIN, MAX and MEDIAN end in that error on every trace - '
        'a short-circuit that stops before the error is a fork that violates. R2: for every argument shape (flat, array in the middle, '
        'nested arrays, one array) each aggregate sees exactly the same leaves, once each (regrouping invariance by construction). '
        'R3: criteria predicates - operator criteria apply operator(item, number) with the item first, wildcard criteria '
        'fnmatch(item, pattern) with the item as subject, bare values equality with the item. R4: a running extremum is not seeded '
        'with a number that can win. R5: the conditional aggregates subscript criteria and values with the same enumeration index. '
        'R6: an empty selection gives 0 for sums/counts/maxima and an error for averages. R7: delegation table AVERAGE->mean, '
        'VAR->variance, VAR.P->pvariance, STDEV(.P), MEDIAN, MODE, GEOMEAN, HARMEAN, MIN, MAX; SUM and PRODUCT as folds; COUNT as the '
        'number of leaves; SLOPE and AVEDEV as algebraic identities on three symbolic points. That the returned numbers equal the '
        'textbook statistics for all lists is NOT decided.')
    for rid, txt in (('R1', 'an error item becomes the result'), ('R2', 'regrouping invariance: same leaves for every argument shape'),
                     ('R3', 'criteria predicate roles'), ('R4', 'extremum accumulators are not seeded with a winning constant'),
                     ('R5', 'criteria and values are index-aligned'), ('R6', 'empty selection'), ('R7', 'delegation / closed forms'),
                     ('R8', 'no cache or shared state'),
                     ('R9', 'the items are the values the references were given: a cell holding 0 is the item 0, not a blank (shared with C10.R5)')):
        res.rule(rid, txt)
    res.trusted += ['hxsa abstract interpreter (eager generators with a deferred raise)', 'hxsa polynomial normal form', 'python statistics function names']
    em, singles = error_singletons(model)
    E = dict((msg, n) for n, msg in singles.items())
    H.safely(res, 'R1', 'error items', _r1, model, res)
    H.safely(res, 'R2', 'regrouping', _r2, model, res)
    H.safely(res, 'R3', 'criteria', _r3, model, res)
    H.safely(res, 'R4', 'r4_r5', _r4_r5, model, res)
    H.safely(res, 'R6', 'empty selection', _r6, model, res, E)
    H.safely(res, 'R7', 'closed forms', _r7, model, res)
    from . import c10
    H.borrow(res, 'R9', 'supplied values', lambda tmp: c10.supplied_values_rules(model, tmp, c))
    keys = []
    for n in ERROR_PROPAGATING + list(DELEGATION) + ['COUNT', 'SUMIF', 'COUNTIF', 'AVERAGEIF', 'SUMIFS', 'AVERAGEIFS', 'MAXIFS', 'LARGE', 'SLOPE', 'AVEDEV']:
        m, f = model.registered(n)
        keys.append((m.name, m.qualname_of(f)))
    region = c.cg.reachable(keys)
    res.rule('RX', 'where a function answers "an error rather than a value" by raising, the catch-all of parse() turns every exception class into #ERROR! (shared with C01.R1)')
    from . import c01 as _c01
    H.borrow(res, 'RX', 'catch-all of parse()', lambda tmp: _c01.catch_all_rule(model, tmp, c))
    res.rule('R10', 'a text literal is the text that was written: the formula is not transformed as a whole (case mapping, translate, replace, regex substitution, normalisation) in front of the lexer (shared with C05.R9)')
    from . import c05 as _c05
    H.borrow(res, 'R10', 'formula text', lambda tmp: _c05.literal_text_rule(model, tmp, c, 'R10', 'a criterion (or a text item) written as a literal'))
    purity.check_region(res, c, 'R8', 'R8', region, 'an aggregate')
    purity.check_memo(res, c, 'R8', region, 'an aggregate')


def _runs(model, name, mk):
    return H.run_function(model, H.registry_func(model, name), mk)


def _leaves(v, acc=None):
    acc = acc if acc is not None else []
    if isinstance(v, Sym):
        acc.append(v.name)
    elif isinstance(v, Atom):
        for a in v.args:
            _leaves(a, acc)
    elif isinstance(v, ListV):
        for a in v.items:
            _leaves(a, acc)
    return acc


# aggregates that divide by the number of items: the count inside the result (an integer constant of the symbolic value) must not depend
# on how the items are grouped either
COUNT_DIVIDED = ('AVERAGE', 'AVEDEV')


def _counts(v, acc=None):
    acc = acc if acc is not None else []
    if isinstance(v, Const):
        if isinstance(v.value, int) and not isinstance(v.value, bool) and v.value >= 2:
            acc.append(v.value)
    elif isinstance(v, Atom):
        for a in v.args:
            _counts(a, acc)
    return acc


def _r1(model, res):
    n = 0
    for name in ERROR_PROPAGATING:
        m, f = model.registered(name)
        for sname, shape in sorted(SHAPES.items()):
            for pos in range(4):
                def mk(pos=pos, shape=shape):
                    items = [Sym('err', 'E') if i == pos else Sym('int', 'x%d' % i) for i in range(4)]
                    return shape(items)
                outs = _runs(model, name, mk)
                n += 1
                bad = [o for o in outs if not o.imprecise and not (isinstance(o.value, Sym) and o.value.tag == 'err' and o.value.name == 'E')]
                res.ob('R1', name, {'shape': sname, 'error at': pos}, not bad, H.describe(outs)[:2])
                if bad:
                    res.violation('R1', 'function:%s:error-item' % name, m.where(f),
                                  '%s with an error item at position %d (%s arguments, other items unknown numbers) must end in that error on every '
                                  'trace; got %s' % (name, pos, sname, '; '.join(H.describe(bad)[:2])), case={'shape': sname, 'error at': pos}, func=f.name)
    res.soft_floor('error-item cases', n, 90)


def _r2(model, res):
    names = ['SUM', 'PRODUCT', 'AVERAGE', 'MIN', 'MAX', 'MEDIAN', 'MODE', 'VAR', 'VAR.P', 'STDEV', 'STDEV.P', 'GEOMEAN', 'HARMEAN', 'COUNT', 'AVEDEV']
    n = 0
    for name in names:
        m, f = model.registered(name)
        results = {}
        for sname, shape in sorted(SHAPES.items()):
            outs = _runs(model, name, lambda shape=shape: shape([Sym('int', 'x%d' % i) for i in range(4)]))
            vals = [o for o in outs if not o.imprecise]
            if len(vals) != 1 or vals[0].kind != 'return':
                results[sname] = 'outcomes: %s' % H.describe(outs)[:2]
                continue
            v = vals[0].value
            if isinstance(v, Const):
                results[sname] = ('const', v.value)
            else:
                results[sname] = ('leaves', tuple(sorted(_leaves(v))), v.op if isinstance(v, Atom) else None) + \
                    ((tuple(sorted(_counts(v))),) if name in COUNT_DIVIDED else ())
            n += 1
        flat = results.get('flat')
        ok = all(r == flat for r in results.values())
        if name == 'COUNT':
            ok = ok and flat == ('const', 4)
        elif name == 'AVEDEV':
            ok = ok and isinstance(flat, tuple) and flat[0] == 'leaves' and set(flat[1]) == set(['x0', 'x1', 'x2', 'x3'])
        else:
            ok = ok and isinstance(flat, tuple) and flat[0] == 'leaves' and flat[1] == ('x0', 'x1', 'x2', 'x3')
        res.ob('R2', name, {'shapes': sorted(results)}, ok, repr(results)[:200])
        if not ok:
            diff = [s for s, r in results.items() if r != flat]
            res.violation('R2', 'function:%s:regrouping' % name, m.where(f),
                          '%s must see exactly the items x0..x3 once each however they are grouped into arguments and nested arrays; flat: %s, '
                          'but %s: %s' % (name, flat, diff[0] if diff else 'flat', results.get(diff[0]) if diff else flat), func=f.name)
    res.soft_floor('aggregate x shape runs', n, 50)
    # the single-range criteria functions select among the same items however the range is nested
    for name in ('SUMIF', 'COUNTIF', 'AVERAGEIF'):
        if name not in model.registry:
            continue
        m, f = model.registered(name)
        sigs = {}
        undecided = False
        for sname, mk in (('flat', lambda: [ListV([Sym('int', 'x0'), Sym('int', 'x1')]), Const('>1')]),
                          ('nested', lambda: [ListV([ListV([Sym('int', 'x0')]), ListV([Sym('int', 'x1')])]), Const('>1')])):
            try:
                outs = _runs(model, name, mk)
            except Unmodelled:
                undecided = True
                break
            if any(o.imprecise for o in outs):
                undecided = True
                break
            sigs[sname] = sorted((o.kind, repr(o.value), tuple(sorted('%r=%s' % (s_, a_) for (t_, a_, s_) in o.notes if s_ is not None))) for o in outs)
        if undecided:
            res.ob('R2', name, 'flat / nested range', True, 'undecided')
            continue
        ok = sigs['flat'] == sigs['nested']
        res.ob('R2', name, 'the same selection and value for a flat and a nested range', ok, repr(sigs['nested'])[:160])
        if not ok:
            res.violation('R2', 'function:%s:regrouping' % name, m.where(f),
                          '%s over the items x0, x1 with the criterion ">1" differs when the range is given as nested rows: flat %s, nested %s'
                          % (name, sigs['flat'][:2], sigs['nested'][:2]), func=f.name)


def _r3(model, res):
    pcs = [(m, m.functions['parse_criteria']) for m in model.modules.values() if 'parse_criteria' in m.functions]
    if not pcs:
        raise AnalysisError('parse_criteria not found (anchor vanished)')
    m, f = pcs[0]
    fv = Func(m, f)
    # the constant table first: it stands on its own when the symbolic run below meets a construct the interpreter cannot follow
    _wildcard_table(model, res, m, f, fv)
    it = Interp(model)

    def call(interp, st):
        pred = interp.call(fv, [Sym('str', 'CRIT')])
        return interp.call(pred, [Sym('str', 'ITEM')])
    outs = it.run(call)
    n = 0
    kinds = set()
    # the operator prefix of a criterion can only consist of < > = (checked on the criteria regex itself)
    from .. import rx
    feasible_ops = ("'>'", "'<'", "'>='", "'<='", "'='", "'<>'")
    for cname, cnode in m.constants.items():
        if isinstance(cnode, ast.Call) and (sa.call_name(cnode) or '').endswith('compile') and cnode.args and isinstance(cnode.args[0], ast.Constant) \
                and 'op' in str(cnode.args[0].value):
            try:
                groups, layout = rx.group_nfas(cnode.args[0].value)
                G = groups.get(1)
                W = rx.build(r'[<>=]*')
                al = rx.alphabet([G, W])
                w = rx.difference_witness(G, W, al)
                res.ob('R3', '%s:%s' % (m.name, cname), 'operator prefix language is within [<>=]*', w is None, repr(w))
                if w is not None:
                    res.violation('R3', '%s:%s:operator-prefix' % (m.name, cname), m.where(cnode),
                                  'the criteria regex lets %r through as an operator prefix; only < > = combinations are comparison operators' % w)
            except (rx.Unsupported, AttributeError):
                pass
    for o in outs:
        if o.imprecise or o.kind != 'return':
            continue
        if any(isinstance(s_, tuple) and s_ and s_[0] == 'dict-key' and a_ not in feasible_ops for (t_, a_, s_) in o.notes):
            continue
        v = o.value
        n += 1
        ok = False
        why = repr(v)
        rx_notes = [s_ for (t_, a_, s_) in o.notes if isinstance(s_, Atom) and s_.op in ('re.match', 're.search', 're.fullmatch')]
        if rx_notes and isinstance(v, Const) and isinstance(v.value, bool):
            # a wildcard predicate implemented with a regular expression built from the criterion
            kinds.add('wildcard')
            a = rx_notes[-1]
            pat, subj = a.args
            roles = getattr(subj, 'name', None) == 'ITEM' and 'CRIT' in repr(pat) and 'ITEM' not in repr(pat)

            def ends_anchored(p_):
                if isinstance(p_, Const) and isinstance(p_.value, str):
                    return p_.value.endswith('$') or p_.value.endswith('\\Z') or p_.value.endswith('\\z')
                if isinstance(p_, Atom) and p_.op == 'concat' and p_.args:
                    return ends_anchored(p_.args[-1])
                if isinstance(p_, Atom) and p_.op == 'fnmatch.translate':
                    return True
                return False

            def starts_anchored(p_):
                if isinstance(p_, Const) and isinstance(p_.value, str):
                    return p_.value.startswith('^') or p_.value.startswith('\\A')
                if isinstance(p_, Atom) and p_.op == 'concat' and p_.args:
                    return starts_anchored(p_.args[0])
                return False
            full = a.op == 're.fullmatch' or (ends_anchored(pat) and (a.op == 're.match' or starts_anchored(pat)))
            res.ob('R3', 'parse_criteria', {'predicate': '%s(pattern from the criterion, item)' % a.op}, roles and full,
                   'whole item must match' if not full else '')
            if not roles:
                res.violation('R3', '%s:parse_criteria:roles' % m.name, m.where(f),
                              'a wildcard predicate must match the item against a pattern made from the criterion; got %r' % (a,), func='parse_criteria')
            elif not full:
                res.violation('R3', '%s:parse_criteria:wildcard-prefix-match' % m.name, m.where(f),
                              'wildcard criteria are matched with a regular expression built from the criterion and applied with %s without an '
                              'end anchor: a cell only has to *start* with the pattern (criterion "ap?" also selects "apple")' % a.op.split('.')[-1],
                              func='parse_criteria')
            continue
        if isinstance(v, Atom) and v.op == 'fnmatch':
            kinds.add('wildcard')
            ok = getattr(v.args[0], 'name', None) == 'ITEM' and 'CRIT' in repr(v.args[1]) and 'ITEM' not in repr(v.args[1])
            why = 'fnmatch(subject=%r, pattern=%r)' % (v.args[0], v.args[1])
        elif isinstance(v, Atom) and v.op in ('gt', 'lt', 'ge', 'le', 'eq', 'ne'):
            PREFIX = {"'>'": 'gt', "'<'": 'lt', "'>='": 'ge', "'<='": 'le', "'='": 'eq', "'<>'": 'ne'}
            # the criterion's prefix selects the operator: through a table lookup, or through an if-chain comparing the prefix
            chosen = [a for (t, a, s) in o.notes if isinstance(s, tuple) and s and s[0] == 'dict-key']
            for (t, a, s) in o.notes:
                if a is True and isinstance(s, Atom) and s.op == 'eq' and len(s.args) == 2:
                    cs = [x for x in s.args if isinstance(x, Const) and isinstance(x.value, str) and repr(x.value) in PREFIX]
                    others = [x for x in s.args if not isinstance(x, Const)]
                    if cs and others and 'ITEM' not in repr(others[0]):
                        chosen.append(repr(cs[0].value))
            kinds.add('operator' if chosen else 'equality')
            ok = getattr(v.args[0], 'name', None) == 'ITEM' and 'CRIT' in repr(v.args[1])
            # the operator must be the one selected by the criterion's prefix
            for a in chosen:
                    want = PREFIX.get(a)
                    ok = ok and want == v.op
            why = '%s(%r, %r)' % (v.op, v.args[0], v.args[1])
        elif isinstance(v, Const) and isinstance(v.value, bool):
            # comparing text with a number of another kind is decided by kind
            ok = True
        res.ob('R3', 'parse_criteria', {'predicate': why[:100]}, ok)
        if not ok:
            res.violation('R3', '%s:parse_criteria:roles' % m.name, m.where(f),
                          'a criterion predicate must test the item against the criterion (operator(item, number) / fnmatch(item, pattern) / '
                          'item == value); got %s' % why, func='parse_criteria')
    res.soft_floor('criteria predicate traces', n, 6)
    for need in ('wildcard', 'operator', 'equality'):
        if need not in kinds and need == 'wildcard':
            verdict, why = _regex_wildcards(model, m, f)
            res.ob('R3', 'parse_criteria', 'wildcard criteria are matched in full', verdict is not False, why)
            if verdict is False:
                res.violation('R3', '%s:parse_criteria:wildcard-prefix-match' % m.name, m.where(f),
                              'wildcard criteria are matched with a hand-built regular expression and %s: a cell only has to *start* with the '
                              'pattern (criterion "ap?" also selects "apple")' % why, func='parse_criteria')
            continue
        res.ob('R3', 'parse_criteria', 'a %s predicate trace exists' % need, need in kinds)
        if need not in kinds:
            res.violation('R3', '%s:parse_criteria:%s-missing' % (m.name, need), m.where(f),
                          'no criterion yields a %s predicate of the expected form (%s)' % (need, sorted(kinds)), func='parse_criteria')


WILDCARD_TABLE = (
    # criterion, item, selected?  - "?" is exactly one character, "*" any run of characters, everything else literal, whole item
    ('ap?', 'app', True), ('ap?', 'apple', False), ('ap?', 'xapp', False), ('ap?', 'ap', False),
    ('a*e', 'apple', True), ('a*e', 'apples', False), ('a*', 'a', True), ('*a', 'banana', True), ('*a', 'banan', False),
    ('a.?', 'a.b', True), ('a.?', 'axb', False), ('a+?', 'a+b', True), ('a+?', 'aab', False),
    # line breaks inside a cell are ordinary characters
    ('ap?', 'app\n', False), ('ap?', 'ap\n', True), ('a*e', 'a\nle', True), ('*a', 'a\n', False),
    # both wildcards in one criterion: a "?" next to a leading or trailing "*" is still one arbitrary character
    ('b?r*', 'bart', True), ('b?r*', 'bear', False), ('b?r*', 'b?r', True), ('*a?', 'tuba', False), ('*a?', 'tubas', True),
    ('?*', 'x', True), ('?*', '', False), ('*b?r*', 'xbarx', True), ('*b?r*', 'xbrx', False),
)


def _wildcard_table(model, res, m, f, fv):
    """R3 (wildcard table): the predicate built from a constant wildcard criterion, applied to constant items; all folding is of pure
    stdlib text functions on constants.  A run that is not a single precise boolean is undecided."""
    n = 0
    for crit, item, want in WILDCARD_TABLE:
        def call(interp, st, crit=crit, item=item):
            pred = interp.call(fv, [Const(crit)])
            return interp.call(pred, [Const(item)])
        try:
            outs = Interp(model).run(call)
        except Unmodelled as e:
            res.ob('R3', 'parse_criteria', {'criterion': crit, 'item': item}, True, 'undecided: %s' % e)
            continue
        if len(outs) != 1 or outs[0].imprecise or outs[0].kind != 'return':
            res.ob('R3', 'parse_criteria', {'criterion': crit, 'item': item}, True, 'undecided: %d outcomes' % len(outs))
            continue
        v = outs[0].value
        if isinstance(v, Const):
            got = bool(v.value)
        elif type(v).__name__ == 'MatchV':
            got = True
        else:
            res.ob('R3', 'parse_criteria', {'criterion': crit, 'item': item}, True, 'undecided: %r' % (v,))
            continue
        n += 1
        res.ob('R3', 'parse_criteria', {'criterion': crit, 'item': item, 'selected': got}, got == want)
        if got != want:
            res.violation('R3', '%s:parse_criteria:wildcard-table' % m.name, m.where(f),
                          'the criterion %r %s the cell %r; with ? = one character, * = any run of characters and the whole cell compared it must %s'
                          % (crit, 'selects' if got else 'rejects', item, 'select it' if want else 'reject it'), func='parse_criteria')
    res.soft_floor('wildcard table rows decided', n, 10)


def _r4_r5(model, res):
    n4 = n5 = 0
    for name in ('MAXIFS', 'SUMIFS', 'AVERAGEIFS', 'AVERAGEIF', 'SUMIF', 'COUNTIF'):
        m, f = model.registered(name)
        # R4: if a > acc: acc = a   with acc initialised by a numeric constant
        for node in walk_no_defs(f):
            if isinstance(node, ast.If) and isinstance(node.test, (ast.Compare, ast.BoolOp)):
                cmps = [x for x in ast.walk(node.test) if isinstance(x, ast.Compare) and len(x.ops) == 1 and isinstance(x.ops[0], (ast.Gt, ast.Lt, ast.GtE, ast.LtE))]
                for cmp_ in cmps:
                    for acc_node, val_node in ((cmp_.comparators[0], cmp_.left), (cmp_.left, cmp_.comparators[0])):
                        if not isinstance(acc_node, ast.Name):
                            continue
                        assigns = [st for st in ast.walk(node) if isinstance(st, ast.Assign) and any(isinstance(t, ast.Name) and t.id == acc_node.id for t in st.targets)
                                   and src(st.value) == src(val_node)]
                        if not assigns:
                            continue
                        n4 += 1
                        inits = [v for st, v in sa.assignments_to(f, acc_node.id) if st not in assigns and v is not None]
                        numeric_seed = [v for v in inits if isinstance(v, ast.Constant) and isinstance(v.value, (int, float)) and not isinstance(v.value, bool)]
                        guarded = any(isinstance(x, ast.Compare) and isinstance(x.ops[0], ast.Is) and src(x.left) == acc_node.id for x in ast.walk(node.test))
                        ok = not numeric_seed or guarded
                        res.ob('R4', name, 'running extremum %s seeded with %s' % (acc_node.id, [src(v) for v in inits]), ok)
                        if not ok:
                            res.violation('R4', 'function:%s:extremum-seed' % name, m.where(numeric_seed[0]),
                                          '%s keeps a running extremum in %s seeded with the number %s: when every selected item is on the other '
                                          'side of it (e.g. all negative for a maximum) the seed wins and is returned' % (name, acc_node.id, src(numeric_seed[0])),
                                          func=f.name)
        # R5: enumerate index is used unchanged on the criteria ranges
        for node in walk_no_defs(f):
            if isinstance(node, ast.For) and isinstance(node.iter, ast.Call) and sa.call_name(node.iter) == 'enumerate' and \
                    isinstance(node.target, ast.Tuple) and isinstance(node.target.elts[0], ast.Name):
                idx = node.target.elts[0].id
                for sub in ast.walk(node):
                    if isinstance(sub, ast.Subscript) and idx in [x.id for x in ast.walk(sub.slice) if isinstance(x, ast.Name)]:
                        n5 += 1
                        ok = isinstance(sub.slice, ast.Name) and sub.slice.id == idx
                        res.ob('R5', name, 'subscript %s uses the enumeration index unchanged' % src(sub), ok)
                        if not ok:
                            res.violation('R5', 'function:%s:index-alignment' % name, m.where(sub),
                                          '%s addresses %s while iterating position %s: criteria and values are no longer aligned' % (name, src(sub), idx),
                                          func=f.name)
    res.soft_floor('running-extremum updates examined', n4, 1)
    n4 += _maxifs_selected(model, res)
    res.soft_floor('index-aligned subscripts examined', n5, 3)


def _r6(model, res, E):
    # nothing selected: sums / maxima 0, averages an error
    cases = [('SUMIFS', 0), ('MAXIFS', 0), ('AVERAGEIFS', 'error')]
    for name, want in cases:
        m, f = model.registered(name)
        outs = _runs(model, name, lambda: [ListV([]), ListV([]), Const('>0')])
        for o in outs:
            if o.imprecise:
                continue
            if want == 'error':
                ok = o.kind == 'raise' or o.value.tag == 'err'
            else:
                ok = o.kind == 'return' and isinstance(o.value, Const) and o.value.value == want and not isinstance(o.value.value, bool)
            res.ob('R6', name, 'empty selection', ok, repr(o)[:100])
            if not ok:
                res.violation('R6', 'function:%s:empty-selection' % name, m.where(f),
                              '%s over an empty selection must give %s; got %r' % (name, 'an error' if want == 'error' else want, o), func=f.name)
    # all selected items negative: the maximum is the largest of them, never the seed (semantic form of R4)
    m, f = model.registered('MAXIFS')
    pcs = [(mm, mm.functions['parse_criteria']) for mm in model.modules.values() if 'parse_criteria' in mm.functions]
    opq = {(pcs[0][0].name, 'parse_criteria'): (lambda interp, args, kwargs: __import__('hxsa.absint', fromlist=['Builtin']).Builtin('hx:always'))}
    it = Interp(model, opaque=opq)
    it.extern['hx:always'] = lambda interp, args, kwargs: Const(True)
    outs = it.run(lambda interp, st: interp.call(H.registry_func(model, 'MAXIFS'), [ListV([Sym('int', 'a0')]), ListV([Sym('int', 'c0')]), Const('x')]))
    for o in outs:
        if o.imprecise:
            continue
        ok = o.kind == 'return' and isinstance(o.value, Sym) and o.value.name == 'a0'
        res.ob('R6', 'MAXIFS', 'one selected item: the maximum is that item whatever its sign', ok, repr(o)[:120])
        if not ok:
            res.violation('R6', 'function:MAXIFS:single-item', m.where(f),
                          'MAXIFS over exactly one selected item must be that item; a trace gives %r (a seed value competes with the items)' % (o,),
                          func=f.name)


def _mode_worlds(model, res, m, f, outs):
    """MODE written out by hand: on three symbolic items and each of the 5 ways they can coincide, every trace consistent with the
    pattern returns an item of the most frequent class (no constraint when all three differ).  True/False, None = not decidable."""
    parts = [((0, 1, 2),), ((0, 1), (2,)), ((0, 2), (1,)), ((1, 2), (0,)), ((0,), (1,), (2,))]
    ok_all = True
    for part in parts:
        block = {}
        for bi, b in enumerate(part):
            for i in b:
                block[i] = bi
        modal = max(part, key=len)
        free = len(modal) == 1
        for o in outs:
            if o.imprecise:
                return None
            consistent = True
            for (t, alt, s_) in o.notes:
                if isinstance(s_, Atom) and s_.op in ('eq', 'ne') and len(s_.args) == 2 and all(isinstance(a, Sym) and a.name in ('x0', 'x1', 'x2') for a in s_.args):
                    i, j = int(s_.args[0].name[1]), int(s_.args[1].name[1])
                    same = block[i] == block[j]
                    if (same if s_.op == 'eq' else not same) != bool(alt):
                        consistent = False
                        break
                elif isinstance(s_, Atom) and s_.op in ('lt', 'gt', 'le', 'ge'):
                    return None         # an implementation that orders the items: not evaluated on equality patterns alone
            if not consistent or free:
                continue
            v = o.value
            good = o.kind == 'return' and isinstance(v, Sym) and v.name in ['x%d' % i for i in modal]
            res.ob('R7', 'MODE', {'equal items': [list(b) for b in part if len(b) > 1]}, good, '%s %r' % (o.kind, v))
            if not good:
                ok_all = False
                res.violation('R7', 'function:MODE:most-frequent', m.where(f),
                              'MODE of three items of which the items %s are equal (and the other differs) must be that repeated value; a trace '
                              'consistent with this returns %r - e.g. occurrences that are not adjacent are not counted together'
                              % (['x%d' % i for i in modal], v), case={'equal': list(modal)}, func=f.name)
    return ok_all


def _r7(model, res):
    for name, op in sorted(DELEGATION.items()):
        m, f = model.registered(name)
        outs = _runs(model, name, lambda: [Sym('int', 'x0'), Sym('int', 'x1'), Sym('int', 'x2')])
        vals = [o for o in outs if not o.imprecise]
        ok = len(vals) == 1 and vals[0].kind == 'return' and isinstance(vals[0].value, Atom) and vals[0].value.op == op and \
            [getattr(a, 'name', None) for a in vals[0].value.args] == ['x0', 'x1', 'x2']
        if not ok and name == 'MODE' and vals and len(vals) == len(outs):
            verdict = _mode_worlds(model, res, m, f, outs)
            if verdict is not None:
                continue
        res.ob('R7', name, '%s over the items' % op, ok, H.describe(outs)[:2])
        if not ok:
            res.violation('R7', 'function:%s:delegation' % name, m.where(f),
                          '%s must be %s over its items; got %s' % (name, op, '; '.join(H.describe(outs)[:2])), func=f.name)
    # SUM / PRODUCT as folds
    for name, op in (('SUM', 'add'), ('PRODUCT', 'mul')):
        m, f = model.registered(name)
        outs = _runs(model, name, lambda: [Sym('int', 'x0'), Sym('int', 'x1'), Sym('int', 'x2')])
        vals = [o for o in outs if not o.imprecise]
        ok = len(vals) == 1 and vals[0].kind == 'return'
        if ok:
            try:
                r = PF.ratform(vals[0].value)
                x0, x1, x2 = PF.var('x0'), PF.var('x1'), PF.var('x2')
                ok = r.equals(x0 + x1 + x2) if name == 'SUM' else r.equals(x0 * x1 * x2)
            except PF.NotPolynomial:
                ok = False
        res.ob('R7', name, 'fold of %s over the items' % op, ok, H.describe(outs)[:2])
        if not ok:
            res.violation('R7', 'function:%s:fold' % name, m.where(f), '%s must be the %s of its items; got %s'
                          % (name, 'sum' if name == 'SUM' else 'product', '; '.join(H.describe(outs)[:2])), func=f.name)
    # SLOPE on three symbolic points: algebraic identity with the least-squares formula
    m, f = model.registered('SLOPE')
    outs = _runs(model, 'SLOPE', lambda: [Sym('float', 'y0'), Sym('float', 'y1'), Sym('float', 'y2'), Sym('float', 'x0'), Sym('float', 'x1'), Sym('float', 'x2')])
    n = 0
    for o in outs:
        if o.imprecise or o.kind != 'return' or o.value.tag == 'err':
            continue
        n += 1
        try:
            r = PF.ratform(o.value)
        except PF.NotPolynomial as e:
            res.ob('R7', 'SLOPE', 'least-squares slope', False, str(e))
            continue
        xs = [PF.var('x%d' % i) for i in range(3)]
        ys = [PF.var('y%d' % i) for i in range(3)]
        three = PF.const(3)
        sx = xs[0] + xs[1] + xs[2]
        sy = ys[0] + ys[1] + ys[2]
        sxy = xs[0] * ys[0] + xs[1] * ys[1] + xs[2] * ys[2]
        sxx = xs[0] * xs[0] + xs[1] * xs[1] + xs[2] * xs[2]
        want = (three * sxy - sx * sy) / (three * sxx - sx * sx)
        ok = r.equals(want)
        res.ob('R7', 'SLOPE', 'least-squares slope on three symbolic points (algebraic identity)', ok)
        if not ok:
            res.violation('R7', 'function:SLOPE:formula', m.where(f),
                          'SLOPE on three points is not (n*Sxy - Sx*Sy)/(n*Sxx - Sx^2) as an algebraic identity', func=f.name)
    res.soft_floor('SLOPE value traces', n, 1)
    # ... and the slope exists whenever the denominator is not exactly zero: the error exit is decided by `== 0`, not by a tolerance
    for o in outs:
        if o.imprecise or o.kind != 'return' or o.value.tag != 'err':
            continue
        for (t, alt, s_) in o.notes:
            if isinstance(s_, Atom) and s_.op == 'isclose':
                res.ob('R7', 'SLOPE', 'the error exit is taken only for a zero denominator', False, t)
                res.violation('R7', 'function:SLOPE:tolerance', m.where(f),
                              'SLOPE gives an error on the decision "%s" - a comparison with a tolerance: x values with a small but non-zero spread '
                              '(where the least-squares slope is perfectly defined) yield an error instead of the slope' % t[:120], func=f.name)
            if isinstance(s_, Atom) and s_.op in ('lt', 'le', 'gt', 'ge') and any(isinstance(a, Const) and isinstance(a.value, (int, float))
                                                                                   and not isinstance(a.value, bool) and a.value != 0 for a in s_.args):
                res.ob('R7', 'SLOPE', 'the error exit is taken only for a zero denominator', False, t)
                res.violation('R7', 'function:SLOPE:tolerance', m.where(f),
                              'SLOPE gives an error on the decision "%s" - a comparison with a tolerance: x values with a small but non-zero spread '
                              '(where the least-squares slope is perfectly defined) yield an error instead of the slope' % t, func=f.name)
    # LARGE: n-th largest = sorted ascending, index -n
    m, f = model.registered('LARGE')
    outs = _runs(model, 'LARGE', lambda: [ListV([Sym('int', 'x0'), Sym('int', 'x1'), Sym('int', 'x2')]), Aff(1, 0, 'int', 'n')])
    for o in outs:
        for ev in o.events:
            if ev[0] == 'subscript':
                _, base, idx, notes = ev
                box, multi = H.box_of(notes)
                mx = H.int_max(idx, box)
                ok = dict(idx.coeffs) == {'n': -1} and idx.const == 0 and mx is not None and mx <= -1
                res.ob('R7', 'LARGE', 'sorted(...)[-n] with n >= 1', ok, '%r max %s' % (idx, mx))
                if not ok:
                    res.violation('R7', 'function:LARGE:index', m.where(f),
                                  'LARGE must address the sorted items with -n for n >= 1; the subscript is %r and can reach %s' % (idx, mx), func=f.name)


def _maxifs_selected(model, res):
    """MAXIFS on two symbolic items with a criterion each item may or may not meet: on every trace the result is the maximum over
    exactly the selected items (no constant takes part), and 0 only when nothing is selected."""
    m, f = model.registered('MAXIFS')
    try:
        outs = _runs(model, 'MAXIFS', lambda: [ListV([Sym('int', 'x0'), Sym('int', 'x1')]), ListV([Sym('int', 'c0'), Sym('int', 'c1')]), Const('1')])
    except Unmodelled as e:
        res.ob('R4', 'MAXIFS', 'maximum over the selected items', True, 'undecided: %s' % e)
        return 0
    n = 0
    for o in outs:
        if o.imprecise:
            continue
        sel = {}
        for (t, alt, s) in o.notes:
            if isinstance(s, Atom) and s.op == 'eq' and isinstance(s.args[0], Sym) and s.args[0].name in ('c0', 'c1'):
                sel[int(s.args[0].name[1])] = bool(alt)
        if sorted(sel) != [0, 1]:
            continue
        n += 1
        chosen = ['x%d' % i for i in (0, 1) if sel[i]]
        v = o.value
        consts = []

        def leaves(x, acc):
            if isinstance(x, Sym):
                acc.append(x.name)
            elif isinstance(x, Const):
                consts.append(x.value)
            elif isinstance(x, Atom):
                for a in x.args:
                    leaves(a, acc)
            return acc
        if not chosen:
            ok = o.kind == 'return' and isinstance(v, Const) and v.value == 0
            why = 'nothing selected: expected 0'
        else:
            ls = leaves(v, []) if o.kind == 'return' else None
            ok = o.kind == 'return' and ls is not None and set(ls) <= set(chosen) and bool(ls) and not consts and \
                (isinstance(v, Sym) or (isinstance(v, Atom) and v.op == 'max' and sorted(set(ls)) == sorted(chosen)))
            why = 'selected %s: expected their maximum and nothing else' % chosen
        res.ob('R4', 'MAXIFS', {'selected': chosen}, ok, '%s; got %s %r' % (why, o.kind, v))
        if not ok:
            res.violation('R4', 'function:MAXIFS:extremum-seed', m.where(f),
                          'MAXIFS with the items %s selected returns %r: the maximum must be taken over exactly the selected items - a constant '
                          'that takes part (a numeric seed) wins whenever every selected item is below it (all negative items give 0)'
                          % (chosen, v), case={'selected': chosen}, func=f.name)
    return n


def _regex_wildcards(model, m, f):
    """Wildcard criteria implemented with a regular expression instead of fnmatch: True = matched in full,
    False = prefix match, None = undecided."""
    funcs = [f] + [g for q, g in m.functions.items() if '.' not in q and any(
        isinstance(n, ast.Call) and isinstance(n.func, ast.Name) and n.func.id == q for n in ast.walk(f))]
    # helpers in other modules, through the resolved call graph
    from .. import ctx as ctxmod
    try:
        cg = ctxmod.get(model).cg
        key = (m.name, m.qualname_of(f))
        for k2 in sorted(cg.reachable([key]) - set(cg.registry_keys) - set([key])):
            g2 = cg.funcs[k2][1]
            if g2 not in funcs and isinstance(g2, ast.FunctionDef):
                funcs.append(g2)
    except Exception:
        pass
    uses_fullmatch = uses_match = False
    anchored = False
    for g in funcs:
        for n in ast.walk(g):
            if isinstance(n, ast.Call) and isinstance(n.func, ast.Attribute):
                if n.func.attr == 'fullmatch':
                    uses_fullmatch = True
                if n.func.attr in ('match', 'search') and not (isinstance(n.func.value, ast.Name) and n.func.value.id.isupper()):
                    uses_match = True
            if isinstance(n, ast.Attribute) and n.attr in ('match', 'search') and isinstance(n.value, ast.Call) and \
                    (sa.call_name(n.value) or '').endswith('compile'):
                uses_match = True       # re.compile(...).match handed on as a value
            if isinstance(n, ast.Call) and isinstance(n.func, ast.Attribute) and n.func.attr == 'translate' and 'fnmatch' in src(n.func.value):
                anchored = True
            if isinstance(n, ast.Constant) and isinstance(n.value, str) and (n.value.endswith('$') or n.value.endswith('\\Z')) and len(n.value) <= 4:
                anchored = True
    if uses_fullmatch or anchored:
        return True, 'regular expression matched with fullmatch / an explicit end anchor'
    if uses_match:
        return False, 'applied with match()/search() without an end anchor'
    return None, 'no wildcard predicate recognised'
