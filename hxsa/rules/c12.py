# -*- coding: utf-8 -*-
"""C12 - logical functions are truth-functional; type predicates classify values."""
import itertools

from ..model import AnalysisError
from ..absint import (Interp, Const, Sym, Err, Atom, Top, Func, ListV, Obj, Raised, Unmodelled, Exc, k)
from .. import abshelp as H, ctx as ctxmod, purity
from .c01 import error_singletons

KINDS = {'number': ['int', 'float'], 'text': ['str'], 'logical': ['bool'], 'blank': ['none'], 'error': ['err']}
PRED_OF = {'ISNUMBER': 'number', 'ISTEXT': 'text', 'ISLOGICAL': 'logical', 'ISBLANK': 'blank', 'ISERROR': 'error'}
ALL_TAGS = ['int', 'float', 'bool', 'str', 'none', 'err', 'list', 'datetime']


def mkv(tag, name):
    if tag == 'list':
        return ListV([Sym('int', name + '0')])
    return H.mk(tag, name)


def run(model, res, tier):
    c = ctxmod.get(model)
    res.explanation = (
        'Abstract interpretation of the registered functions by type tag. R1: ISNUMBER/ISTEXT/ISLOGICAL/ISBLANK/ISERROR on every '
        'tag: the 5x5 block on the five kinds is the identity matrix, results are real logicals, no predicate is true on two kinds. '
        'R2: ISNONTEXT = not ISTEXT on every tag. R3: ISEVEN and ISODD factor through one parity term of int(x) and are '
        'complementary over its complete domain {0,1}; both reject the same tags. R4: an error in a tested condition (NOT, IF, every '
        'IFS position before the first true one, every position of AND/OR/XOR flat or nested, with the other items of unknown truth) '
        'yields that error and nothing else. R5: truth-functionality - AND/OR/XOR/NOT over symbolic logicals are checked on every '
        'trace against conjunction/disjunction/parity/negation of the truth values assumed on that trace, constants 0/blank/FALSE are '
        'false and non-zero numbers true; IF/IFS return the paired value by identity. R6: IFS and SWITCH fall through to #N/A, '
        'SWITCH returns the result of the first equal case, its default is chosen by identity so that falsy defaults survive.')
    res.rule('R1', 'predicate truth table over all tags')
    res.rule('R2', 'ISNONTEXT is the negation of ISTEXT')
    res.rule('R3', 'ISEVEN / ISODD share one parity term and are complementary')
    res.rule('R4', 'an error in a tested condition yields that error')
    res.rule('R5', 'AND/OR/XOR/NOT/IF/IFS are truth-functional')
    res.rule('R6', 'IFS/SWITCH pairing, first match, fall-through #N/A, falsy default')
    res.rule('R7', 'no cache or shared state in these functions')
    res.trusted += ['hxsa abstract interpreter and builtin models', 'CPython ast']
    opaque = H.date_opaque(model)
    em, singles = error_singletons(model)
    NA = next(n for n, msg in singles.items() if msg == '#N/A')
    ctx = {'model': model, 'res': res, 'opaque': opaque, 'NA': NA}
    H.safely(res, 'R1', 'r1', _r1, ctx)
    H.safely(res, 'R2', 'r2b', _r2b, ctx)
    H.safely(res, 'R3', 'r3', _r3, ctx)
    H.safely(res, 'R4', 'r4', _r4, ctx)
    H.safely(res, 'R5', 'r5', _r5, ctx)
    H.safely(res, 'R6', 'r6', _r6, ctx)
    names = ['AND', 'OR', 'XOR', 'NOT', 'IF', 'IFS', 'SWITCH', 'ISNUMBER', 'ISTEXT', 'ISLOGICAL', 'ISBLANK', 'ISERROR', 'ISERR',
             'ISNA', 'ISNONTEXT', 'ISEVEN', 'ISODD']
    keys = []
    for n in names:
        m, f = model.registered(n)
        keys.append((m.name, m.qualname_of(f)))
    region = c.cg.reachable(keys)
    res.rule('RX', 'where a function answers "an error rather than a value" by raising, the catch-all of parse() turns every exception class into #ERROR! (shared with C01.R1)')
    from . import c01 as _c01
    H.borrow(res, 'RX', 'catch-all of parse()', lambda tmp: _c01.catch_all_rule(model, tmp, c))
    purity.check_region(res, c, 'R7', None, region, 'a logical function or predicate')
    purity.check_memo(res, c, 'R7', region, 'a logical function or predicate')


def outcomes(ctx, name, make_args):
    fv = H.registry_func(ctx['model'], name)
    return H.run_function(ctx['model'], fv, make_args, opaque=ctx['opaque'])


def where(ctx, name):
    m, f = ctx['model'].registered(name)
    return m.where(f), f.name


def guarded(ctx, rule, name, case, make_args, judge, describe_want, key=None):
    """Run, skip if imprecise/unmodelled, judge each outcome."""
    res = ctx['res']
    try:
        outs = outcomes(ctx, name, make_args)
    except Unmodelled as e:
        res.ob(rule, name, case, True, 'undecided: %s' % e)
        res.notes.append('C12.%s %s %s: %s' % (rule, name, case, e))
        return None
    if any(o.imprecise for o in outs):
        res.ob(rule, name, case, True, 'undecided (unmodelled construct): %s' % outs[0].imprecise)
        return None
    bad = [o for o in outs if not judge(o)]
    res.ob(rule, name, case, not bad, H.describe(outs)[:4])
    if bad:
        w, fn = where(ctx, name)
        res.violation(rule, 'function:%s:%s' % (name, key or _ck(case)), w,
                      '%s%s: expected %s, got %s' % (name, _show(case), describe_want, '; '.join(H.describe(bad)[:2])), case=case, func=fn)
    return outs


def _ck(case):
    if isinstance(case, dict):
        return ','.join('%s=%s' % (a, b) for a, b in sorted(case.items()))
    return str(case)


def _show(case):
    return '(%s)' % _ck(case)


def is_bool(o, val):
    return o.kind == 'return' and isinstance(o.value, Const) and o.value.value is val


def _r1(ctx):
    res = ctx['res']
    n = 0
    truth = {}
    for pred, kind in sorted(PRED_OF.items()):
        for tag in ALL_TAGS:
            in_kind = tag in KINDS[kind]
            constrained = any(tag in ts for ts in KINDS.values())
            n += 1
            if constrained:
                guarded(ctx, 'R1', pred, {'value': tag}, lambda tag=tag: [mkv(tag, 'x')],
                        lambda o, v=in_kind: is_bool(o, v), 'the logical %s' % str(in_kind).upper())
            try:
                outs = outcomes(ctx, pred, lambda tag=tag: [mkv(tag, 'x')])
                truth[(pred, tag)] = [o for o in outs if not (o.kind == 'return' and isinstance(o.value, Const) and o.value.value is False)]
            except Unmodelled:
                truth[(pred, tag)] = []
    for tag in ALL_TAGS:
        trues = [p for p in PRED_OF if truth.get((p, tag))]
        ok = len(trues) <= 1
        res.ob('R1', 'predicates', {'value': tag, 'true-or-not-false': trues}, ok)
        if not ok:
            w, fn = where(ctx, trues[0])
            res.violation('R1', 'predicates:not-exclusive:%s' % tag, w,
                          'predicates %s can both be true on a value of kind %s: they are not mutually exclusive' % (trues, tag),
                          case={'value': tag})
    res.soft_floor('predicate x tag cells', n, 40)
    # R2
    for tag in ALL_TAGS:
        t = outcomes(ctx, 'ISTEXT', lambda tag=tag: [mkv(tag, 'x')])
        want = not (len(t) == 1 and is_bool(t[0], True))
        if len(t) == 1 and isinstance(t[0].value, Const):
            guarded(ctx, 'R2', 'ISNONTEXT', {'value': tag}, lambda tag=tag: [mkv(tag, 'x')],
                    lambda o, v=want: is_bool(o, v), 'the negation of ISTEXT (%s)' % want)


def _r2b(ctx):
    """ISERROR = ISERR or ISNA on every tag and every error singleton."""
    res = ctx['res']
    from .c01 import error_singletons
    em, singles = error_singletons(ctx['model'])
    subjects = [('error.%s' % n, (lambda n=n, msg=msg: Err(n, msg))) for n, msg in sorted(singles.items())] + \
               [(t, (lambda t=t: mkv(t, 'x'))) for t in ALL_TAGS if t != 'err']
    for label, mkx in subjects:
        vals = {}
        undecided = False
        for fn in ('ISERROR', 'ISERR', 'ISNA'):
            try:
                outs = outcomes(ctx, fn, lambda mkx=mkx: [mkx()])
            except Unmodelled as e:
                undecided = True
                break
            if any(o.imprecise for o in outs):
                undecided = True
                break
            vals[fn] = outs
        if undecided:
            res.ob('R2', 'ISERROR/ISERR/ISNA', {'value': label}, True, 'undecided')
            continue

        def const(outs):
            if len(outs) == 1 and outs[0].kind == 'return' and isinstance(outs[0].value, Const) and isinstance(outs[0].value.value, bool):
                return outs[0].value.value
            return None
        a, b, c_ = const(vals['ISERROR']), const(vals['ISERR']), const(vals['ISNA'])
        ok = None not in (a, b, c_) and a == (b or c_)
        res.ob('R2', 'ISERROR/ISERR/ISNA', {'value': label}, ok,
               'ISERROR=%s ISERR=%s ISNA=%s' % (H.describe(vals['ISERROR']), H.describe(vals['ISERR']), H.describe(vals['ISNA'])))
        if not ok:
            w, fn = where(ctx, 'ISNA')
            res.violation('R2', 'function:ISERROR-ISERR-ISNA:%s' % label, w,
                          'ISERROR = ISERR or ISNA fails (or a predicate is not a definite logical) on %s: ISERROR=%s ISERR=%s ISNA=%s'
                          % (label, H.describe(vals['ISERROR']), H.describe(vals['ISERR']), H.describe(vals['ISNA'])), case={'value': label})


def _parity_term(v):
    """Normalise  and(int(x),1) / mod(int(x),2)  ->  ('parity', key of x)."""
    if isinstance(v, Atom) and v.op in ('and', 'mod') and len(v.args) == 2:
        a, b = v.args
        if isinstance(b, Const) and ((v.op == 'and' and b.value == 1) or (v.op == 'mod' and b.value == 2)):
            if isinstance(a, Atom) and a.op == 'int' and len(a.args) == 1:
                return ('parity-of-int', k(a.args[0]))
            return ('parity-of', k(a))
    return None


def _parity_truth(v, p):
    """Truthiness of result ``v`` when its parity term equals p in {0,1}; (term, truth) or None."""
    t = _parity_term(v)
    if t is not None:
        return t, bool(p)
    if isinstance(v, Atom) and v.op in ('eq', 'ne') and len(v.args) == 2:
        for a, b in (v.args, tuple(reversed(v.args))):
            t = _parity_term(a)
            if t is not None and isinstance(b, Const) and b.value in (0, 1):
                r = (p == b.value)
                return t, (r if v.op == 'eq' else not r)
    return None


def _parity_eval(outs, p):
    """(term, truth of the result) when the parity term equals p, over all traces: a trace that branched on the truth of the
    parity term is consistent with p when it assumed bool(p).  None = the result is not a function of one parity term."""
    picked = []
    for o in outs:
        if o.kind != 'return' or o.imprecise:
            return None
        term = None
        consistent = True
        for (text, alt, subj) in o.notes:
            t = _parity_term(subj) if isinstance(subj, Atom) else None
            if t is None:
                return None         # the trace depends on something other than the parity
            term = t
            if bool(alt) != bool(p):
                consistent = False
        if consistent:
            picked.append((o, term))
    if len(picked) != 1:
        return None
    o, term = picked[0]
    v = o.value
    if isinstance(v, Const) and isinstance(v.value, (bool, int)) and term is not None:
        return term, bool(v.value)
    r = _parity_truth(v, p)
    if r is not None and term is not None and r[0] != term:
        return None
    return r


def _r3(ctx):
    res = ctx['res']
    for tag in ('int', 'float', 'bool'):
        ev = outcomes(ctx, 'ISEVEN', lambda tag=tag: [mkv(tag, 'x')])
        od = outcomes(ctx, 'ISODD', lambda tag=tag: [mkv(tag, 'x')])
        if any(o.imprecise for o in ev + od):
            res.ob('R3', 'ISEVEN/ISODD', {'value': tag}, True, 'undecided (unmodelled construct)')
            continue
        ok = bool(ev) and bool(od) and all(o.kind == 'return' for o in ev + od)
        detail = 'ISEVEN=%s ISODD=%s' % (H.describe(ev), H.describe(od))
        if ok:
            for p in (0, 1):
                a = _parity_eval(ev, p)
                b = _parity_eval(od, p)
                if a is None or b is None:
                    ok = False
                    detail += ' (result is not a function of one parity term)'
                    break
                if a[0] != b[0]:
                    ok = False
                    detail += ' (different parity terms %s vs %s: e.g. floor-based vs truncation-based parity disagree on negative fractions)' % (a[0], b[0])
                    break
                if a[0][0] != 'parity-of-int':
                    ok = False
                    detail += ' (parity is not taken of the integer part int(x))'
                    break
                if a[1] == b[1] or a[1] != (p == 0):
                    ok = False
                    detail += ' (not complementary for parity %d)' % p
                    break
        res.ob('R3', 'ISEVEN/ISODD', {'value': tag}, ok, detail)
        if not ok:
            w, fn = where(ctx, 'ISEVEN')
            res.violation('R3', 'function:ISEVEN-ISODD:%s' % tag, w,
                          'ISEVEN and ISODD must both be functions of the parity of int(x) and complementary: %s' % detail, case={'value': tag})
    for tag in ('str', 'none', 'err', 'list', 'datetime'):
        ev = outcomes(ctx, 'ISEVEN', lambda tag=tag: [mkv(tag, 'x')])
        od = outcomes(ctx, 'ISODD', lambda tag=tag: [mkv(tag, 'x')])
        same = [repr(o.value) for o in ev] == [repr(o.value) for o in od] and all(o.kind == 'return' and o.value.tag == 'err' for o in ev)
        res.ob('R3', 'ISEVEN/ISODD', {'value': tag}, same, 'ISEVEN=%s ISODD=%s' % (H.describe(ev), H.describe(od)))
        if not same:
            w, fn = where(ctx, 'ISEVEN')
            res.violation('R3', 'function:ISEVEN-ISODD:reject:%s' % tag, w,
                          'ISEVEN and ISODD disagree on (or do not reject) a %s argument: %s vs %s' % (tag, H.describe(ev), H.describe(od)),
                          case={'value': tag})


def _is_err(o, name='E'):
    v = o.value
    return (o.kind in ('return', 'raise')) and isinstance(v, Sym) and v.tag == 'err' and v.name == name


def _r4(ctx):
    res = ctx['res']
    n = 0
    guarded(ctx, 'R4', 'NOT', {'condition': 'error'}, lambda: [Sym('err', 'E')], _is_err, 'that error', key='error-in-condition')
    guarded(ctx, 'R4', 'IF', {'condition': 'error'}, lambda: [Sym('err', 'E'), Sym('int', 'A'), Sym('int', 'B')], _is_err, 'that error', key='error-in-condition')
    # IFS: error in position i, earlier conditions of unknown truth; outcomes where an earlier condition was true are fine
    for pos in (0, 1, 2):
        def mk(pos=pos):
            args = []
            for i in range(3):
                args.append(Sym('err', 'E') if i == pos else Sym('bool', 'c%d' % i))
                args.append(Sym('int', 'v%d' % i))
            return args

        def judge(o, pos=pos):
            earlier_true = any(isinstance(s, Sym) and s.name in ['c%d' % i for i in range(pos)] and alt is True for (t, alt, s) in o.notes)
            if earlier_true:
                return True
            return _is_err(o)
        guarded(ctx, 'R4', 'IFS', {'error_at_condition': pos}, mk, judge, 'that error unless an earlier condition is true', key='error-in-condition')
        n += 1
    shapes = {
        'flat': lambda items: items,
        'nested': lambda items: [items[0], ListV(items[1:])],
        'deep': lambda items: [ListV([items[0], ListV([items[1]])]), items[2]],
        # a range handed over by the host as rows of tuples (cursor rows) is an array like any other
        'rows of tuples': lambda items: [ListV([ListV(items[:2], 'tuple'), ListV(items[2:], 'tuple')])],
    }
    for fn in ('AND', 'OR', 'XOR'):
        for pos in (0, 1, 2):
            for sname, shape in sorted(shapes.items()):
                def mk(pos=pos, shape=shape):
                    items = [Sym('err', 'E') if i == pos else Sym('bool', 'x%d' % i) for i in range(3)]
                    return shape(items)
                guarded(ctx, 'R4', fn, {'error_at': pos, 'shape': sname, 'others': 'unknown truth'}, mk, _is_err, 'that error on every trace', key='error-in-condition')
                n += 1
    res.soft_floor('error-in-condition cases', n, 25)


def _assignment(o):
    env = {}
    for (t, alt, s) in o.notes:
        if isinstance(s, Sym) and isinstance(alt, bool):
            env[s.name] = alt
    return env


def _r5(ctx):
    res = ctx['res']
    n = 0
    spec = {'AND': all, 'OR': any, 'XOR': lambda vs: (sum(1 for v in vs if v) % 2) == 1}
    shapes = {
        'flat': lambda items: items,
        'nested': lambda items: [ListV(items[:1]), ListV([ListV(items[1:])])] if len(items) > 1 else [ListV(items)],
        'rows of tuples': lambda items: [ListV([ListV(items[:1], 'tuple'), ListV(items[1:], 'tuple')])] if len(items) > 1 else [ListV([ListV(items, 'tuple')])],
    }
    for fn, f in sorted(spec.items()):
        for arity in (1, 2, 3):
            for sname, shape in sorted(shapes.items()):
                names = ['x%d' % i for i in range(arity)]

                def mk(names=names, shape=shape):
                    return shape([Sym('bool', nm) for nm in names])

                def judge(o, names=names, f=f):
                    if not (o.kind == 'return' and isinstance(o.value, Const) and isinstance(o.value.value, bool)):
                        return False
                    env = _assignment(o)
                    free = [nm for nm in names if nm not in env]
                    for combo in itertools.product([False, True], repeat=len(free)):
                        full = dict(env)
                        full.update(zip(free, combo))
                        if f([full[nm] for nm in names]) != o.value.value:
                            return False
                    return True
                guarded(ctx, 'R5', fn, {'arity': arity, 'shape': sname, 'items': 'symbolic logicals'}, mk, judge,
                        'the %s of the items\' truth values on every trace' % {'AND': 'conjunction', 'OR': 'disjunction', 'XOR': 'parity'}[fn])
                n += 1
    consts = [
        ('AND', [True, 3], True), ('AND', [True, 0], False), ('AND', [True, None], False), ('AND', [2.5, -1], True),
        ('OR', [False, 0, None], False), ('OR', [False, 2], True), ('OR', [None], False),
        ('XOR', [True, True], False), ('XOR', [True, 0, 1], False), ('XOR', [1], True), ('XOR', [None, 0, False], False),
        ('NOT', [0], True), ('NOT', [None], True), ('NOT', [5], False), ('NOT', [True], False), ('NOT', [False], True),
    ]
    for fn, vals, want in consts:
        guarded(ctx, 'R5', fn, {'constants': repr(vals)}, lambda vals=vals: [Const(v) for v in vals],
                lambda o, want=want: is_bool(o, want), 'the logical %s' % str(want).upper())
        n += 1
    # the same items inside an array or range: a blank cell of the range is an item like any other (false)
    for fn, vals, want in consts:
        if fn == 'NOT' or len(vals) < 2:
            continue
        guarded(ctx, 'R5', fn, {'constants in one array': repr(vals)}, lambda vals=vals: [ListV([Const(v) for v in vals])],
                lambda o, want=want: is_bool(o, want), 'the logical %s (the items of an array count exactly as separate arguments do)' % str(want).upper())
        guarded(ctx, 'R5', fn, {'first item, then the rest as an array': repr(vals)},
                lambda vals=vals: [Const(vals[0]), ListV([Const(v) for v in vals[1:]])],
                lambda o, want=want: is_bool(o, want), 'the logical %s (the items of an array count exactly as separate arguments do)' % str(want).upper())
        n += 2
    # NOT on a symbolic logical
    def jn(o):
        env = _assignment(o)
        return o.kind == 'return' and isinstance(o.value, Const) and 'x' in env and o.value.value is (not env['x'])
    guarded(ctx, 'R5', 'NOT', {'item': 'symbolic logical'}, lambda: [Sym('bool', 'x')], jn, 'the negation')
    # IF returns its 2nd / 3rd argument by identity
    for cond, want in ((Const(True), 'A'), (Const(False), 'B'), (Const(2), 'A'), (Const(0), 'B'), (Const(None), 'B')):
        guarded(ctx, 'R5', 'IF', {'condition': repr(cond)}, lambda cond=cond: [cond, Sym('str', 'A'), Sym('str', 'B')],
                lambda o, want=want: o.kind == 'return' and isinstance(o.value, Sym) and o.value.name == want,
                'its %s argument' % ('second' if want == 'A' else 'third'))
        n += 1

    def jif(o):
        env = _assignment(o)
        return o.kind == 'return' and isinstance(o.value, Sym) and 'c' in env and o.value.name == ('A' if env['c'] else 'B')
    guarded(ctx, 'R5', 'IF', {'condition': 'symbolic logical'}, lambda: [Sym('bool', 'c'), Sym('str', 'A'), Sym('str', 'B')], jif,
            'second argument when true, third when false')
    res.soft_floor('truth-functional cases', n, 35)


def _r6(ctx):
    res = ctx['res']
    NA = ctx['NA']
    # IFS: value paired with the first true condition, else #N/A
    def mk():
        return [Sym('bool', 'c0'), Sym('int', 'v0'), Sym('bool', 'c1'), Sym('int', 'v1'), Sym('bool', 'c2'), Sym('int', 'v2')]

    def judge(o):
        env = _assignment(o)
        for i in range(3):
            nm = 'c%d' % i
            if nm not in env:
                return False
            if env[nm]:
                return o.kind == 'return' and isinstance(o.value, Sym) and o.value.name == 'v%d' % i
        return o.kind == 'return' and isinstance(o.value, Err) and o.value.name == NA
    guarded(ctx, 'R6', 'IFS', {'pairs': 3, 'conditions': 'symbolic logicals'}, mk, judge,
            'the value paired with the first true condition, else #N/A', key='pairing')
    # conditions after the first true one play no part - not even an error among them (the guard idiom IFS(A1=0, "zero", 10/A1>2, ...))
    for pos in (1, 2):
        def mk2(pos=pos):
            args = []
            for i in range(3):
                args.append(Sym('err', 'E') if i == pos else Const(i == pos - 1))
                args.append(Sym('int', 'v%d' % i))
            return args

        def judge2(o, pos=pos):
            return o.kind == 'return' and isinstance(o.value, Sym) and o.value.name == 'v%d' % (pos - 1)
        guarded(ctx, 'R6', 'IFS', {'first_true_condition': pos - 1, 'error_at_condition': pos}, mk2, judge2,
                'the value paired with the first true condition: later conditions play no part, even an error', key='later-condition')

    # SWITCH
    def world(o):
        """{case symbol name: target equals it?} from the decisions of the trace."""
        w = {}
        for (t, alt, s) in o.notes:
            if isinstance(s, Atom) and s.op == 'eq':
                names = [a.name for a in s.args if isinstance(a, Sym)]
                other = [x for x in names if x != 't']
                if 't' in names and other:
                    w[other[0]] = bool(alt)
            if isinstance(s, tuple) and s and s[0] == 'dict-hit':
                for cand in s[2]:
                    if isinstance(cand, Sym):
                        w[cand.name] = (repr(cand) == alt)
        return w

    vectors = [
        ('two cases', ['c1', 'r1', 'c2', 'r2'], None),
        ('two cases + default', ['c1', 'r1', 'c2', 'r2'], 'd'),
        ('repeated case', ['c', 'r1', 'c', 'r2'], None),
        ('repeated case + default', ['c', 'r1', 'c', 'r2'], 'd'),
        ('one case', ['c1', 'r1'], None),
    ]
    for label, pairs, default in vectors:
        def mk(pairs=pairs, default=default):
            args = [Sym('int', 't')]
            for i, nm in enumerate(pairs):
                args.append(Sym('int', nm))
            if default:
                args.append(Sym('int', default))
            return args

        def judge(o, pairs=pairs, default=default):
            w = world(o)
            cases = pairs[0::2]
            results = pairs[1::2]
            for cs, rs in zip(cases, results):
                if cs not in w:
                    # undetermined on this trace: the outcome must not depend on it, accept only if an earlier case matched
                    return False
                if w[cs]:
                    return o.kind == 'return' and isinstance(o.value, Sym) and o.value.name == rs
            if default:
                return o.kind == 'return' and isinstance(o.value, Sym) and o.value.name == default
            return o.kind == 'return' and isinstance(o.value, Err) and o.value.name == NA
        guarded(ctx, 'R6', 'SWITCH', {'vector': label}, mk, judge,
                'the result paired with the first case equal to the target, else the default, else #N/A', key='pairing')
    # equal numbers of different kinds are equal: SWITCH(2, 2.0, ...) selects the first case (constants; == folded on constants)
    for tv, cv in ((2, 2.0), (2.0, 2), (0, 0.0), (3, 3)):
        def mk(tv=tv, cv=cv):
            return [Const(tv), Const(cv + 1), Const('r1'), Const(cv), Const('r2'), Const('d')]

        def judge(o):
            return o.kind == 'return' and isinstance(o.value, Const) and o.value.value == 'r2'
        guarded(ctx, 'R6', 'SWITCH', {'target': repr(tv), 'cases': [repr(cv + 1), repr(cv)]}, mk, judge,
                'the result paired with the case of equal value (%r equals %r whatever the kind of number)' % (tv, cv), key='pairing')
    # an error value among the cases is not equal to the target: its result is never selected (the error itself may be passed on)
    def mk_err_case():
        return [Sym('int', 't'), Sym('err', 'E'), Const('bad'), Sym('int', 'c1'), Const('r1')]

    def judge_err_case(o):
        if o.kind == 'return' and isinstance(o.value, Const) and o.value.value == 'bad':
            return False
        if isinstance(o.value, Sym) and o.value.name == 'E':
            return True         # the error passed on
        w = world(o)
        if 'c1' not in w:
            return False
        if w['c1']:
            return o.kind == 'return' and isinstance(o.value, Const) and o.value.value == 'r1'
        return o.kind == 'return' and isinstance(o.value, Err) and o.value.name == NA
    guarded(ctx, 'R6', 'SWITCH', {'vector': 'an error value as the first case'}, mk_err_case, judge_err_case,
            'the result paired with the first case *equal* to the target (an error value is not equal to a number), or that error - never the '
            'result paired with the error case', key='pairing')
    # falsy default survives
    for dv in (0, False, ''):
        def mk(dv=dv):
            return [Sym('int', 't'), Sym('int', 'c1'), Sym('int', 'r1'), Const(dv)]

        def judge(o, dv=dv):
            w = world(o)
            if w.get('c1'):
                return o.kind == 'return' and isinstance(o.value, Sym) and o.value.name == 'r1'
            return o.kind == 'return' and isinstance(o.value, Const) and o.value.value == dv and type(o.value.value) is type(dv)
        guarded(ctx, 'R6', 'SWITCH', {'default': repr(dv)}, mk, judge, 'the falsy default itself when no case matches', key='pairing')
    # a blank is an argument like any other: as the result paired with the last case, and as the default
    def mk_blank_result():
        return [Sym('int', 't'), Sym('int', 'c1'), Sym('int', 'r1'), Sym('int', 'c2'), Const(None)]

    def judge_blank_result(o):
        w = world(o)
        if 'c1' not in w:
            return False
        if w['c1']:
            return o.kind == 'return' and isinstance(o.value, Sym) and o.value.name == 'r1'
        if 'c2' not in w:
            return False
        if w['c2']:
            return o.kind == 'return' and isinstance(o.value, Const) and o.value.value is None
        return o.kind == 'return' and isinstance(o.value, Err) and o.value.name == NA
    guarded(ctx, 'R6', 'SWITCH', {'vector': 'two cases, the second result is blank'}, mk_blank_result, judge_blank_result,
            'the (blank) result paired with the second case when it is the first equal one - the blank last argument is that result, '
            'not a missing argument', key='pairing')

    def mk_blank_default():
        return [Sym('int', 't'), Sym('int', 'c1'), Sym('int', 'r1'), Const(None)]

    def judge_blank_default(o):
        w = world(o)
        if 'c1' not in w:
            return False
        if w['c1']:
            return o.kind == 'return' and isinstance(o.value, Sym) and o.value.name == 'r1'
        return o.kind == 'return' and isinstance(o.value, Const) and o.value.value is None
    guarded(ctx, 'R6', 'SWITCH', {'default': 'blank'}, mk_blank_default, judge_blank_default,
            'the blank default itself when no case matches', key='pairing')
