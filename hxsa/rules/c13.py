# -*- coding: utf-8 -*-
"""C13 - date serial numbers: invertible, monotone, Excel 1900 system."""
import ast
import datetime
from fractions import Fraction

from ..model import AnalysisError, src
from ..callgraph import fmt
from ..paths import walk_no_defs
from ..absint import (Interp, Const, Sym, Err, Atom, Top, Func, Aff, AffCmp, Raised, Unmodelled, Exc, k)
from .. import abshelp as H, ctx as ctxmod, purity, sa

EPOCH = datetime.datetime(1970, 1, 1)


def secs(dt):
    d = dt - EPOCH
    return Fraction(d.days * 86400 + d.seconds)


T1900 = secs(datetime.datetime(1900, 1, 1))
T_MAR1 = secs(datetime.datetime(1900, 3, 1))
T_BASE = secs(datetime.datetime(1899, 12, 30))
T_MAX = secs(datetime.datetime(9999, 12, 31, 23, 59, 59))
INF = None


class Iv(object):
    """Interval of rationals with open/closed ends (None = unbounded)."""
    __slots__ = ('lo', 'lc', 'hi', 'hc')

    def __init__(self, lo=None, lc=False, hi=None, hc=False):
        self.lo, self.lc, self.hi, self.hc = lo, lc, hi, hc

    def empty(self):
        if self.lo is None or self.hi is None:
            return False
        return self.lo > self.hi or (self.lo == self.hi and not (self.lc and self.hc))

    def meet(self, o):
        lo, lc = self.lo, self.lc
        if o.lo is not None and (lo is None or o.lo > lo or (o.lo == lo and not o.lc)):
            lo, lc = o.lo, o.lc
        hi, hc = self.hi, self.hc
        if o.hi is not None and (hi is None or o.hi < hi or (o.hi == hi and not o.hc)):
            hi, hc = o.hi, o.hc
        return Iv(lo, lc, hi, hc)

    def __repr__(self):
        def f(v):
            return '%g' % float(v) if v is not None else 'inf'
        return '%s%s, %s%s' % ('[' if self.lc else '(', f(self.lo) if self.lo is not None else '-inf', f(self.hi), ']' if self.hc else ')')


def constraint_intervals(op, a, b, truth):
    """x-intervals where  a*x + b  <op>  0  has truth value ``truth``."""
    c = -b / a
    pos = a > 0
    if not truth:
        op = {'lt': 'ge', 'le': 'gt', 'gt': 'le', 'ge': 'lt', 'eq': 'ne', 'ne': 'eq'}[op]
    if not pos:
        op = {'lt': 'gt', 'le': 'ge', 'gt': 'lt', 'ge': 'le', 'eq': 'eq', 'ne': 'ne'}[op]
    if op == 'lt':
        return [Iv(None, False, c, False)]
    if op == 'le':
        return [Iv(None, False, c, True)]
    if op == 'gt':
        return [Iv(c, False, None, False)]
    if op == 'ge':
        return [Iv(c, True, None, False)]
    if op == 'eq':
        return [Iv(c, True, c, True)]
    return [Iv(None, False, c, False), Iv(c, False, None, False)]


def pieces_of(outs, domain):
    """[(Iv, outcome)] - the piecewise function described by the traces, restricted to ``domain``."""
    out = []
    for o in outs:
        ivs = [domain]
        for (t, alt, s) in o.notes:
            if isinstance(s, AffCmp):
                new = []
                for iv in ivs:
                    for c in constraint_intervals(s.op, s.coeff, s.const, bool(alt)):
                        m = iv.meet(c)
                        if not m.empty():
                            new.append(m)
                ivs = new
            elif s is not None or t:
                # a decision that is not an affine comparison: the trace is not purely piecewise-affine
                if not isinstance(s, AffCmp):
                    o._nonaffine = True
        for iv in ivs:
            out.append((iv, o))
    out.sort(key=lambda p: (p[0].lo is not None, p[0].lo if p[0].lo is not None else 0, not p[0].lc))
    return out


def run(model, res, tier):
    c = ctxmod.get(model)
    res.explanation = (
        'R1 who-may-convert: arithmetic between date-times and numbers (timedelta, total_seconds, toordinal, timestamp, ...) occurs '
        'only inside the two converters and their private helper; DATEVALUE, N, DAYS, DATEDIF(d), the comparator and the conversion '
        'table reach them through the call graph. R2 both converters are abstractly interpreted over an affine-form domain with exact '
        'rational coefficients (a date-time is seconds since 1970; every comparison against a constant splits the input interval), '
        'giving each as a list of (interval, slope, offset). On those pieces, by interval arithmetic: date->serial->date is the '
        'identity from 1 January 1900; the serial is strictly increasing in time; from 1 March 1900 it equals (t - 1899-12-30)/86400; '
        'serial->date->serial is the identity on [61, 2958465]; a negative serial is #NUM!. Exact rationals stand in for floats (the '
        'property says "to the millisecond").')
    res.rule('R1', 'one conversion authority')
    res.rule('R2', 'the two converters are inverse, strictly monotone and follow the Excel 1900 system')
    res.rule('R3', 'no cache or shared state in the converters')
    res.rule('R4', 'the comparison operators see exactly serial(operand) for date operands')
    res.rule('R6', 'N and DATEVALUE of a date-time are serial(that date-time) - the same serial the operators see')
    res.rule('R5', 'the arithmetic operators see exactly serial(operand) for date operands (the operand itself, not a truncated or rebuilt copy)')
    res.assumptions += ['A5 exact rational arithmetic stands in for floating point', 'text dates (dateutil) are outside this rule']
    res.trusted += ['hxsa abstract interpreter with the affine-form domain', 'python datetime for folding the date constants']
    um = None
    for m in model.modules.values():
        if 'serialize_date' in m.functions and 'parse_date' in m.functions:
            um = m
    if um is None:
        raise AnalysisError('date converters not found (anchor vanished)')
    H.safely(res, 'R1', 'r1', _r1, model, res, c, um)
    H.safely(res, 'R2', 'r2', _r2, model, res, c, um)
    H.safely(res, 'R4', 'r4', _r4, model, res, c)
    H.safely(res, 'R5', 'r5', _r5, model, res, c)
    H.safely(res, 'R6', 'r6', _r6, model, res, c)
    res.rule('R7', 'DAYS(end, start) is serial(end) - serial(start) with the time of day as its fraction, and a date against an array acts '
             'element by element like the scalar operation (shared with C14.R11 and C06.R6)')

    def _days_rule(tmp):
        from . import c14
        from .c01 import error_singletons
        em_, singles_ = error_singletons(model)
        c14._days(model, tmp, H.date_opaque(model), dict((msg, n_) for n_, msg in singles_.items()))

    def _array_rule(tmp):
        from . import c06
        from .. import roles
        from .c01 import error_singletons
        em_, singles_ = error_singletons(model)
        g_ = c.grammar
        c06._arrays(model, tmp, c, g_, roles.binary_actions(g_), H.date_opaque(model), dict((msg, n_) for n_, msg in singles_.items()))
    H.borrow(res, 'R7', 'DAYS', _days_rule)
    H.borrow(res, 'R7', 'arrays against a date', _array_rule)
    keys = [(um.name, um.functions.key_of('serialize_date')), (um.name, um.functions.key_of('parse_date'))]
    region = c.cg.reachable(keys)
    purity.check_region(res, c, 'R3', None, region, 'a date converter')
    purity.check_memo(res, c, 'R3', region, 'a date converter')


CONVERSION_CALLS = ('timedelta', 'total_seconds', 'toordinal', 'timestamp', 'fromordinal', 'fromtimestamp', 'utcfromtimestamp')


def _r1(model, res, c, um):
    cg = c.cg
    allowed = cg.reachable([(um.name, um.functions.key_of('serialize_date')), (um.name, um.functions.key_of('parse_date'))])
    n = 0
    for key, (m, f) in sorted(cg.funcs.items()):
        if key not in c.reach and key not in allowed:
            continue        # code that no evaluation can reach (a helper left behind by a refactoring) converts nothing
        for node in walk_no_defs(f):
            hit = None
            if isinstance(node, ast.Call):
                name = sa.call_name(node) or ''
                leaf = name.split('.')[-1]
                if leaf in CONVERSION_CALLS:
                    hit = name
            if isinstance(node, ast.BinOp) and isinstance(node.op, ast.Sub):
                # datetime - datetime: recognisable only when an operand is a known datetime constant/constructor
                for side in (node.left, node.right):
                    r = model.resolve_attr_chain(m, side) if isinstance(side, (ast.Name, ast.Attribute)) else None
                    if r and r[0] == 'const' and isinstance(r[3], ast.Call) and 'datetime' in src(r[3].func):
                        hit = 'subtraction involving %s' % src(side)
            if hit is None:
                continue
            n += 1
            ok = key in allowed
            res.ob('R1', fmt(key), 'date arithmetic: %s' % hit, ok)
            if not ok:
                res.violation('R1', '%s:%s:own-date-arithmetic' % key, m.where(node),
                              '%s converts between date-times and numbers on its own (%s) instead of going through the two converters: '
                              'its serials can disagree with the ones the operators and DATEVALUE see' % (key[1], hit), func=key[1])
    res.soft_floor('date<->number arithmetic sites', n, 2)
    # the date-times the package itself produces are naive like the epoch they are measured from: an aware one (now(tz=...), astimezone())
    # cannot be subtracted from it - every conversion of it to a serial raises TypeError
    n_aware = 0
    for key, (m, f) in sorted(cg.funcs.items()):
        if key not in c.reach and key not in allowed:
            continue
        for node in walk_no_defs(f):
            if not isinstance(node, ast.Call) or not isinstance(node.func, ast.Attribute):
                continue
            aware = None
            if node.func.attr == 'astimezone':
                aware = src(node)[:60]
            elif node.func.attr in ('now', 'fromtimestamp', 'utcfromtimestamp') and 'datetime' in src(node.func.value) and \
                    (any(kw.arg in ('tz', 'tzinfo') and not (isinstance(kw.value, ast.Constant) and kw.value.value is None) for kw in node.keywords) or
                     (node.func.attr == 'now' and node.args) or (node.func.attr == 'fromtimestamp' and len(node.args) > 1)):
                aware = src(node)[:60]
            if aware is None:
                continue
            # made naive again before it leaves?  x.replace(tzinfo=None) somewhere up the attribute chain
            up, naive = m.parent(node), False
            while isinstance(up, (ast.Attribute, ast.Call)):
                if isinstance(up, ast.Call) and isinstance(up.func, ast.Attribute) and up.func.attr == 'replace' and any(
                        kw.arg == 'tzinfo' and isinstance(kw.value, ast.Constant) and kw.value.value is None for kw in up.keywords):
                    naive = True
                up = m.parent(up)
            n_aware += 1
            res.ob('R1', fmt(key), 'date-time with a time zone: %s' % aware, naive)
            if not naive:
                res.violation('R1', '%s:%s:aware-datetime' % key, m.where(node),
                              '%s produces a date-time that carries a time zone (%s): the converters measure date-times from a naive epoch, so '
                              'turning it into a serial - adding days, N(), DATEVALUE, DAYS, a comparison - raises TypeError instead of '
                              'seeing the serial' % (key[1], aware), func=key[1])
    res.analysed['time-zone aware constructions'] = n_aware
    # the exposing functions reach the converters
    users = []
    for name in ('DATEVALUE', 'N', 'DAYS', 'DATEDIF', 'TIMEVALUE'):
        if name in model.registry:
            m, f = model.registry[name]
            users.append((name, (m.name, m.qualname_of(f))))
    for m in model.modules.values():
        for cname, cls in m.classes.items():
            if any(isinstance(n2, ast.FunctionDef) and n2.name == '__lt__' for n2 in cls.body):
                init = model.lookup_method(m, cls, '__init__')
                if init:
                    users.append((cname, (init[0].name, init[0].qualname_of(init[2]))))
    sd_key = (um.name, um.functions.key_of('serialize_date'))
    # the conversion proper may be a helper the converter delegates to; going straight to that helper is going through the converter
    pd_reach = cg.reachable([(um.name, um.functions.key_of('parse_date'))])
    core = set(k_ for k_ in cg.reachable([sd_key]) if k_[0] == um.name and k_ not in pd_reach) | set([sd_key])
    for name, key in users:
        reach = cg.reachable([key])
        ok = bool(core & reach)
        res.ob('R1', name, 'obtains serials from the date->serial converter', ok)
        if not ok:
            m, f = cg.funcs[key]
            res.violation('R1', '%s:%s:bypasses-converter' % key, m.where(f),
                          '%s does not obtain serial numbers from the shared date->serial converter' % name, func=key[1])


def _r2(model, res, c, um):
    # the converters as the module binds them (decorators applied: a singledispatch function with its registrations)
    _it = Interp(model)
    P_f = _it.module_value(um, 'parse_date') or Func(um, um.functions['parse_date'])
    S_f = _it.module_value(um, 'serialize_date') or Func(um, um.functions['serialize_date'])
    site_p = '%s:parse_date' % um.name
    site_s = '%s:serialize_date' % um.name
    try:
        p_outs = H.run_function(model, P_f, lambda: [Aff(1, 0, 'num')])
        s_outs = H.run_function(model, S_f, lambda: [Aff(1, 0, 'dt')])
    except Unmodelled as e:
        # a construct the affine domain does not model: the piecewise maps cannot be extracted - undecided, neither wrong nor broken
        res.ob('R2', site_p, 'converters as piecewise-affine maps', True, 'undecided: %s' % e)
        res.notes.append('C13.R2 undecided: the date converters use a construct the affine domain does not model (%s)' % e)
        return
    for o in p_outs + s_outs:
        if o.imprecise:
            res.ob('R2', site_p, 'converters as piecewise-affine maps', True, 'undecided: %s' % o.imprecise)
            res.notes.append('C13.R2 undecided: a converter trace depends on an unmodelled construct: %s' % o.imprecise)
            return
    P = pieces_of(p_outs, Iv(None, False, None, False))
    S = pieces_of(s_outs, Iv(T1900, True, T_MAX, True))
    res.analysed['pieces of serial->date'] = len(P)
    res.analysed['pieces of date->serial'] = len(S)
    res.soft_floor('pieces of the serial->date converter', len(P), 3)
    res.soft_floor('pieces of the date->serial converter', len(S), 2)

    def val(o):
        v = o.value
        if o.kind == 'return' and isinstance(v, Aff):
            return v
        if o.kind == 'return' and isinstance(v, Const) and isinstance(v.value, (int, float)) and not isinstance(v.value, bool):
            return Aff(0, Fraction(v.value), 'num')
        return None

    # ---- negative serial -> #NUM!
    from .c01 import error_singletons
    em, singles = error_singletons(model)
    NUM = next(n for n, msg in singles.items() if msg == '#NUM!')
    for iv, o in P:
        neg = iv.meet(Iv(None, False, Fraction(0), False))
        if neg.empty():
            continue
        ok = o.kind == 'return' and isinstance(o.value, Err) and o.value.name == NUM
        res.ob('R2', site_p, {'serial in': repr(neg), 'expected': '#NUM!'}, ok, repr(o.value))
        if not ok:
            res.violation('R2', site_p + ':negative-serial', um.where(um.functions['parse_date']),
                          'serials in %r (dates before 1900) must convert to #NUM!; got %r' % (neg, o.value), func='parse_date')
    # ---- S depends on the date-time itself, not on a rounded copy of it
    for o in s_outs:
        foreign = set()
        if isinstance(o.value, Aff):
            foreign |= set(v_ for v_ in o.value.coeffs if v_ != 'x')
        for (t_, alt_, s_) in o.notes:
            if isinstance(s_, AffCmp):
                foreign |= set(v_ for v_ in s_.coeffs if v_ != 'x')
        rounded = sorted(v_ for v_ in foreign if v_.startswith(('floor:', 'trunc:')))
        res.ob('R2', site_s, {'trace': repr(o.value), 'rule': 'the serial is computed from the date-time, not from a rounded copy'}, not rounded)
        if rounded:
            res.violation('R2', site_s + ':rounded-time', um.where(um.functions['serialize_date']),
                          'the serial is computed from the date-time rounded to whole seconds (%s): date-times within one second share a serial, '
                          'so the map is not strictly increasing and converting back does not return the date-time' % ', '.join(rounded),
                          func='serialize_date')
            return
        if foreign:
            raise AnalysisError('a date->serial trace depends on %s: not a function of the date-time alone' % sorted(foreign))
    # ---- S: strictly increasing
    Sv = [(iv, val(o), o) for iv, o in S]
    for iv, v, o in Sv:
        ok = v is not None and v.kind == 'num' and (v.coeff > 0 or (iv.lo == iv.hi))
        res.ob('R2', site_s, {'time in': repr(iv), 'piece': repr(v)}, ok)
        if not ok:
            res.violation('R2', site_s + ':piece-not-increasing', um.where(um.functions['serialize_date']),
                          'on %r the serial is %r: not a strictly increasing number' % (iv, o.value), func='serialize_date')
            return
    for (iv1, v1, o1), (iv2, v2, o2) in zip(Sv, Sv[1:]):
        # supremum of the left piece vs infimum of the right piece
        sup1 = v1.coeff * iv1.hi + v1.const
        inf2 = v2.coeff * iv2.lo + v2.const
        attained1, attained2 = iv1.hc, iv2.lc
        ok = sup1 < inf2 or (sup1 == inf2 and not (attained1 and attained2))
        res.ob('R2', site_s, {'breakpoint': float(iv2.lo), 'left limit': float(sup1), 'right value': float(inf2)}, ok)
        if not ok:
            res.violation('R2', site_s + ':not-monotone-at-breakpoint', um.where(um.functions['serialize_date']),
                          'the serial is not strictly increasing across the breakpoint t=%s: it reaches %s on the left and starts at %s on the right'
                          % (_dt(iv2.lo), float(sup1), float(inf2)), func='serialize_date')
    # ---- the phantom 29 February 1900 is the only discontinuity: before 1 March 1900 serial differences are day differences too
    for iv, v, o in Sv:
        if iv.lo is not None and T1900 < iv.lo < T_MAR1:
            res.ob('R2', site_s, {'breakpoint': _dt(iv.lo)}, False, 'a piece of the serial map starts inside January-February 1900')
            res.violation('R2', site_s + ':breakpoint-before-march-1900', um.where(um.functions['serialize_date']),
                          'the serial map has a breakpoint at %s: the only discontinuity of the Excel 1900 system is the phantom 29 February '
                          '(serial 60, i.e. at 1 March 1900 00:00); with another one the difference of two serials in January-February 1900 is '
                          'not the number of days between the dates (a date-time on that day is off by one)' % _dt(iv.lo), func='serialize_date')
    # ---- Excel 1900 system from 1 March 1900
    for iv, v, o in Sv:
        part = iv.meet(Iv(T_MAR1, True, None, False))
        if part.empty():
            continue
        ok = v.coeff == Fraction(1, 86400) and v.const == -T_BASE / 86400
        res.ob('R2', site_s, {'time in': repr(part), 'expected': '(t - 1899-12-30)/86400'}, ok, repr(v))
        if not ok:
            at = part.lo if part.lc else part.lo
            got = v.coeff * part.lo + v.const
            res.violation('R2', site_s + ':excel-1900', um.where(um.functions['serialize_date']),
                          'from 1 March 1900 the serial must be the number of days since 30 December 1899; on %s..%s it is %s*t%+g '
                          '(e.g. at %s the serial is %s, expected %s)' % (_dt(part.lo), _dt(part.hi), v.coeff, float(v.const), _dt(part.lo),
                                                                            float(got), float((part.lo - T_BASE) / 86400)), func='serialize_date')
    # ---- P o S = id from 1 January 1900
    Pv = [(iv, val(o), o) for iv, o in P]
    for ivs, vs, os_ in Sv:
        for ivp, vp, op_ in Pv:
            # t such that s(t) in ivp
            sub = _preimage(ivs, vs, ivp)
            if sub is None or sub.empty():
                continue
            if vp is None or vp.kind != 'dt':
                ok = False
                comp = None
            else:
                comp = (vp.coeff * vs.coeff, vp.coeff * vs.const + vp.const)
                ok = comp == (1, 0) or (sub.lo is not None and sub.lo == sub.hi and comp[0] * sub.lo + comp[1] == sub.lo)
            res.ob('R2', 'date->serial->date', {'time in': repr(sub)}, ok, 'composition %s' % (comp,))
            if not ok:
                t0 = sub.lo
                res.violation('R2', 'converters:date-serial-date', um.where(um.functions['parse_date']),
                              'converting a date-time in %s..%s to its serial and back does not return it (composition t -> %s)'
                              % (_dt(sub.lo), _dt(sub.hi), 'error' if comp is None else '%s*t%+g' % (comp[0], float(comp[1]))), func='parse_date')
    # ---- the phantom day: serial 60 (29 February 1900, which never was) reads as the day after 28 February, so that adding one day to
    # 28 February 1900 moves on - P(59) = 28 February and P(60) = P(61) = 1 March; the other way round "28 February + 1" would stand still
    for point, want, what in ((Fraction(59), T_MAR1 - 86400, '28 February 1900'), (Fraction(60), T_MAR1, '1 March 1900 (the day after 28 February)'),
                              (Fraction(61), T_MAR1, '1 March 1900')):
        for ivp, vp, op_ in Pv:
            if ivp.meet(Iv(point, True, point, True)).empty() or vp is None or vp.kind != 'dt':
                continue
            got = vp.coeff * point + vp.const
            ok = got == want
            res.ob('R2', site_p, {'serial': int(point), 'expected': what}, ok, _dt(got))
            if not ok:
                res.violation('R2', site_p + ':phantom-day', um.where(um.functions['parse_date']),
                              'serial %d converts to %s; it must be %s: around the phantom 29 February 1900 the serials 59, 60, 61 read as 28 February, '
                              '1 March, 1 March, so that a date plus one day is never the same date' % (int(point), _dt(got), what), func='parse_date')
    # ---- S o P = id on [61, 2958465]
    dom = Iv(Fraction(61), True, Fraction(2958465), True)
    for ivp, vp, op_ in Pv:
        part = ivp.meet(dom)
        if part.empty():
            continue
        if vp is None or vp.kind != 'dt':
            res.ob('R2', 'serial->date->serial', {'serial in': repr(part)}, False, repr(op_.value))
            res.violation('R2', 'converters:serial-date-serial', um.where(um.functions['parse_date']),
                          'serials in %r do not convert to a date (%r)' % (part, op_.value), func='parse_date')
            continue
        for ivs, vs, os_ in Sv:
            sub = _preimage(part, vp, ivs)
            if sub is None or sub.empty():
                continue
            comp = (vs.coeff * vp.coeff, vs.coeff * vp.const + vs.const)
            ok = comp == (1, 0) or (sub.lo is not None and sub.lo == sub.hi and comp[0] * sub.lo + comp[1] == sub.lo)
            res.ob('R2', 'serial->date->serial', {'serial in': repr(sub)}, ok, 'composition %s' % (comp,))
            if not ok:
                s0 = sub.lo
                res.violation('R2', 'converters:serial-date-serial', um.where(um.functions['serialize_date']),
                              'converting a serial in %r to a date and back gives %s*s%+g instead of s (e.g. serial %s comes back as %s)'
                              % (sub, comp[0], float(comp[1]), float(s0), float(comp[0] * s0 + comp[1])), func='serialize_date')


def _preimage(iv_x, f, iv_y):
    """Sub-interval of iv_x on which f(x) = a*x+b lies in iv_y (a != 0, or constant)."""
    if f is None:
        return None
    a, b = f.coeff, f.const
    if a == 0:
        y = b
        inside = (iv_y.lo is None or y > iv_y.lo or (y == iv_y.lo and iv_y.lc)) and \
                 (iv_y.hi is None or y < iv_y.hi or (y == iv_y.hi and iv_y.hc))
        return iv_x if inside else None
    lo = None if iv_y.lo is None else (iv_y.lo - b) / a
    hi = None if iv_y.hi is None else (iv_y.hi - b) / a
    lc, hc = iv_y.lc, iv_y.hc
    if a < 0:
        lo, hi, lc, hc = hi, lo, hc, lc
    return iv_x.meet(Iv(lo, lc, hi, hc))


def _dt(t):
    if t is None:
        return 'inf'
    try:
        return (EPOCH + datetime.timedelta(seconds=float(t))).isoformat(' ')
    except (OverflowError, ValueError):
        return '%g s' % float(t)


def _r4(model, res, c):
    """Comparisons involving a date: the native comparison must be over serial(date) of the operand itself."""
    from . import c07
    from .. import roles, report
    g = c.grammar
    acts = roles.binary_actions(g)
    lex = roles.operator_lexemes(g, list(c07.OPS))
    opaque = H.date_opaque(model)
    tmp = report.Result('C13')
    n = 0
    for ta, tb in (('datetime', 'datetime'), ('datetime', 'int'), ('int', 'datetime'), ('datetime', 'float'), ('datetime', 'none'), ('none', 'datetime')):
        cell = {}
        bad = False
        for tok, rel in c07.OPS.items():
            try:
                outs = c07.run_action(model, g, acts, 'logic', lambda: [H.mk(ta, 'a'), Const(lex[tok]), H.mk(tb, 'b')], opaque)
            except Unmodelled:
                bad = True
                break
            if any(o.imprecise for o in outs):
                bad = True
                break
            cell[rel] = outs
            n += 1
        if not bad:
            c07._check_cell(tmp, acts, ta, tb, cell)
    for o in tmp.obligations:
        res.ob('R4', o['site'], o['case'], o['verdict'] == 'discharged', o.get('detail'))
    for f in tmp.findings:
        res.violation('R4', f.construct, f.where, f.why, case=f.case, func=f.func)
    res.soft_floor('comparison runs with a date operand', n, 30)


def _r5(model, res, c):
    """+ - * / with a date operand: every serial the result is built from is the serial of the operand itself."""
    from .. import roles
    from . import c06
    g = c.grammar
    acts = roles.binary_actions(g)
    opaque = H.date_opaque(model)
    m, f = acts['arith']
    n = 0

    def serial_args(v, acc):
        if isinstance(v, Atom):
            if v.op == 'serial' and len(v.args) == 1:
                acc.append(v.args[0])
            for a in v.args:
                serial_args(a, acc)
        return acc
    cases = (('date op number', lambda: Sym('datetime', 'D'), lambda: Sym('int', 'n'), ['D']),
             ('number op date', lambda: Sym('int', 'n'), lambda: Sym('datetime', 'D'), ['D']),
             ('date op date', lambda: Sym('datetime', 'D'), lambda: Sym('datetime', 'E'), ['D', 'E']))
    for op in ('+', '-', '*', '/'):
        for label, mkl, mkr, names in cases:
            try:
                outs = c06._run_arith(model, g, acts, opaque, op, mkl, mkr)
            except Unmodelled as e:
                res.ob('R5', 'arithmetic action', {'op': op, 'case': label}, True, 'undecided: %s' % e)
                continue
            bad = []
            seen = set()
            for o in outs:
                if o.imprecise or o.kind != 'return':
                    continue
                for a in serial_args(o.value, []):
                    if isinstance(a, Sym) and a.name in names:
                        seen.add(a.name)
                    else:
                        bad.append(a)
            n += 1
            ok = not bad
            res.ob('R5', 'arithmetic action', {'op': op, 'case': label}, ok, 'serials of %s' % (sorted(seen) or bad[:1]))
            if bad:
                res.violation('R5', 'arith:date-operand-serial', m.where(f),
                              '%s with %s: the result is computed from serial(%r), not from the serial of the date operand itself - the time of '
                              'day (or another part of the operand) is lost before the arithmetic, so date +/- number and N/DAYS/comparisons no '
                              'longer see the same serial' % (label, op, bad[0]), case={'op': op, 'case': label}, func=f.name)
    res.soft_floor('arithmetic runs with a date operand', n, 8)


def _r6(model, res, c):
    opaque = H.date_opaque(model)
    for name in ('N', 'DATEVALUE'):
        if name not in model.registry:
            continue
        m, f = model.registered(name)
        try:
            outs = H.run_function(model, H.registry_func(model, name), lambda: [Sym('datetime', 'D')], opaque=opaque)
        except Unmodelled as e:
            res.ob('R6', name, 'date-time argument', True, 'undecided: %s' % e)
            continue
        vals = [o for o in outs if not o.imprecise]
        if not vals:
            res.ob('R6', name, 'date-time argument', True, 'undecided (unmodelled construct)')
            continue
        bad = [o for o in vals if not (o.kind == 'return' and isinstance(o.value, Atom) and o.value.op == 'serial' and len(o.value.args) == 1
                                       and isinstance(o.value.args[0], Sym) and o.value.args[0].name == 'D')]
        res.ob('R6', name, '%s(date-time) = serial(date-time)' % name, not bad, H.describe(vals)[:2])
        if bad:
            res.violation('R6', 'function:%s:serial-of-operand' % name, m.where(f),
                          '%s of a date-time must be the serial of that very date-time; got %s - a copy rebuilt from some of its parts loses the '
                          'time of day, so %s no longer agrees with DAYS, the operators and the comparisons' % (name, '; '.join(H.describe(bad)[:2]), name),
                          func=f.name)
